"""Generates the CrossHair condition functions for C23 (one module per size bound SZ)."""

HEAD = '''from harness.C23_local import (local_open_read_ok, local_open_read_outcome, local_read_range_ok,
                                local_read_range_outcome, readexactly_ok, readexactly_outcome)

'''

# name -> (signature, preconditions, property expression, twin expression (must be REFUTED = reachable))
CONDS = {
    'rx': (
        'size: int, pos: int, n: int, s1: int, s2: int',
        ['0 <= size <= {SZ} and 0 <= pos <= {SZ1} and 0 <= n <= {SZ1}', '0 <= s1 <= {SZ} and 0 <= s2 <= {SZ}'],
        'readexactly_ok(size, pos, n, [s1, s2])',
        "not (readexactly_outcome(size, pos, n, [s1, s2])[0] == 'ok' and n >= 2 and s1 == 1)",
    ),
    'lrr': (
        'size: int, start: int, end: int, incl: bool, s1: int, s2: int',
        ['0 <= size <= {SZ} and 0 <= start <= {SZ1} and start - 1 <= end <= {SZ2}',
         'incl or end >= start', '0 <= s1 <= {SZ} and 0 <= s2 <= {SZ}'],
        'local_read_range_ok(size, start, end, incl, [s1, s2])',
        "not (local_read_range_outcome(size, start, end, incl, [s1, s2])[0] == 'ok' and end > start and s1 == 1)",
    ),
    'lor': (
        'size: int, start: int, haslen: bool, length: int',
        ['0 <= size <= {SZ} and 0 <= start <= {SZ1} and 0 <= length <= {SZ1}'],
        'local_open_read_ok(size, start, length if haslen else None)',
        "not (local_open_read_outcome(size, start, length if haslen else None)[0] == 'ok' and haslen "
        "and length >= 1 and start + length < size)",
    ),
}

ARGNAMES = {k: [a.split(':')[0].strip() for a in v[0].split(',')] for k, v in CONDS.items()}


def source(sz):
    """One condition function per (condition, object size): CrossHair explores the remaining integers."""
    out = [HEAD]
    fmt = {'SZ': sz, 'SZ1': sz + 1, 'SZ2': sz + 2}
    for name, (sig, pres, prop, twin) in CONDS.items():
        doc = '\n'.join(f'    pre: {p.format(**fmt)}' for p in pres)
        for size in range(sz + 1):
            out.append(f'def {name}_s{size}({sig}) -> bool:\n    """\n    pre: size == {size}\n{doc}\n    post: _\n'
                       f'    """\n    return {prop}\n\n')
        if twin:
            out.append(f'def {name}_reach({sig}) -> bool:\n    """\n{doc}\n    post: _\n    """\n    return {twin}\n\n')
    return '\n'.join(out)
