"""Generates the CrossHair condition functions for C23 (one module per size bound SZ)."""

HEAD = '''from harness.C23_local import (DATA, azure_read_range_ok, azure_read_range_outcome, azure_seq_ok, azure_seq_outcome,
                                local_open_read_ok, local_open_read_outcome, local_read_loop_ok,
                                local_read_loop_outcome, local_read_range_ok, local_read_range_outcome,
                                readexactly_ok, readexactly_outcome)

'''

# name -> (signature, preconditions, property expression, twin expression (must be REFUTED = reachable))
CONDS = {
    'rx': (
        'size: int, pos: int, n: int, s1: int, s2: int',
        ['0 <= size <= {SZ} and 0 <= pos <= {SZ1} and 0 <= n <= {SZ1}', '0 <= s1 <= {SZ} and 0 <= s2 <= {SZ}'],
        'readexactly_ok(size, pos, n, [s1, s2])',
        "not (readexactly_outcome(size, pos, n, [s1, s2])[0] == 'ok' and n >= 2 and s1 == 1)",
    ),
    'lrr': (
        'size: int, start: int, end: int, incl: bool, s1: int, s2: int',
        ['0 <= size <= {SZ} and 0 <= start <= {SZ1} and start - 1 <= end <= {SZ2}',
         'incl or end >= start', '0 <= s1 <= {SZ} and 0 <= s2 <= {SZ}'],
        'local_read_range_ok(size, start, end, incl, [s1, s2])',
        "not (local_read_range_outcome(size, start, end, incl, [s1, s2])[0] == 'ok' and end > start and s1 == 1)",
    ),
    'lor': (
        'size: int, start: int, haslen: bool, length: int',
        ['0 <= size <= {SZ} and 0 <= start <= {SZ1} and 0 <= length <= {SZ1}'],
        'local_open_read_ok(size, start, length if haslen else None)',
        "not (local_open_read_outcome(size, start, length if haslen else None)[0] == 'ok' and haslen "
        "and length >= 1 and start + length < size)",
    ),
    'lloop': (
        'size: int, start: int, haslen: bool, length: int, n1: int, s1: int, s2: int',
        ['0 <= size <= {SZ} and 0 <= start <= {SZ1} and 0 <= length <= {SZ1}',
         '0 <= n1 <= {SZ1} and 0 <= s1 <= {SZ} and 0 <= s2 <= {SZ}'],
        'local_read_loop_ok(size, start, length if haslen else None, [n1], [s1, s2])',
        "not (local_read_loop_outcome(size, start, length if haslen else None, [n1], [s1, s2])[0] == 'ok' "
        "and haslen and length >= 2 and n1 == 1 and s2 == 1 and start + length < size)",
    ),
    'azrr': (
        'size: int, start: int, end: int, incl: bool, c1: int, c2: int',
        ['0 <= size <= {SZ} and 0 <= start <= {SZ1} and start - 1 <= end <= {SZ2}',
         'incl or end >= start', '0 <= c1 <= {SZ} and 0 <= c2 <= {SZ}'],
        'azure_read_range_ok(size, start, end, incl, [c1, c2])',
        "not (azure_read_range_outcome(size, start, end, incl, [c1, c2])[0] == 'ok' and end > start and c1 == 1)",
    ),
    # Azure, no length: sized reads then read-to-end.  Region K416 (sized reads consumed exactly up to EOF without a
    # short read, then read()) is split off.
    'azseq_main': (
        'size: int, start: int, n1: int, n2: int, c1: int',
        ['0 <= size <= {SZ} and 0 <= start <= {SZ1} and 0 <= n1 <= {SZ1} and 0 <= n2 <= {SZ1} and 0 <= c1 <= {SZ}',
         'not (size - start > 0 and n1 + n2 == size - start)'],
        'azure_seq_ok(size, start, None, [n1, n2], [c1])',
        "not (azure_seq_outcome(size, start, None, [n1, n2], [c1])[0] == 'ok' and n1 >= 1 and n2 >= 1 "
        "and size - start > n1 + n2)",
    ),
    'azseq_k416': (
        'size: int, start: int, n1: int, n2: int, c1: int',
        ['0 <= size <= {SZ} and 0 <= start <= {SZ1} and 0 <= n1 <= {SZ1} and 0 <= n2 <= {SZ1} and 0 <= c1 <= {SZ}',
         'size - start > 0 and n1 + n2 == size - start'],
        'azure_seq_ok(size, start, None, [n1, n2], [c1])',
        None,
    ),
    # Azure with a length: region KLEN (the object extends past the requested range) is split off.
    'azlen_main': (
        'size: int, start: int, length: int, n1: int, n2: int, c1: int',
        ['0 <= size <= {SZ} and 0 <= start <= {SZ1} and 1 <= length <= {SZ1}',
         '0 <= n1 <= {SZ1} and 0 <= n2 <= {SZ1} and 0 <= c1 <= {SZ}',
         'size <= start + length', 'not (size - start > 0 and n1 + n2 == size - start)'],
        'azure_seq_ok(size, start, length, [n1, n2], [c1])',
        "not (azure_seq_outcome(size, start, length, [n1, n2], [c1])[0] == 'ok' and n1 >= 1 and n2 >= 1 "
        "and size - start > n1 + n2)",
    ),
    'azlen_klen': (
        'size: int, start: int, length: int, n1: int, n2: int, c1: int',
        ['0 <= size <= {SZ} and 0 <= start <= {SZ1} and 1 <= length <= {SZ1}',
         '0 <= n1 <= {SZ1} and 0 <= n2 <= {SZ1} and 0 <= c1 <= {SZ}',
         'size > start + length'],
        'azure_seq_ok(size, start, length, [n1, n2], [c1])',
        None,
    ),
}

ARGNAMES = {k: [a.split(':')[0].strip() for a in v[0].split(',')] for k, v in CONDS.items()}


def source(sz):
    """One condition function per (condition, object size): CrossHair explores the remaining integers."""
    out = [HEAD]
    fmt = {'SZ': sz, 'SZ1': sz + 1, 'SZ2': sz + 2}
    for name, (sig, pres, prop, twin) in CONDS.items():
        doc = '\n'.join(f'    pre: {p.format(**fmt)}' for p in pres)
        for size in range(sz + 1):
            out.append(f'def {name}_s{size}({sig}) -> bool:\n    """\n    pre: size == {size}\n{doc}\n    post: _\n'
                       f'    """\n    return {prop}\n\n')
        if twin:
            out.append(f'def {name}_reach({sig}) -> bool:\n    """\n{doc}\n    post: _\n    """\n    return {twin}\n\n')
    return '\n'.join(out)
