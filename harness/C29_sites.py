"""C29 call-site analysis: every redirect the auth service issues must either have a target built from trusted parts
or a target that passed `validate_next_page_url` on every path reaching the redirect.

Sinks      calls to web.HTTPFound / HTTPSeeOther / HTTPMovedPermanently / HTTPTemporaryRedirect / HTTPPermanentRedirect /
           HTTPMultipleChoices / HTTPUseProxy (first positional or `location=`) and dict literals with a 'Location' key.
Trusted    string constants, f-strings / + / % of trusted parts, deploy_config.external_url/url/base_url(...) with trusted
           arguments, anything under request.app, the result of `<flow client>.initiate_flow(...)` (OAuth library URL) and
           its subscripts, str()/URL() of a trusted value.
Tainted    anything else rooted at `request` (query, match_info, headers, cookies, post(), json(), url, ...): never ok
           unless the very same expression text, or the variable holding it, went through validate_next_page_url(...)
           (a statement that returns normally) earlier on the path and was not re-assigned since.
Session    session['k'] / session.pop('k', d) / session.get('k', d): ok iff every store `session['k'] = v` in the module is
           itself dominated by validation of v (assume-guarantee over the encrypted session cookie) and d is ok.
Unknown    any other target expression -> HarnessError (never a pass).

Path conditions are z3 formulas over opaque atoms (one per distinct test text, as vt.pathsym does); "redirect reached
=> target ok" is decided by z3.  Marks made inside a `try` with handlers are dropped after it (the raise could be caught);
loops are walked once and merged conservatively."""
import ast

import z3

from vt.common import HarnessError

REDIRECTS = {'HTTPFound', 'HTTPSeeOther', 'HTTPMovedPermanently', 'HTTPTemporaryRedirect', 'HTTPPermanentRedirect',
             'HTTPMultipleChoices', 'HTTPUseProxy'}
VALIDATOR = 'validate_next_page_url'
TRUSTED_CONFIG_CALLS = {'external_url', 'url', 'base_url'}
TRUSTED_PRODUCERS = {'initiate_flow'}
UNKNOWN = None


def _root(node):
    while isinstance(node, (ast.Attribute, ast.Subscript, ast.Call, ast.Await)):
        node = node.func if isinstance(node, ast.Call) else node.value
    return node.id if isinstance(node, ast.Name) else None


def _chain(node):
    """attribute names from the root outwards"""
    out = []
    while isinstance(node, (ast.Attribute, ast.Subscript, ast.Call, ast.Await)):
        if isinstance(node, ast.Attribute):
            out.append(node.attr)
        node = node.func if isinstance(node, ast.Call) else node.value
    return list(reversed(out))


def names_in(text):
    return {n.id for n in ast.walk(ast.parse(text, mode='eval')) if isinstance(n, ast.Name)}


class State:
    def __init__(self, ok=None, vexpr=None):
        self.ok = dict(ok or {})
        self.vexpr = dict(vexpr or {})

    def copy(self):
        return State(self.ok, self.vexpr)


def _and(a, b):
    if a is UNKNOWN or b is UNKNOWN:
        return UNKNOWN
    return z3.And(a, b)


def _ite(c, a, b):
    if a is UNKNOWN or b is UNKNOWN:
        return UNKNOWN
    return z3.If(c, a, b)


class SiteWalker:
    def __init__(self, fn, store_ok):
        self.fn = fn
        self.store_ok = store_ok          # key -> z3 Bool "every store of this session key is validated"
        self.atoms = {}
        self.fresh = 0
        self.sinks = []                   # (node, target expr, pc, ok)
        self.stores = []                  # (node, key, value expr, pc, ok)
        self.session_reads = set()

    # -- conditions ---------------------------------------------------------------------------------------
    def atom(self, text):
        if text not in self.atoms:
            self.atoms[text] = z3.Bool(f'{self.fn.name}:{text}')
        return self.atoms[text]

    def cond(self, e):
        if isinstance(e, ast.BoolOp):
            parts = [self.cond(v) for v in e.values]
            return z3.And(*parts) if isinstance(e.op, ast.And) else z3.Or(*parts)
        if isinstance(e, ast.UnaryOp) and isinstance(e.op, ast.Not):
            return z3.Not(self.cond(e.operand))
        if isinstance(e, ast.Constant) and isinstance(e.value, bool):
            return z3.BoolVal(e.value)
        if isinstance(e, ast.Compare) and len(e.ops) == 1 and isinstance(e.ops[0], (ast.IsNot, ast.NotEq, ast.NotIn)):
            pos = ast.Compare(e.left, [{ast.IsNot: ast.Is, ast.NotEq: ast.Eq, ast.NotIn: ast.In}[type(e.ops[0])]()],
                              e.comparators)
            return z3.Not(self.atom(ast.unparse(pos)))
        return self.atom(ast.unparse(e))

    def opaque(self):
        self.fresh += 1
        return z3.Bool(f'{self.fn.name}:__opaque{self.fresh}')

    # -- value classification -----------------------------------------------------------------------------------
    def ok_of(self, e, st):
        """z3 Bool: 'the value is trusted or validated on this path'; UNKNOWN if the expression is not recognised"""
        text = ast.unparse(e)
        structural = self._ok_struct(e, st)
        if text in st.vexpr:
            return st.vexpr[text] if structural is UNKNOWN else z3.Or(st.vexpr[text], structural)
        return structural

    def _ok_struct(self, e, st):
        T, F = z3.BoolVal(True), z3.BoolVal(False)
        if isinstance(e, ast.Constant):
            return T
        if isinstance(e, ast.Await):
            return self.ok_of(e.value, st)
        if isinstance(e, ast.JoinedStr):
            r = T
            for v in e.values:
                if isinstance(v, ast.FormattedValue):
                    r = _and(r, self.ok_of(v.value, st))
            return r
        if isinstance(e, ast.BinOp) and isinstance(e.op, (ast.Add, ast.Mod)):
            return _and(self.ok_of(e.left, st), self.ok_of(e.right, st))
        if isinstance(e, ast.Tuple):
            r = T
            for v in e.elts:
                r = _and(r, self.ok_of(v, st))
            return r
        if isinstance(e, ast.IfExp):
            return _and(self.ok_of(e.body, st), self.ok_of(e.orelse, st))
        if isinstance(e, ast.Name):
            return st.ok.get(e.id, UNKNOWN)
        root = _root(e)
        chain = _chain(e)
        if isinstance(e, ast.Call):
            f = e.func
            if isinstance(f, ast.Name) and f.id in ('str', 'URL') and len(e.args) == 1:
                return self.ok_of(e.args[0], st)
            if isinstance(f, ast.Attribute) and f.attr in TRUSTED_CONFIG_CALLS and _root(f.value) == 'deploy_config':
                r = T
                for a in list(e.args) + [k.value for k in e.keywords]:
                    r = _and(r, self.ok_of(a, st))
                return r
            if isinstance(f, ast.Attribute) and f.attr in TRUSTED_PRODUCERS:
                return T
        if root == 'request':
            if chain[:1] == ['app']:
                return T
            return F
        if root == 'session':
            key, default = self._session_read(e)
            if key is None:
                return UNKNOWN
            self.session_reads.add(key)
            r = self.store_ok.setdefault(key, z3.Bool(f'stores_of_session[{key!r}]_validated'))
            if default is not None:
                r = _and(r, self.ok_of(default, st))
            return r
        if isinstance(e, ast.Subscript) and isinstance(e.value, ast.Name):
            base = st.ok.get(e.value.id, UNKNOWN)
            if base is not UNKNOWN and e.value.id in getattr(self, '_producers', set()):
                return base
        return UNKNOWN

    @staticmethod
    def _session_read(e):
        if isinstance(e, ast.Subscript) and isinstance(e.value, ast.Name) and isinstance(e.slice, ast.Constant):
            return e.slice.value, None
        if isinstance(e, ast.Call) and isinstance(e.func, ast.Attribute) and e.func.attr in ('pop', 'get') \
                and isinstance(e.func.value, ast.Name) and e.args and isinstance(e.args[0], ast.Constant) and not e.keywords:
            return e.args[0].value, (e.args[1] if len(e.args) > 1 else None)
        return None, None

    # -- sinks ------------------------------------------------------------------------------------------------
    def scan(self, node, pc, st):
        for sub in ast.walk(node):
            if isinstance(sub, (ast.FunctionDef, ast.AsyncFunctionDef, ast.Lambda)):
                continue
            if isinstance(sub, ast.Call):
                f = sub.func
                nm = f.attr if isinstance(f, ast.Attribute) else (f.id if isinstance(f, ast.Name) else None)
                if nm in REDIRECTS:
                    tgt = sub.args[0] if sub.args else next((k.value for k in sub.keywords if k.arg == 'location'), None)
                    if tgt is None:
                        raise HarnessError(f'{self.fn.name}: redirect without a recognisable target: {ast.unparse(sub)}')
                    self.sinks.append((sub, tgt, pc, self.ok_of(tgt, st)))
            if isinstance(sub, ast.Dict):
                for k, v in zip(sub.keys, sub.values):
                    if isinstance(k, ast.Constant) and isinstance(k.value, str) and k.value.lower() == 'location':
                        self.sinks.append((sub, v, pc, self.ok_of(v, st)))

    # -- statements -------------------------------------------------------------------------------------------
    def invalidate(self, name, st):
        for text in list(st.vexpr):
            if name in names_in(text):
                del st.vexpr[text]

    def assign(self, target, value, pc, st):
        if isinstance(target, ast.Name):
            ok = self.ok_of(value, st) if value is not None else UNKNOWN
            self.invalidate(target.id, st)
            st.ok[target.id] = ok
            if value is not None and isinstance(value, ast.Call) and isinstance(value.func, ast.Attribute) \
                    and value.func.attr in TRUSTED_PRODUCERS:
                self._producers = getattr(self, '_producers', set()) | {target.id}
            return
        if isinstance(target, ast.Subscript) and _root(target) == 'session' and isinstance(target.value, ast.Name):
            if not isinstance(target.slice, ast.Constant):
                raise HarnessError(f'{self.fn.name}: session store with a non-constant key: {ast.unparse(target)}')
            self.stores.append((target, target.slice.value, value, pc, self.ok_of(value, st)))
            return
        for n in ast.walk(target):
            if isinstance(n, ast.Name) and isinstance(n.ctx, ast.Store):
                self.invalidate(n.id, st)
                st.ok[n.id] = UNKNOWN

    def block(self, stmts, pc, st):
        """walks stmts; returns (pc of falling off the end, state) — pc False when every path terminated"""
        for s in stmts:
            if isinstance(s, (ast.FunctionDef, ast.AsyncFunctionDef, ast.ClassDef, ast.Import, ast.ImportFrom, ast.Pass,
                              ast.Global, ast.Nonlocal)):
                continue
            if isinstance(s, ast.If):
                self.scan(s.test, pc, st)
                c = self.cond(s.test)
                pa, sa = self.block(s.body, z3.And(pc, c), st.copy())
                pb, sb = self.block(s.orelse, z3.And(pc, z3.Not(c)), st.copy())
                st = self.merge(c, pa, sa, pb, sb)
                pc = z3.Or(pa, pb)
                continue
            if isinstance(s, ast.Raise):
                if s.exc is not None:
                    self.scan(s.exc, pc, st)
                return z3.BoolVal(False), st
            if isinstance(s, ast.Return):
                if s.value is not None:
                    self.scan(s.value, pc, st)
                return z3.BoolVal(False), st
            if isinstance(s, (ast.Assign, ast.AnnAssign, ast.AugAssign, ast.Expr, ast.Assert, ast.Delete)):
                self.scan(s, pc, st)
                if isinstance(s, ast.Assert):
                    pc = z3.And(pc, self.cond(s.test))
                elif isinstance(s, ast.Assign):
                    for t in s.targets:
                        self.assign(t, s.value, pc, st)
                elif isinstance(s, ast.AnnAssign):
                    self.assign(s.target, s.value, pc, st)
                elif isinstance(s, ast.AugAssign):
                    if isinstance(s.target, ast.Name):
                        old = st.ok.get(s.target.id, UNKNOWN)
                        new = _and(old, self.ok_of(s.value, st))
                        self.invalidate(s.target.id, st)
                        st.ok[s.target.id] = new
                elif isinstance(s, ast.Expr):
                    v = s.value.value if isinstance(s.value, ast.Await) else s.value
                    if isinstance(v, ast.Call) and ((isinstance(v.func, ast.Name) and v.func.id == VALIDATOR) or (
                            isinstance(v.func, ast.Attribute) and v.func.attr == VALIDATOR)) and len(v.args) == 1 and not v.keywords:
                        a = v.args[0]
                        st.vexpr[ast.unparse(a)] = z3.BoolVal(True)
                        if isinstance(a, ast.Name):
                            st.ok[a.id] = z3.BoolVal(True)
                    elif isinstance(v, ast.Call) and isinstance(v.func, ast.Attribute) and _root(v.func) == 'session' \
                            and v.func.attr in ('update', 'setdefault', '__setitem__'):
                        raise HarnessError(f'{self.fn.name}: session written through {v.func.attr}(): not translatable')
                continue
            if isinstance(s, (ast.For, ast.AsyncFor, ast.While)):
                self.scan(s.iter if hasattr(s, 'iter') else s.test, pc, st)
                inner = st.copy()
                if hasattr(s, 'target'):
                    self.assign(s.target, None, pc, inner)
                pin, sin = self.block(s.body, z3.And(pc, self.opaque()), inner)
                st = self.merge_conservative(st, sin)
                _, st2 = self.block(s.orelse, pc, st.copy())
                st = self.merge_conservative(st, st2)
                continue
            if isinstance(s, (ast.With, ast.AsyncWith)):
                for it in s.items:
                    self.scan(it.context_expr, pc, st)
                    if it.optional_vars is not None:
                        self.assign(it.optional_vars, it.context_expr, pc, st)
                pc, st = self.block(s.body, pc, st)
                continue
            if isinstance(s, ast.Try):
                before = st.copy()
                pb, sb = self.block(s.body, pc, st.copy())
                outs = []
                if s.handlers:
                    # the exception (possibly the validator's) may be caught: nothing learnt in the body survives
                    sb = self.merge_conservative(before, sb)
                    for h in s.handlers:
                        hst = before.copy()
                        if h.name:
                            hst.ok[h.name] = UNKNOWN
                        ph, sh = self.block(h.body, z3.And(pc, self.opaque()), hst)
                        outs.append((ph, sh))
                st = sb
                pcs = [pb]
                for ph, sh in outs:
                    st = self.merge_conservative(st, sh)
                    pcs.append(ph)
                pc = z3.Or(*pcs)
                if s.orelse:
                    pc, st = self.block(s.orelse, pc, st)
                if s.finalbody:
                    pc, st = self.block(s.finalbody, pc, st)
                continue
            raise HarnessError(f'{self.fn.name}: statement not supported by the site walker: {ast.unparse(s)[:80]}')
        return pc, st

    @staticmethod
    def _dead(pc):
        s = z3.Solver()
        s.add(pc)
        return str(s.check()) == 'unsat'

    def merge(self, c, pa, sa, pb, sb):
        if self._dead(pa):
            return sb
        if self._dead(pb):
            return sa
        out = State()
        for k in set(sa.ok) | set(sb.ok):
            out.ok[k] = _ite(c, sa.ok.get(k, UNKNOWN), sb.ok.get(k, UNKNOWN))
        for k in set(sa.vexpr) & set(sb.vexpr):
            out.vexpr[k] = z3.If(c, sa.vexpr[k], sb.vexpr[k])
        return out

    @staticmethod
    def merge_conservative(a, b):
        out = State()
        for k in set(a.ok) | set(b.ok):
            out.ok[k] = _and(a.ok.get(k, UNKNOWN), b.ok.get(k, UNKNOWN))
        for k in set(a.vexpr) & set(b.vexpr):
            out.vexpr[k] = z3.And(a.vexpr[k], b.vexpr[k])
        return out

    def walk(self):
        st = State()
        self.block(self.fn.body, z3.BoolVal(True), st)
        return self


def analyse(text):
    """walk every function of the module.  Returns (walkers, store_ok)"""
    tree = ast.parse(text)
    store_ok = {}
    walkers = []
    for n in ast.walk(tree):
        if isinstance(n, (ast.FunctionDef, ast.AsyncFunctionDef)):
            walkers.append(SiteWalker(n, store_ok).walk())
    return walkers, store_ok


def valid(pc, ok, assumptions=(), timeout_ms=20000):
    """'unsat' when pc => ok under the assumptions"""
    s = z3.Solver()
    s.set('timeout', timeout_ms)
    s.add(pc, z3.Not(ok), *assumptions)
    return str(s.check())


def sat(pc):
    s = z3.Solver()
    s.add(pc)
    return str(s.check()) == 'sat'
