"""A small PEG engine standing in for `parsimonious` (absent from the sandbox), used to run the REAL grammar
text `hail.expr.type_parsing.type_grammar_str` and the REAL `TypeConstructor` visitor.

Implements the part of parsimonious' grammar notation that the type grammar uses: rules `name = expr`,
ordered choice `/`, sequences, `? * +`, parentheses, string literals (Python literal syntax, optional r
prefix), regexes `~"..."` with optional flag letters, rule references.  Node shape and visiting follow
parsimonious: every expression yields a node (`expr_name` = rule name or ''), sequences/repetitions hold one
child per element/iteration, a choice holds the one chosen child, an optional holds 0 or 1 children;
`visit` = `getattr(visitor, 'visit_' + node.expr_name, visitor.generic_visit)(node, [visit(c) for c in node])`.
Anything outside that subset raises HarnessError (exit 2)."""
import ast
import re
import types as _types

from vt.common import HarnessError

_TOK = re.compile(r'''
    (?P<ws>\s+|\#[^\n]*)
  | (?P<re>~\s*[rRuUbB]?(?:"(?:[^"\\]|\\.)*"|'(?:[^'\\]|\\.)*')[ilmsuxa]*)
  | (?P<lit>[rRuUbB]?(?:"(?:[^"\\]|\\.)*"|'(?:[^'\\]|\\.)*'))
  | (?P<name>[A-Za-z_][A-Za-z_0-9]*)
  | (?P<op>[=/()?*+&!])
''', re.X | re.S)

_FLAGS = {'i': re.I, 'l': re.L, 'm': re.M, 's': re.S, 'u': re.U, 'x': re.X, 'a': re.A}


class ParseError(Exception):
    pass


class Node:
    __slots__ = ('expr_name', 'full_text', 'start', 'end', 'children')

    def __init__(self, expr_name, full_text, start, end, children=()):
        self.expr_name = expr_name
        self.full_text = full_text
        self.start = start
        self.end = end
        self.children = list(children)

    @property
    def text(self):
        return self.full_text[self.start:self.end]

    def __iter__(self):
        return iter(self.children)


def _tokens(text):
    pos = 0
    out = []
    while pos < len(text):
        m = _TOK.match(text, pos)
        if not m:
            raise HarnessError(f'grammar text not tokenisable at {text[pos:pos + 30]!r}')
        pos = m.end()
        k = m.lastgroup
        if k != 'ws':
            out.append((k, m.group(k)))
    return out


class Grammar:
    def __init__(self, text):
        self.rules = {}
        self.order = []
        toks = _tokens(text)
        # split into rules at NAME '='
        starts = [i for i in range(len(toks) - 1) if toks[i][0] == 'name' and toks[i + 1] == ('op', '=')]
        if not starts or starts[0] != 0:
            raise HarnessError('grammar text does not start with a rule')
        for a, b in zip(starts, starts[1:] + [len(toks)]):
            name = toks[a][1]
            self._t = toks[a + 2:b]
            self._i = 0
            e = self._alt()
            if self._i != len(self._t):
                raise HarnessError(f'grammar rule {name}: trailing tokens {self._t[self._i:]}')
            if e[0] == 'ref':
                raise HarnessError(f'grammar rule {name} is a bare alias (not supported by the stand-in engine)')
            self.rules[name] = e
            self.order.append(name)
        for e in self.rules.values():
            self._check_refs(e)
        self.default = self.order[0]

    # -- notation parser
    def _peek(self):
        return self._t[self._i] if self._i < len(self._t) else (None, None)

    def _alt(self):
        parts = [self._seq()]
        while self._peek() == ('op', '/'):
            self._i += 1
            parts.append(self._seq())
        return parts[0] if len(parts) == 1 else ('alt', parts)

    def _seq(self):
        parts = []
        while True:
            k, v = self._peek()
            if k is None or (k == 'op' and v in '/)'):
                break
            parts.append(self._quant())
        if not parts:
            raise HarnessError('empty sequence in grammar')
        return parts[0] if len(parts) == 1 else ('seq', parts)

    def _quant(self):
        k, v = self._peek()
        if k == 'op' and v in '&!':
            raise HarnessError('lookahead not supported by the stand-in PEG engine')
        a = self._atom()
        k, v = self._peek()
        if k == 'op' and v in '?*+':
            self._i += 1
            return ({'?': 'opt', '*': 'star', '+': 'plus'}[v], a)
        return a

    def _atom(self):
        k, v = self._peek()
        self._i += 1
        if k == 'op' and v == '(':
            e = self._alt()
            if self._peek() != ('op', ')'):
                raise HarnessError('unbalanced parenthesis in grammar')
            self._i += 1
            # parsimonious keeps a parenthesised single term as that term; a choice/sequence stays a node
            return e
        if k == 'lit':
            return ('lit', ast.literal_eval(v))
        if k == 're':
            body = v[1:].lstrip()
            m = re.match(r'''([rRuUbB]?(?:"(?:[^"\\]|\\.)*"|'(?:[^'\\]|\\.)*'))([ilmsuxa]*)$''', body, re.S)
            fl = 0
            for ch in m.group(2):
                fl |= _FLAGS[ch]
            pat = ast.literal_eval(m.group(1))
            return ('re', re.compile(pat, fl), pat, fl)
        if k == 'name':
            return ('ref', v)
        raise HarnessError(f'unexpected token {v!r} in grammar')

    def _check_refs(self, e):
        if e[0] == 'ref' and e[1] not in self.rules:
            raise HarnessError(f'grammar references unknown rule {e[1]}')
        if e[0] in ('alt', 'seq'):
            for c in e[1]:
                self._check_refs(c)
        if e[0] in ('opt', 'star', 'plus'):
            self._check_refs(e[1])

    # -- matching
    def _m(self, e, text, pos, name=''):
        k = e[0]
        if k == 'lit':
            return Node(name, text, pos, pos + len(e[1])) if text.startswith(e[1], pos) else None
        if k == 're':
            m = e[1].match(text, pos)
            return Node(name, text, pos, m.end()) if m else None
        if k == 'ref':
            return self._m(self.rules[e[1]], text, pos, e[1])
        if k == 'seq':
            p = pos
            ch = []
            for c in e[1]:
                n = self._m(c, text, p)
                if n is None:
                    return None
                ch.append(n)
                p = n.end
            return Node(name, text, pos, p, ch)
        if k == 'alt':
            for c in e[1]:
                n = self._m(c, text, pos)
                if n is not None:
                    return Node(name, text, pos, n.end, [n])
            return None
        if k == 'opt':
            n = self._m(e[1], text, pos)
            return Node(name, text, pos, n.end if n else pos, [n] if n else [])
        if k in ('star', 'plus'):
            p = pos
            ch = []
            while True:
                n = self._m(e[1], text, p)
                if n is None or n.end == p:
                    break
                ch.append(n)
                p = n.end
            if k == 'plus' and not ch:
                return None
            return Node(name, text, pos, p, ch)
        raise HarnessError(f'bad grammar node {k}')

    def parse(self, text):
        n = self._m(('ref', self.default), text, 0)
        if n is None:
            raise ParseError(f'no parse for {text!r}')
        if n.end != len(text):
            raise ParseError(f'incomplete parse of {text!r}: stopped at {n.end}')
        return n

    def regex_of(self, rule):
        """(pattern, flags) of a rule that is a single regex."""
        e = self.rules[rule]
        if e[0] != 're':
            raise HarnessError(f'grammar rule {rule} is not a single regex any more')
        return e[2], e[3]


def visit(visitor, node):
    # explicit MRO lookup: the loader's stand-in NodeVisitor base class answers every getattr with a stub
    name = 'visit_' + node.expr_name
    fn = None
    for klass in type(visitor).__mro__:
        if name in vars(klass) and node.expr_name:
            fn = vars(klass)[name]
            break
    if fn is None:
        for klass in type(visitor).__mro__:
            if 'generic_visit' in vars(klass):
                fn = vars(klass)['generic_visit']
                break
    if fn is None:
        raise HarnessError('visitor has no generic_visit')
    return fn(visitor, node, [visit(visitor, c) for c in node])


_installed = None


def install():
    """Import hail through the loader, put the stand-in engine under the real grammar text and the real visitor,
    and register a registry-only backend so ReferenceGenome objects can exist offline.  Returns the modules."""
    global _installed
    if _installed is not None:
        return _installed
    from vt import loader
    loader.install()
    import hail  # noqa: F401
    from hail.backend.backend import Backend
    from hail.expr import type_parsing as tp
    from hail.expr import types as T
    from hail.utils import java as J

    g = Grammar(tp.type_grammar_str)
    tp.type_grammar = g
    T.type_grammar = g
    tp.TypeConstructor.visit = lambda self, node: visit(self, node)

    class RegistryBackend:
        """stub: only the reference registry of hail.backend.Backend (its real add/get methods)"""
        def __init__(self):
            self._references = {}
        add_reference = Backend.add_reference
        get_reference = Backend.get_reference
        remove_reference = Backend.remove_reference

        def _add_reference_to_scala_backend(self, rg):
            pass

        def _remove_reference_from_scala_backend(self, name):
            pass

    if not J.Env._hc:
        J.Env._hc = _types.SimpleNamespace(_backend=RegistryBackend(), _default_ref=None)
    _installed = _types.SimpleNamespace(grammar=g, tp=tp, T=T, J=J)
    return _installed
