"""CrossHair harness for C12: the real InstanceCollectionConfigs.select_inst_coll / PoolConfig and
JobPrivateInstanceManagerConfig.convert_requests_to_resources with the request (cores mcpu, memory bytes,
storage bytes, preemptible, label, worker type / machine type) symbolic, over pool configurations built from
the repository's own tables.  Float idioms in the numeric leaves are cut by vt.floatcut (lemmas there);
`install_cuts()` is called only from the generated condition module, i.e. inside CrossHair worker
processes - the parent process and replay always run the uncut code.

The oracle (`satisfiable`, `sound`) is exact integer arithmetic written from the property statement:
a pool can satisfy a request iff some packable share 250*2^p mcpu (p >= 0) that fits on the worker has
cores >= request and memory share >= request, and the storage does not exceed the cloud's disk limit."""
from vt import floatcut, loader

loader.install()
import batch.cloud.azure.resource_utils as az  # noqa: E402
import batch.cloud.gcp.resource_utils as gcp  # noqa: E402
import batch.cloud.resource_utils as ru  # noqa: E402
import batch.inst_coll_config as icc  # noqa: E402
from batch.driver.billing_manager import ProductVersionInfo  # noqa: E402

MIB = 1024 * 1024
GIB = 1024 ** 3
GCP_TYPES = ('standard', 'highmem', 'highcpu')
AZ_TYPES = ('D', 'E', 'F')


def bytes_per_core(cloud, wt):
    if cloud == 'gcp':
        return int(gcp.gcp_worker_memory_per_core_mib(gcp.GCP_MACHINE_FAMILY, wt) * MIB)
    return int(az.azure_worker_memory_per_core_mib(wt) * MIB)


ALL_BS = tuple([bytes_per_core('gcp', w) for w in GCP_TYPES] + [bytes_per_core('azure', w) for w in AZ_TYPES])
MAX_STORAGE = {'gcp': gcp.GCP_MAX_PERSISTENT_SSD_SIZE_GIB * GIB, 'azure': az.AZURE_MAX_PERSISTENT_SSD_SIZE_GIB * GIB}

CUT_SPECS = [
    ('batch/batch/cloud/gcp/resource_utils.py', 'gcp_adjust_cores_for_memory_request', gcp, ('mdiv', 'imax')),
    ('batch/batch/cloud/gcp/resource_utils.py', 'gcp_cores_mcpu_to_memory_bytes', gcp, ('scale',)),
    ('batch/batch/cloud/azure/resource_utils.py', 'azure_adjust_cores_for_memory_request', az, ('mdiv', 'imax')),
    ('batch/batch/cloud/azure/resource_utils.py', 'azure_cores_mcpu_to_memory_bytes', az, ('scale',)),
    ('batch/batch/cloud/resource_utils.py', 'adjust_cores_for_packability', ru, ('clog2', 'pow2scale', 'imax')),
    ('batch/batch/cloud/resource_utils.py', 'round_storage_bytes_to_gib', ru, ('cdiv',)),
]
UNCUT_SPECS = [  # encoded (checked as they are; integer-only)
    ('batch/batch/inst_coll_config.py', 'PoolConfig.convert_requests_to_resources'),
    ('batch/batch/inst_coll_config.py', 'JobPrivateInstanceManagerConfig.convert_requests_to_resources'),
    ('batch/batch/inst_coll_config.py', 'InstanceCollectionConfigs.select_inst_coll'),
    ('batch/batch/inst_coll_config.py', 'InstanceCollectionConfigs.select_cheapest_price_pool'),
    ('batch/batch/inst_coll_config.py', 'InstanceCollectionConfigs.select_pool_from_worker_type'),
    ('batch/batch/inst_coll_config.py', 'InstanceCollectionConfigs.select_job_private'),
    ('batch/batch/cloud/resource_utils.py', 'requested_storage_bytes_to_actual_storage_gib'),
    ('batch/batch/cloud/gcp/resource_utils.py', 'gcp_requested_to_actual_storage_bytes'),
    ('batch/batch/cloud/azure/resource_utils.py', 'azure_requested_to_actual_storage_bytes'),
]


def limits(quick=False):
    return floatcut.Limits(mdiv_Bs=ALL_BS, scale_Bs=ALL_BS, mdiv_pmax=10, mdiv_m_bits=44,
                           clog2_bits=24 if quick else 28, scale_jmax=21, cdiv_bits=47)


LIMITS = limits()
CUTS = []
INSTALLED = []


def make_cuts(lim=None):
    """Cut every leaf (not installed).  Returns the CutResults; `applied` tells which idioms matched."""
    global LIMITS
    if lim is not None:
        LIMITS = lim
    return [floatcut.cut(rel, q, mod, rules=rules, limits=LIMITS) for rel, q, mod, rules in CUT_SPECS]


PRICES = {}
STUB_PRICES = [False]
_real_price_per_hour = icc.PoolConfig.price_per_hour


def _price_per_hour(self, resource_rates, product_versions, location, cores_mcpu, memory_bytes, storage_gib):
    """Over-approximation used by the selection obligations: the price of a pool is an ARBITRARY symbolic number
    (a harness input per pool) instead of the real rate arithmetic; every real price table is a special case.  The real
    price_per_hour runs in the known-finding obligation (selectK), in replay, and is C13's subject."""
    if STUB_PRICES[0]:
        return PRICES[self.name]
    return _real_price_per_hour(self, resource_rates, product_versions, location, cores_mcpu, memory_bytes, storage_gib)


def install_cuts(quick=False):
    global CUTS
    icc.PoolConfig.price_per_hour = _price_per_hour
    CUTS = make_cuts(limits(quick))
    for c in CUTS:
        INSTALLED.extend(floatcut.install(c))
        for a in c.applied:
            if a['rule'] == 'cdiv':
                LIMITS.cdiv_divisors = [tuple(a['divisors'])]


# ------------------------------------------------------------------------------------------------
# configurations (from the repository's own tables)
# ------------------------------------------------------------------------------------------------
class AnyVersion(dict):
    """ProductVersions data in which every product has version '1' (prices do not matter to the property)."""

    def get(self, product, default=None):
        return ProductVersionInfo('1', None)


class Rates(dict):
    """A positive rate for every resource name (deterministic, differs between resources)."""

    def __getitem__(self, name):
        return (1 + sum(name.encode()) % 97) * 1e-9


def make_pool(name, cloud, worker_type, worker_cores, preemptible, label='', local_ssd=True, ext_gb=100):
    return icc.PoolConfig(
        name=name, cloud=cloud, worker_type=worker_type, worker_cores=worker_cores,
        worker_local_ssd_data_disk=local_ssd, worker_external_ssd_data_disk_size_gb=0 if local_ssd else ext_gb,
        standing_worker_cores=worker_cores, boot_disk_size_gb=10, min_instances=0, max_instances=10,
        max_live_instances=10, preemptible=preemptible, max_new_instances_per_autoscaler_loop=1,
        autoscaler_loop_period_secs=1, worker_max_idle_time_secs=1, standing_worker_max_idle_time_secs=1,
        job_queue_scheduling_window_secs=1, label=label)


def make_jpim(cloud):
    return icc.JobPrivateInstanceManagerConfig(
        name='job-private', cloud=cloud, boot_disk_size_gb=10, max_instances=10, max_live_instances=10,
        max_new_instances_per_autoscaler_loop=1, autoscaler_loop_period_secs=1, worker_max_idle_time_secs=1)


def types(cloud):
    return GCP_TYPES if cloud == 'gcp' else AZ_TYPES


def valid_cores(cloud, wt):
    return list(ru.possible_cores_from_worker_type(cloud, wt))


def pow2_cores(cloud, wt):
    return [c for c in valid_cores(cloud, wt) if c & (c - 1) == 0]


def config(cloud, variant):
    """Pool sets (worker types and core counts from the repository's tables).
    0: the shipped layout - one pool per worker type x preemptibility, 16 cores;
    1: per worker type a small and a large pool (first-fit order small, large; power-of-two core counts), a
       non-preemptible one, a labelled pool and a pool of the other cloud;
    2: large first, external data disk, a labelled non-preemptible pool;
    3: like 1 but the large pools use the largest core count of the table, which is NOT a power of two
       (gcp 96; azure 64 is, so E/20 and F/72 are added) - exercises the known-finding class;
    4, 5: the same worker type twice with 4 and 16 worker cores (small first / large first)."""
    other = 'azure' if cloud == 'gcp' else 'gcp'
    pools = []
    if variant == 0:
        for wt in types(cloud):
            for pre in (True, False):
                pools.append(make_pool(f'{wt}{"" if pre else "-np"}', cloud, wt, 16, pre))
    elif variant == 1:
        for wt in types(cloud):
            vc = pow2_cores(cloud, wt)
            pools.append(make_pool(f'{wt}-small', cloud, wt, vc[0], True))
            pools.append(make_pool(f'{wt}-large', cloud, wt, vc[-1], True))
            pools.append(make_pool(f'{wt}-np', cloud, wt, vc[len(vc) // 2], False))
        pools.append(make_pool('labelled', cloud, types(cloud)[0], 8, True, label='x'))
        pools.append(make_pool('foreign', other, types(other)[0], 16, True))
    elif variant == 2:
        for wt in types(cloud):
            vc = pow2_cores(cloud, wt)
            pools.append(make_pool(f'{wt}-large', cloud, wt, vc[-1], True, local_ssd=False))
            pools.append(make_pool(f'{wt}-small', cloud, wt, vc[0], True, local_ssd=False))
        pools.append(make_pool('labelled-np', cloud, types(cloud)[1], 4, False, label='x'))
    elif variant in (4, 5):
        # the SAME worker type twice with different power-of-two worker_cores (4 and 16), in both iteration orders
        # (4: small first, 5: large first), preemptible and not, plus one pool of a second worker type
        wt0, wt1 = types(cloud)[0], types(cloud)[1]
        order = (4, 16) if variant == 4 else (16, 4)
        for pre in (True, False):
            for c in order:
                # variant 5: the large pool carries a big external data disk, so that with the REAL rate table the small
                # pool is the cheaper one for mid-size jobs (replays use the real price computation)
                big_disk = variant == 5 and c == 16
                pools.append(make_pool(f'{wt0}-{c}{"" if pre else "-np"}', cloud, wt0, c, pre, local_ssd=not big_disk, ext_gb=8192))
        pools.append(make_pool(f'{wt1}-8', cloud, wt1, 8, True))
    else:
        for wt in types(cloud):
            vc = valid_cores(cloud, wt)
            np2 = [c for c in vc if c & (c - 1)]
            pools.append(make_pool(f'{wt}-small', cloud, wt, vc[0], True))
            for c in np2:
                pools.append(make_pool(f'{wt}-{c}', cloud, wt, c, True))
    return icc.InstanceCollectionConfigs({p.name: p for p in pools}, make_jpim(cloud), Rates(), AnyVersion())


def describe(cfg):
    return [(p.name, p.cloud, p.worker_type, p.worker_cores, p.preemptible, p.label) for p in cfg.name_pool_config.values()]


# ------------------------------------------------------------------------------------------------
# oracle
# ------------------------------------------------------------------------------------------------
SHARES = [250 << p for p in range(0, 12)]      # 0.25 .. 512 cores


def satisfiable(cloud, wt, worker_cores, c, m, st):
    """Some packable share that fits on the worker covers the request (exact integers, fork-free)."""
    b = bytes_per_core(cloud, wt)
    ok = False
    for sh in SHARES:
        ok = ok | ((sh <= worker_cores * 1000) & (sh >= c) & (sh * b >= 1000 * m))
    return ok & (st <= MAX_STORAGE[cloud])


def sound(cloud, wt, worker_cores, c, m, st, gc, gm, gs):
    """Granted >= requested, and the grant fits on one worker."""
    b = bytes_per_core(cloud, wt)
    return ((gc >= c) & (gm >= m) & (gs * GIB >= st) & (gc <= worker_cores * 1000) & (gm <= worker_cores * b)
            & (gc >= 1) & (gm >= 0) & (gs >= 0) & (gs * GIB <= MAX_STORAGE[cloud]))


def share(ck):
    """250 * 2^ck mcpu for a (symbolic) exponent, branch-free: the cpu requests the front end accepts."""
    c = 0
    for j in range(0, 13):
        c = c + (ck == j) * (250 << j)
    return c


def set_slack(cloud, slacks):
    floatcut.NONDET.clear()
    for wt, s in zip(types(cloud), slacks):
        floatcut.NONDET[bytes_per_core(cloud, wt)] = s


def pool_ok(cloud, wt, worker_cores, c, m, st, slacks=(0, 0, 0)):
    """Family A: one pool, symbolic worker cores."""
    set_slack(cloud, slacks)
    pool = make_pool('p', cloud, wt, worker_cores, True)
    res = pool.convert_requests_to_resources(c, m, st)
    if res is None:
        return not satisfiable(cloud, wt, worker_cores, c, m, st)
    gc, gm, gs = res
    return sound(cloud, wt, worker_cores, c, m, st, gc, gm, gs) & satisfiable(cloud, wt, worker_cores, c, m, st)


def pool_accepts(cloud, wt, worker_cores, c, m, st, slacks=(0, 0, 0)):
    set_slack(cloud, slacks)
    return make_pool('p', cloud, wt, worker_cores, True).convert_requests_to_resources(c, m, st) is not None


LABELS = ('', 'x', 'nolabel')


def known_nonpow2(cfg, cloud, c, m, st, preemptible, label, wt):
    """Predicate of the known-finding class 'nonpow2-worker-cores-crash-price-selection': the request names no worker
    type (price path) and some pool matching cloud/preemptible/label whose worker_cores is not a power of two can
    satisfy (= accepts, by the pool obligations) the request."""
    hit = False
    if wt is None:
        for p in cfg.name_pool_config.values():
            if (p.cloud == cloud and p.preemptible == preemptible and p.label == label
                    and p.worker_cores & (p.worker_cores - 1) != 0):
                hit = hit | satisfiable(cloud, p.worker_type, p.worker_cores, c, m, st)
    return hit


def select_ok(cloud, variant, c, m, st, preemptible, label_i, wt_i, slacks=(0, 0, 0), exclude_known=False, prices=None):
    """Family B (pools): select_inst_coll over a multi-pool configuration; wt_i = 0 means "no worker type".
    prices: symbolic price per pool (in configuration order) => the price stub is used; None => real prices."""
    set_slack(cloud, slacks)
    cfg = config(cloud, variant)
    STUB_PRICES[0] = prices is not None
    if prices is not None:
        PRICES.clear()
        for p, pr in zip(cfg.name_pool_config.values(), prices):
            PRICES[p.name] = pr
    label = LABELS[label_i]
    wt = None if wt_i == 0 else types(cloud)[wt_i - 1]
    if exclude_known and known_nonpow2(cfg, cloud, c, m, st, preemptible, label, wt):
        return True
    result, exc = cfg.select_inst_coll(cloud, None, label, preemptible, wt, c, m, st)
    if exc is not None:
        return False
    matching = [p for p in cfg.name_pool_config.values()
                if p.cloud == cloud and p.preemptible == preemptible and p.label == label
                and (wt is None or p.worker_type == wt)]
    if result is None:
        ok = True
        for p in matching:
            ok = ok & (not satisfiable(cloud, p.worker_type, p.worker_cores, c, m, st))
        return ok
    name, gc, gm, gs = result
    chosen = [p for p in matching if p.name == name]
    if len(chosen) != 1:
        return False
    p = chosen[0]
    return sound(cloud, p.worker_type, p.worker_cores, c, m, st, gc, gm, gs)


def select_result(cloud, variant, c, m, st, preemptible, label_i, wt_i, slacks=(0, 0, 0)):
    set_slack(cloud, slacks)
    cfg = config(cloud, variant)
    wt = None if wt_i == 0 else types(cloud)[wt_i - 1]
    return cfg.select_inst_coll(cloud, None, LABELS[label_i], preemptible, wt, c, m, st)[0]


def machine_types(cloud):
    return list(ru.valid_machine_types(cloud))


def private_ok(cloud, req_cloud_same, mt_i, st):
    """Family B (job-private): a named machine type.  Rejected only for the wrong cloud or storage above the limit."""
    cfg = config(cloud, 0)
    mts = machine_types(cloud)
    mt = mts[mt_i]
    req_cloud = cloud if req_cloud_same else ('azure' if cloud == 'gcp' else 'gcp')
    if not req_cloud_same:
        # the front end only passes machine types valid for the requested cloud; a jpim of another cloud never matches
        cfg.jpim_config.cloud = req_cloud + '-other'
    result, exc = cfg.select_inst_coll(cloud, mt, '', True, None, None, None, st)
    if exc is not None:
        return False
    if not req_cloud_same:
        return result is None
    if result is None:
        return st > MAX_STORAGE[cloud]
    name, gc, gm, gs = result
    cores, mem = ru.machine_type_to_cores_and_memory_bytes(cloud, mt)
    return ((name == 'job-private') & (gc == cores * 1000) & (gm == mem) & (gs * GIB >= st) & (gs >= 10)
            & (st <= MAX_STORAGE[cloud]))
