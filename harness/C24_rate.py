"""C24 scenario: the real hailtop.utils.rate_limiter.RateLimiter entered concurrently (`async with limiter:`)
by up to k tasks on a real asyncio loop under a director-controlled integer clock.

Stubs (installed in the loaded module's own namespace only; the class text is the repository's):
  time.time()       -> the director's clock `now` (a sum of symbolic non-negative integers)
  asyncio.sleep(d)  -> registers a sleeper with deadline now+d on a virtual timer list and suspends; the director
                       wakes every due sleeper (deadline <= now, in deadline order) whenever it advances the clock.
                       Because the advance is a symbolic amount, a sleeper is woken exactly at its deadline on some
                       paths and arbitrarily late on others (the "sleep lasts >= d" contract of asyncio.sleep).
Schedule (all CrossHair-symbolic): count (1..3), window W (1..WMAX); per step s: dt_s >= 0 (advance the clock
by dt_s), an action, order_s (when the action and a wake-up of due sleepers coincide: does the action come before or
after the wake-up).  Step 0 always has an arrival - idle steps before the first arrival only shift the clock, and dt_0
is symbolic.  Two families:
  bodies end at once   action = enter_s: a new entry task arrives at this instant, or nothing
  held bodies          an admitted entry stays in its `async with` body until the director lets it go; action a_s:
                       0 nothing, 1 arrival, 2+2i entry i leaves its body (normally, or by raising BodyError when r_i;
                       on an entry that is still waiting: it will leave as soon as it is admitted), 3+2i
                       Task.cancel() of entry i - inside its body, sleeping in __aenter__, woken but not resumed
                       (cancel after the wake-up of the same step) or not run yet (g_s false: the arrival of step s is
                       not run before step s+1)
The loop is drained to quiescence after every step (time only moves between steps), except after an arrival with
g_s false.
Oracle, independent of the class's internals (only admission instants and sleep requests are observed; an admission is
the instant __aenter__ returned, whatever happens to the entry later - leaving, raising, cancellation):
  rate     for the sorted admission instants t_0 <= t_1 <= ...: t_{i+count} - t_i >= W for every i, i.e. no
           half-open window of length W contains more than `count` admissions
  asap     a task asks to sleep only when the window has no room at that instant (so an entry that finds room is
           admitted at that very instant), the requested sleep is positive and never reaches past the first
           instant at which room can exist (count-th latest admission + W)
  live     once the schedule is over and the clock is advanced from deadline to deadline every entry that was never
           cancelled is admitted - with every admitted entry still inside its body; entries cancelled before they
           were admitted are not admissions and need not be admitted
"""
import asyncio

from vt import sched

SRC = 'hail/python/hailtop/utils/rate_limiter.py'
rl_mod = sched.load_file('c24_rate_limiter_real', SRC)
WMAX = 8
DTMAX = 10


class Bad(Exception):
    pass


class Clock:
    def __init__(self, count, window):
        self.now = 0
        self.count = count
        self.window = window
        self.adm = []          # admission instants, in admission order (non-decreasing: the clock is monotone)
        self.sleepers = []     # [deadline, seq, future]
        self.seq = 0
        self.bad = None
        self.slept = 0
        self.checked = 0

    # ---- stubs -------------------------------------------------------------------------------
    def time(self):
        return self.now

    async def sleep(self, d):
        self.slept += 1
        n = len(self.adm)
        # adm is non-decreasing, so "the window (now-W, now] holds >= count admissions" <=> the count-th latest is in it
        if n < self.count or not self.adm[n - self.count] > self.now - self.window:
            self.bad = 'asap: an entry went to sleep although the window had room at that instant'
        elif not d > 0:
            self.bad = 'asap: non-positive sleep requested while the window is full (busy loop)'
        elif not self.now + d <= self.adm[n - self.count] + self.window:
            self.bad = 'asap: requested sleep reaches past the first instant at which the window has room'
        if self.bad:
            raise Bad(self.bad)
        fut = asyncio.get_running_loop().create_future()
        self.seq += 1
        self.sleepers.append([self.now + d, self.seq, fut])
        await fut

    # ---- director side -----------------------------------------------------------------------
    def purge(self):
        """drop the timers of sleepers that were cancelled (what Task.cancel() does to asyncio.sleep's timer)"""
        self.sleepers = [s for s in self.sleepers if not s[2].done()]

    def has_due(self):
        for sl in self.sleepers:
            if sl[0] <= self.now:
                return True
        return False

    def wake_due(self):
        due = [s for s in self.sleepers if s[0] <= self.now]
        self.sleepers = [s for s in self.sleepers if not s[0] <= self.now]
        # deadline order, then registration order (what a timer heap does)
        for i in range(len(due)):
            for j in range(i + 1, len(due)):
                if due[j][0] < due[i][0]:
                    due[i], due[j] = due[j], due[i]
        for _dl, _seq, fut in due:
            if not fut.done():
                fut.set_result(None)

    def check_rate(self):
        """Each pair (t_i, t_{i+count}) is compared once, when t_{i+count} appears."""
        c = self.count
        while self.checked + c < len(self.adm):
            i = self.checked
            self.checked += 1
            if not self.adm[i + c] - self.adm[i] >= self.window:
                raise Bad('rate: more than count admissions inside one half-open window of the configured length')


class _AsyncioShim:
    """asyncio as the module under test sees it: sleep is the virtual timer; names that read or depend on the event
    loop's own clock are refused (AttributeError: the source changed, the run is inconclusive); everything else
    (CancelledError, Event, Lock, ...) is the real asyncio."""
    _CLOCKED = ('wait_for', 'timeout', 'timeout_at', 'wait', 'get_event_loop', 'get_running_loop', 'new_event_loop',
                'sleep_until', 'run')

    def __init__(self, clock):
        self.sleep = clock.sleep

    def __getattr__(self, name):
        if name in self._CLOCKED or name.startswith('_'):
            raise AttributeError(name)
        return getattr(asyncio, name)


class _TimeShim:
    def __init__(self, clock):
        self.time = clock.time


class BodyError(Exception):
    pass


async def scenario(count, window, dts, acts, orders, drains=None, raises=None, hold=False, trace=None, stats=None):
    """acts[s]: 0 nothing, 1 a new entry arrives, 2+2i let entry i leave its body (normally, or by raising when raises[i]),
    3+2i cancel entry task i.  hold=False: bodies end at once (every gate is open from the start) and only 0/1 are used."""
    stats = {} if stats is None else stats
    stats.update({'complete': False, 'slept': 0, 'admitted': 0, 'cancels': 0, 'leaves': 0})
    k = len(dts)
    clock = Clock(count, window)
    rl_mod.time = _TimeShim(clock)
    rl_mod.asyncio = _AsyncioShim(clock)
    limiter = rl_mod.RateLimiter(rl_mod.RateLimit(count, window))
    tasks = []
    gates = [asyncio.Event() for _ in range(k)]
    admitted = [False] * k
    started = [False] * k
    told = [False] * k         # the director opened entry i's gate
    cancelled = [False] * k    # the director cancelled entry task i
    closing = [False]
    if not hold:
        for g in gates:
            g.set()

    async def entry(i):
        started[i] = True
        try:
            async with limiter:
                # the admission instant: __aenter__ has returned, whatever happens to this entry afterwards
                clock.adm.append(clock.now)
                admitted[i] = True
                await gates[i].wait()
                if hold and not closing[0] and raises[i]:
                    raise BodyError()
        except BodyError:
            pass

    def collect():
        for t in tasks:
            if t.done() and not t.cancelled() and t.exception() is not None:
                e = t.exception()
                if isinstance(e, Bad):
                    raise Bad(str(e))
                raise e
        if clock.bad:
            raise Bad(clock.bad)
        clock.check_rate()

    def act(a):
        if a == 1:
            tasks.append(asyncio.ensure_future(entry(len(tasks))))
            return 'arrive'
        i = (a - 2) // 2
        if i >= len(tasks):
            raise sched.Prune()
        if (a - 2) % 2 == 0:
            # open the gate: an entry inside its body leaves now, one still waiting leaves as soon as it is admitted
            if told[i] or cancelled[i] or tasks[i].done():
                raise sched.Prune()
            told[i] = True
            gates[i].set()
            stats['leaves'] += 1
            return f'leave{i}'
        if cancelled[i] or tasks[i].done():
            raise sched.Prune()
        cancelled[i] = True
        stats['cancels'] += 1
        what = f'cancel{i}:' + ('in-body' if admitted[i] else 'waiting' if started[i] else 'not-run-yet')
        tasks[i].cancel()
        return what

    try:
        for s in range(k):
            clock.now = clock.now + dts[s]
            clock.purge()
            due = clock.has_due()
            a = sched.concretize(acts[s], 0, 1 + 2 * s) if hold else (1 if acts[s] else 0)
            first = False
            what = ''
            if a:
                # the order bit is only looked at when it matters (an action and a wake-up at the same instant)
                first = due and bool(orders[s])
                if first:
                    what = act(a) + '(first)'
            if due:
                clock.wake_due()
            if a and not first:
                what = act(a)
            # an arrival may be left un-run until the next step (it then first runs at the next step's instant, or is
            # cancelled before it ever ran); every other step is drained to quiescence
            lazy = hold and a == 1 and s + 1 < k and not drains[s]
            if not lazy:
                await sched.settle()
            if trace is not None:
                trace.append((int(clock.now), what + ('(not run yet)' if lazy else ''), [int(x) for x in clock.adm],
                              [int(x[0]) for x in clock.sleepers if not x[2].done()]))
            if not lazy:
                collect()
        stats['complete'] = True
        await sched.settle()
        collect()
        # live: no more arrivals, nobody leaves a body, the clock goes from deadline to deadline
        for _ in range(2 * len(tasks) + 2):
            clock.purge()
            if not clock.sleepers:
                break
            nxt = clock.sleepers[0][0]
            for sl in clock.sleepers:
                if sl[0] < nxt:
                    nxt = sl[0]
            if nxt > clock.now:
                clock.now = nxt
            clock.wake_due()
            await sched.settle()
            collect()
            if trace is not None:
                trace.append((int(clock.now), 'final', [int(x) for x in clock.adm], [int(x[0]) for x in clock.sleepers if not x[2].done()]))
        nadm = 0
        for i in range(len(tasks)):
            if admitted[i]:
                nadm += 1
            elif not cancelled[i]:
                raise Bad('live: an entry is still not admitted after the clock passed every deadline')
        if len(clock.adm) != nadm:
            raise Bad('live: number of admissions differs from number of admitted entries')
        clock.check_rate()
        closing[0] = True
        for g in gates:
            g.set()
        await sched.settle()
        collect()
        for t in tasks:
            if not t.done():
                raise Bad('live: an entry never finished although it was admitted and its body ended')
        stats['slept'] = clock.slept
        stats['admitted'] = len(clock.adm)
        return stats
    finally:
        stats['slept'] = clock.slept
        await sched.cleanup(tasks)


def split(k, args):
    """positional layout (bodies end at once): count, window, dt0..dt_{k-1}, enter1..enter_{k-1}, order1..order_{k-1}"""
    return (args[0], args[1], list(args[2:2 + k]), [True] + list(args[2 + k:1 + 2 * k]),
            [False] + list(args[1 + 2 * k:3 * k]))


def split_h(k, args):
    """positional layout (held bodies): count, window, dt0..dt_{k-1}, a1..a_{k-1}, o1..o_{k-1}, g0..g_{k-2}, r0..r_{k-2}"""
    return (args[0], args[1], list(args[2:2 + k]), [1] + list(args[2 + k:1 + 2 * k]),
            [False] + list(args[1 + 2 * k:3 * k]), list(args[3 * k:4 * k - 1]) + [True],
            list(args[4 * k - 1:5 * k - 2]) + [False])


def _mk(k, hold=False):
    def run(args, trace=None, st=None, runner=None):
        runner = runner or sched.run_det
        if hold:
            count, window, dts, acts, orders, drains, raises = split_h(k, args)
            return runner(scenario(count, window, dts, acts, orders, drains, raises, True, trace, st))
        count, window, dts, enters, orders = split(k, args)
        return runner(scenario(count, window, dts, enters, orders, None, None, False, trace, st))

    def check(*args):
        try:
            run(args)
        except sched.Prune:
            return True
        except Bad:
            return False
        except AssertionError:
            return False
        return True

    def reach(*args):
        """Twin: False iff a well-formed schedule ran to the end and some entry really had to sleep (held bodies: or
        some entry task was cancelled)."""
        st = {}
        try:
            run(args, None, st)
        except sched.Prune:
            return True
        except Bad:
            pass
        except AssertionError:
            pass
        return not (st.get('complete') and (st.get('slept', 0) > 0 or st.get('cancels', 0) > 0))

    return check, reach, run


check_3, reach_3, _run_3 = _mk(3)
check_4, reach_4, _run_4 = _mk(4)
check_5, reach_5, _run_5 = _mk(5)
check_6, reach_6, _run_6 = _mk(6)
check_7, reach_7, _run_7 = _mk(7)
check_h3, reach_h3, _run_h3 = _mk(3, True)
check_h4, reach_h4, _run_h4 = _mk(4, True)
check_h5, reach_h5, _run_h5 = _mk(5, True)
check_h6, reach_h6, _run_h6 = _mk(6, True)


def positional(args, meta):
    k = meta['k']
    pos = ([args['count'], args['window']] + [args[f'dt{i}'] for i in range(k)]
           + [args[f'{"a" if meta.get("hold") else "e"}{i}'] for i in range(1, k)] + [args[f'o{i}'] for i in range(1, k)])
    if meta.get('hold'):
        pos += [args[f'g{i}'] for i in range(k - 1)] + [args[f'r{i}'] for i in range(k - 1)]
    return pos


def replay(args, meta):
    """Plain asyncio (stock loop), no CrossHair.  -> (ok, class, why)"""
    k = meta['k']
    run = globals()[f'_run_{"h" if meta.get("hold") else ""}{k}']
    trace = []
    try:
        run(positional(args, meta), trace, None, sched.run_plain)
    except sched.Prune:
        return True, None, 'schedule not well-formed'
    except Bad as e:
        why = str(e)
        return False, 'rate-limiter-' + why.split(':')[0], f'{why}; trace(now, action, admitted, sleeper deadlines)={trace}'
    except AssertionError as e:
        return False, 'rate-limiter-livelock', f'{e}; trace={trace}'
    return True, None, 'held'


sched.freeze()
