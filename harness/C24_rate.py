"""C24 scenario: the real hailtop.utils.rate_limiter.RateLimiter entered concurrently (`async with limiter:`)
by up to k tasks on a real asyncio loop under a director-controlled integer clock.

Stubs (installed in the loaded module's own namespace only; the class text is the repository's):
  time.time()       -> the director's clock `now` (a sum of symbolic non-negative integers)
  asyncio.sleep(d)  -> registers a sleeper with deadline now+d on a virtual timer list and suspends; the director
                       wakes every due sleeper (deadline <= now, in deadline order) whenever it advances the clock.
                       Because the advance is a symbolic amount, a sleeper is woken exactly at its deadline on some
                       paths and arbitrarily late on others (the "sleep lasts >= d" contract of asyncio.sleep).
Schedule (all CrossHair-symbolic): count (1..2), window W (1..WMAX); per step s: dt_s >= 0 (advance the clock
by dt_s), enter_s (a new entry task arrives at this instant; step 0 always has an arrival - idle steps before
the first arrival only shift the clock, and dt_0 is symbolic), order_s (when an arrival and a wake-up of due
sleepers coincide: does the new arrival run before or after the woken sleepers).  The loop is drained to
quiescence after every step (time only moves between steps).
Oracle, independent of the class's internals (only admission instants and sleep requests are observed):
  rate     for the sorted admission instants t_0 <= t_1 <= ...: t_{i+count} - t_i >= W for every i, i.e. no
           half-open window of length W contains more than `count` admissions
  asap     a task asks to sleep only when the window has no room at that instant (so an entry that finds room is
           admitted at that very instant), the requested sleep is positive and never reaches past the first
           instant at which room can exist (count-th latest admission + W)
  live     once arrivals stop and the clock is advanced from deadline to deadline every entry is admitted
"""
import asyncio

from vt import sched

SRC = 'hail/python/hailtop/utils/rate_limiter.py'
rl_mod = sched.load_file('c24_rate_limiter_real', SRC)
WMAX = 8
DTMAX = 10


class Bad(Exception):
    pass


class Clock:
    def __init__(self, count, window):
        self.now = 0
        self.count = count
        self.window = window
        self.adm = []          # admission instants, in admission order (non-decreasing: the clock is monotone)
        self.sleepers = []     # [deadline, seq, future]
        self.seq = 0
        self.bad = None
        self.slept = 0
        self.checked = 0

    # ---- stubs -------------------------------------------------------------------------------
    def time(self):
        return self.now

    async def sleep(self, d):
        self.slept += 1
        n = len(self.adm)
        # adm is non-decreasing, so "the window (now-W, now] holds >= count admissions" <=> the count-th latest is in it
        if n < self.count or not self.adm[n - self.count] > self.now - self.window:
            self.bad = 'asap: an entry went to sleep although the window had room at that instant'
        elif not d > 0:
            self.bad = 'asap: non-positive sleep requested while the window is full (busy loop)'
        elif not self.now + d <= self.adm[n - self.count] + self.window:
            self.bad = 'asap: requested sleep reaches past the first instant at which the window has room'
        if self.bad:
            raise Bad(self.bad)
        fut = asyncio.get_running_loop().create_future()
        self.seq += 1
        self.sleepers.append([self.now + d, self.seq, fut])
        await fut

    # ---- director side -----------------------------------------------------------------------
    def has_due(self):
        for sl in self.sleepers:
            if sl[0] <= self.now:
                return True
        return False

    def wake_due(self):
        due = [s for s in self.sleepers if s[0] <= self.now]
        self.sleepers = [s for s in self.sleepers if not s[0] <= self.now]
        # deadline order, then registration order (what a timer heap does)
        for i in range(len(due)):
            for j in range(i + 1, len(due)):
                if due[j][0] < due[i][0]:
                    due[i], due[j] = due[j], due[i]
        for _dl, _seq, fut in due:
            if not fut.done():
                fut.set_result(None)

    def check_rate(self):
        """Each pair (t_i, t_{i+count}) is compared once, when t_{i+count} appears."""
        c = self.count
        while self.checked + c < len(self.adm):
            i = self.checked
            self.checked += 1
            if not self.adm[i + c] - self.adm[i] >= self.window:
                raise Bad('rate: more than count admissions inside one half-open window of the configured length')


class _AsyncioShim:
    """Only what RateLimiter uses; anything else is an AttributeError (the source changed: inconclusive)."""

    def __init__(self, clock):
        self.sleep = clock.sleep


class _TimeShim:
    def __init__(self, clock):
        self.time = clock.time


async def scenario(count, window, dts, enters, orders, trace=None, stats=None):
    stats = {} if stats is None else stats
    stats.update({'complete': False, 'slept': 0, 'admitted': 0})
    clock = Clock(count, window)
    rl_mod.time = _TimeShim(clock)
    rl_mod.asyncio = _AsyncioShim(clock)
    limiter = rl_mod.RateLimiter(rl_mod.RateLimit(count, window))
    tasks = []

    async def entry():
        async with limiter:
            clock.adm.append(clock.now)

    def collect():
        for t in tasks:
            if t.done() and not t.cancelled() and t.exception() is not None:
                e = t.exception()
                if isinstance(e, Bad):
                    raise Bad(str(e))
                raise e
        if clock.bad:
            raise Bad(clock.bad)
        clock.check_rate()

    try:
        for s in range(len(dts)):
            clock.now = clock.now + dts[s]
            due = clock.has_due()
            first = False
            if enters[s]:
                # the order bit is only looked at when it matters (an arrival and a wake-up at the same instant)
                first = due and bool(orders[s])
                if first:
                    tasks.append(asyncio.ensure_future(entry()))
            if due:
                clock.wake_due()
            if enters[s] and not first:
                tasks.append(asyncio.ensure_future(entry()))
            await sched.settle()
            collect()
            if trace is not None:
                trace.append((int(clock.now), bool(enters[s]), 'arrival-first' if first else '', [int(a) for a in clock.adm],
                              [int(x[0]) for x in clock.sleepers]))
        stats['complete'] = True
        await sched.settle()
        collect()
        for _ in range(2 * len(tasks) + 2):
            if not clock.sleepers:
                break
            nxt = clock.sleepers[0][0]
            for sl in clock.sleepers:
                if sl[0] < nxt:
                    nxt = sl[0]
            if nxt > clock.now:
                clock.now = nxt
            clock.wake_due()
            await sched.settle()
            collect()
            if trace is not None:
                trace.append((int(clock.now), 'final', True, [int(a) for a in clock.adm], [int(x[0]) for x in clock.sleepers]))
        for t in tasks:
            if not t.done():
                raise Bad('live: an entry is still not admitted after the clock passed every deadline')
        if len(clock.adm) != len(tasks):
            raise Bad('live: number of admissions differs from number of entries')
        clock.check_rate()
        stats['slept'] = clock.slept
        stats['admitted'] = len(clock.adm)
        return stats
    finally:
        stats['slept'] = clock.slept
        await sched.cleanup(tasks)


def split(k, args):
    """positional layout: count, window, dt0..dt_{k-1}, enter1..enter_{k-1}, order1..order_{k-1}"""
    return (args[0], args[1], list(args[2:2 + k]), [True] + list(args[2 + k:1 + 2 * k]),
            [False] + list(args[1 + 2 * k:3 * k]))


def _mk(k):
    def check(*args):
        count, window, dts, enters, orders = split(k, args)
        try:
            sched.run_det(scenario(count, window, dts, enters, orders))
        except Bad:
            return False
        except AssertionError:
            return False
        return True

    def reach(*args):
        """Twin: False iff the schedule ran to the end and some entry really had to sleep."""
        count, window, dts, enters, orders = split(k, args)
        st = {}
        try:
            sched.run_det(scenario(count, window, dts, enters, orders, None, st))
        except Bad:
            pass
        except AssertionError:
            pass
        return not (st.get('complete') and st.get('slept', 0) > 0)

    return check, reach


check_3, reach_3 = _mk(3)
check_4, reach_4 = _mk(4)
check_5, reach_5 = _mk(5)
check_6, reach_6 = _mk(6)
check_7, reach_7 = _mk(7)


def replay(args, meta):
    """Plain asyncio (stock loop), no CrossHair.  -> (ok, class, why)"""
    k = meta['k']
    pos = ([args['count'], args['window']] + [args[f'dt{i}'] for i in range(k)] + [args[f'e{i}'] for i in range(1, k)]
           + [args[f'o{i}'] for i in range(1, k)])
    count, window, dts, enters, orders = split(k, pos)
    trace = []
    try:
        sched.run_plain(scenario(count, window, dts, enters, orders, trace))
    except Bad as e:
        why = str(e)
        return False, 'rate-limiter-' + why.split(':')[0], f'{why}; trace(now, arrival, order, admitted, sleeper deadlines)={trace}'
    except AssertionError as e:
        return False, 'rate-limiter-livelock', f'{e}; trace={trace}'
    return True, None, 'held'


sched.freeze()
