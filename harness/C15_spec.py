"""CrossHair harness for C15 (spec part): the real BatchFormatVersion.db_spec / get_spec_* on a job spec assembled
from symbolic atoms.  Shape selectors (how many secrets, which optional keys are absent / None / empty / present)
and the format version are symbolic integers, so CrossHair's path exploration walks every shape combination;
field contents are symbolic integers standing for the (uninterpreted) strings the code only moves around, the
machine type is one of two fixed non-empty strings, preemptible a symbolic bool, storage_gib a symbolic int.

Equality is modulo the normal forms the readers use (the property's "yields back the same"):
  secrets          absent == None == []  ;  a secret's missing mount_in_copy == False
  service account  absent == None
  input/output     flag = list present and non-empty
  machine spec     (format >= 5) None when machine_type is absent/None, else {machine_type, bool(preemptible), storage_gib};
                   formats < 5 predate machine types: nothing is claimed about a machine_type in such a spec."""
from vt import loader

loader.install()
from batch.batch_format_version import BatchFormatVersion  # noqa: E402
from batch.globals import BATCH_FORMAT_VERSION  # noqa: E402

SRC = 'batch/batch/batch_format_version.py'
MACHINE_TYPES = ('n1-standard-4', 'Standard_D2ds_v4')


def build(sec_mode, a, mic0, mic1, sa_mode, in_mode, out_mode, mt_mode, preemptible, storage):
    """a = 8 atoms (ns0, name0, path0, ns1, name1, path1, sa_ns, sa_name)."""
    spec = {'process': {'type': 'docker'}, 'job_id': 1}
    expected_secrets = []

    def secret(ns, name, path, mic):
        s = {'namespace': ns, 'name': name, 'mount_path': path}
        e = {'namespace': ns, 'name': name, 'mount_path': path, 'mount_in_copy': False}
        if mic == 1:
            s['mount_in_copy'] = False
        elif mic == 2:
            s['mount_in_copy'] = True
            e['mount_in_copy'] = True
        return s, e

    if sec_mode == 1:
        spec['secrets'] = None
    elif sec_mode == 2:
        spec['secrets'] = []
    elif sec_mode >= 3:
        s0, e0 = secret(a[0], a[1], a[2], mic0)
        spec['secrets'] = [s0]
        expected_secrets = [e0]
        if sec_mode == 4:
            s1, e1 = secret(a[3], a[4], a[5], mic1)
            spec['secrets'].append(s1)
            expected_secrets.append(e1)
    expected_sa = None
    if sa_mode == 1:
        spec['service_account'] = None
    elif sa_mode == 2:
        spec['service_account'] = {'namespace': a[6], 'name': a[7]}
        expected_sa = {'namespace': a[6], 'name': a[7]}
    if in_mode == 1:
        spec['input_files'] = []
    elif in_mode == 2:
        spec['input_files'] = [['gs://a/b', '/io/b']]
    if out_mode == 1:
        spec['output_files'] = []
    elif out_mode == 2:
        spec['output_files'] = [['/io/c', 'gs://a/c']]
    resources = {'cores_mcpu': 1000, 'memory_bytes': 1 << 30, 'storage_gib': storage, 'preemptible': preemptible}
    expected_machine = None
    if mt_mode == 1:
        resources['machine_type'] = None
    elif mt_mode >= 2:
        resources['machine_type'] = MACHINE_TYPES[mt_mode - 2]
        expected_machine = {'machine_type': MACHINE_TYPES[mt_mode - 2], 'preemptible': preemptible, 'storage_gib': storage}
    spec['resources'] = resources
    return spec, expected_secrets, expected_sa, in_mode == 2, out_mode == 2, expected_machine


def norm_secrets(x):
    if not x:
        return []
    return [{'namespace': s['namespace'], 'name': s['name'], 'mount_path': s['mount_path'],
             'mount_in_copy': s.get('mount_in_copy', False)} for s in x]


def same_secrets(got, exp):
    got = norm_secrets(got)
    if len(got) != len(exp):
        return False
    ok = True
    for g, e in zip(got, exp):
        ok = ok & (g['namespace'] == e['namespace']) & (g['name'] == e['name']) & (g['mount_path'] == e['mount_path'])
        ok = ok & (g['mount_in_copy'] == e['mount_in_copy']) & isinstance(g['mount_in_copy'], bool)
    return ok


def roundtrip_ok(version, sec_mode, a, mic0, mic1, sa_mode, in_mode, out_mode, mt_mode, preemptible, storage):
    spec, e_sec, e_sa, e_in, e_out, e_mach = build(sec_mode, a, mic0, mic1, sa_mode, in_mode, out_mode, mt_mode,
                                                   preemptible, storage)
    fv = BatchFormatVersion(version)
    db = fv.db_spec(spec)
    ok = same_secrets(fv.get_spec_secrets(db), e_sec)
    sa = fv.get_spec_service_account(db)
    if e_sa is None:
        ok = ok & (not sa)
    else:
        ok = ok & (sa is not None) & (len(sa) == 2) & (sa['namespace'] == e_sa['namespace']) & (sa['name'] == e_sa['name'])
    hi = fv.get_spec_has_input_files(db)
    ho = fv.get_spec_has_output_files(db)
    ok = ok & (hi == e_in) & (ho == e_out) & isinstance(hi, bool) & isinstance(ho, bool)
    ms = fv.get_spec_machine_spec(db)
    if version >= 5:
        if e_mach is None:
            ok = ok & (ms is None)
        else:
            ok = (ok & (ms is not None) & (ms['machine_type'] == e_mach['machine_type'])
                  & (ms['preemptible'] == e_mach['preemptible']) & isinstance(ms['preemptible'], bool)
                  & (ms['storage_gib'] == e_mach['storage_gib']))
    elif e_mach is None:
        ok = ok & (ms is None)
    if version > 1:
        # the compact form is a JSON-able list of None / ints / the moved atoms (no bools: the code converts with int())
        ok = ok & isinstance(db, list) & (len(db) == (5 if version >= 5 else 4))
    return ok
