"""C31 name-level models.

* `esc_model(c)`: the documented `unicode_escape` codec followed by escape_parsable's backtick replace, per
  code point; validated every run against the REAL escape_parsable on all 0x110000 code points.
* `tok_lang()`: a regular language containing every per-character escape (class shapes).
* `dtok_lang()`: the token shapes for which the documented `unicode_escape` DEcoder's first token is
  self-delimiting (its length is fixed by its first two characters).
* `py_decode_model(x)`: left-to-right tokenizer model of the decoder (validated against the real codec).
"""
import re

from vt import strlang
from vt.common import HarnessError
from vt.strlang_ext import ALL, EPS, Rx, alt, cat, compl, cset, inter, lit, loop, nset, rng, star

HEXL = cset([rng('0', '9'), rng('a', 'f')])
BS = '\\'
BT = '`'


def esc_model(c):
    """escape body of one code point as escape_parsable emits it inside backticks"""
    if c == 0x5c:
        return BS + BS
    if c == 0x60:
        return BS + BT
    if c == 9:
        return BS + 't'
    if c == 10:
        return BS + 'n'
    if c == 13:
        return BS + 'r'
    if 0x20 <= c < 0x7f:
        return chr(c)
    if c < 0x100:
        return BS + 'x%02x' % c
    if c < 0x10000:
        return BS + 'u%04x' % c
    return BS + 'U%08x' % c


def printable_plain():
    return Rx('set', tuple(strlang.rs_norm([(0x20, 0x5b), (0x5d, 0x5f), (0x61, 0x7e)])))


def tok_nobt():
    """every token except the escaped backtick"""
    return alt(printable_plain(), lit(BS + BS), lit(BS + 't'), lit(BS + 'n'), lit(BS + 'r'),
               cat(lit(BS + 'x'), loop(HEXL, 2, 2)), cat(lit(BS + 'u'), loop(HEXL, 4, 4)),
               cat(lit(BS + 'U'), loop(HEXL, 8, 8)))


def tok_lang():
    return alt(tok_nobt(), lit(BS + BT))


def tok2_lang():
    """tokens after `.replace('\\\\`', '`')` acted on aligned occurrences only"""
    return alt(tok_nobt(), lit(BT))


def dtok_lang():
    """unicode_escape decoder: a non-backslash byte is a literal; backslash + one of \\ t n r is a 2-char
    escape; \\xHH, \\uHHHH, \\UHHHHHHHH have fixed lengths (H any hex digit).  (Other escapes of the codec —
    octal, \\N{..}, \\a\\b\\f\\v, \\' \\" , backslash-newline — are not in this language on purpose.)"""
    hexany = cset([rng('0', '9'), rng('a', 'f'), rng('A', 'F')])
    ascii_lit = Rx('set', ((0, 0x5b), (0x5d, 0x7f)))   # non-ASCII literals would be re-read as latin-1 bytes
    return alt(ascii_lit, lit(BS + BS), lit(BS + 't'), lit(BS + 'n'), lit(BS + 'r'),
               cat(lit(BS + 'x'), loop(hexany, 2, 2)), cat(lit(BS + 'u'), loop(hexany, 4, 4)),
               cat(lit(BS + 'U'), loop(hexany, 8, 8)))


_DTOK_RE = re.compile(r'[\x00-\x5b\x5d-\x7f]|\\[\\tnr]|\\x[0-9a-fA-F]{2}|\\u[0-9a-fA-F]{4}|\\U[0-9a-fA-F]{8}', re.S)


def py_decode_model(x):
    """decode x token by token with the dtok shapes; None if some position is not a dtok token"""
    out = []
    i = 0
    while i < len(x):
        m = _DTOK_RE.match(x, i)
        if not m:
            return None
        t = m.group(0)
        if t[0] != BS:
            out.append(t)
        elif t[1] in 'xuU':
            v = int(t[2:], 16)
            if v > 0x10FFFF:
                return None
            out.append(chr(v))
        else:
            out.append({BS: BS, 't': '\t', 'n': '\n', 'r': '\r'}[t[1]])
        i = m.end()
    return ''.join(out)


def tabulate(escape_parsable, unescape_parsable):
    """All code points through the REAL functions.  Returns (model_mismatches, roundtrip_failures, n)."""
    bad_model = []
    bad_rt = []
    n = 0
    for c in range(0x110000):
        if 0xD800 <= c <= 0xDFFF:
            continue
        n += 1
        s = chr(c)
        # a one-character name: force the escaped form by prefixing a character that is never "simple"
        e = escape_parsable(' ' + s)
        if not (e.startswith('` ') and e.endswith('`')):
            bad_model.append((c, e))
            continue
        body = e[2:-1]
        if body != esc_model(c):
            bad_model.append((c, body))
        if unescape_parsable(body) != s and len(bad_rt) < 5:
            bad_rt.append((c, body, unescape_parsable(body)))
    return bad_model, bad_rt, n


# ---- the "emitted as-is" branch of escape_parsable, DERIVED from its source ----------------------------------------
ESCAPED_EXPR = r"""'`' + s.encode('unicode_escape').decode('utf-8').replace('`', '\\`') + '`'"""


def raw_branch(src_path):
    """escape_parsable must be `if COND: return <param> else/then return <escaped expression>` (either order, COND
    possibly negated).  Returns (function node, source segment, condition node under which the parameter is returned
    unchanged).  Only the escaped expression is pinned (the codec is C code and cannot be derived); COND is translated."""
    import ast
    node, seg, _ = strlang.load_function(src_path, 'escape_parsable')
    param = node.args.args[0].arg
    body = [st for st in node.body if not (isinstance(st, ast.Expr) and isinstance(st.value, ast.Constant))]
    if not body or not isinstance(body[0], ast.If):
        raise HarnessError('escape_parsable is no longer an if/else over a condition on its argument')
    iff = body[0]
    then = iff.body
    els = iff.orelse if iff.orelse else body[1:]
    if len(then) != 1 or len(els) != 1 or not isinstance(then[0], ast.Return) or not isinstance(els[0], ast.Return):
        raise HarnessError('escape_parsable branches are no longer single return statements')

    def is_raw(r):
        return isinstance(r.value, ast.Name) and r.value.id == param

    class _Ren(ast.NodeTransformer):
        def visit_Name(self, n):
            return ast.Name(id='s', ctx=n.ctx) if n.id == param else n

    ref = ast.dump(ast.parse(ESCAPED_EXPR, mode='eval').body)

    def is_escaped(r):
        import copy
        return r.value is not None and ast.dump(_Ren().visit(copy.deepcopy(r.value))) == ref

    if is_raw(then[0]) and is_escaped(els[0]):
        cond = iff.test
    elif is_raw(els[0]) and is_escaped(then[0]):
        cond = ast.UnaryOp(op=ast.Not(), operand=iff.test)
    else:
        raise HarnessError('escape_parsable: the escaped branch is no longer the modelled expression ' + ESCAPED_EXPR
                           + ' (or no branch returns the argument unchanged)')
    return node, seg, cond


def raw_language(node, cond, module_globals, red=None):
    """z3 language of the names escape_parsable returns unchanged: the truth set of COND, translated by
    vt.strlang.PredTranslator (re.match / fullmatch / search with Python's ^ $ semantics, str predicates).
    Returns (language, charsets)."""
    from vt import strlang_ext as sx
    pt = strlang.PredTranslator(node, module_globals)
    if red is not None:
        pt.rt = sx.ReducedReTranslator(red)
        pt.charsets = pt.rt.charsets
    lang = pt.truthy(cond)
    # `$` adds an optional final newline as a literal that strlang does not record as a character set
    return lang, list(pt.charsets) + [[(10, 10)]]
