"""C36 shard runner: explores the program builder's decision tree with vt/shapex.py (symbolic choice integers, z3
feasibility on every fork, pinned prefixes for sharding) and runs the type-agreement checks natively on each path."""
import time
import traceback

import z3

from harness import C36_prog as P
from vt import glue, shapex
from vt.common import HarnessError


def _assertion_site(exc):
    names = [f.name for f in traceback.extract_tb(exc.__traceback__)]
    return names


def classify_assertion(exc):
    """AssertionError raised by the front end while building: a type self-check of the IR layer (assign_type /
    compute_type / _compute_type) is a type disagreement; any other assert is an (ungraceful) rejection."""
    names = _assertion_site(exc)
    if any(n in ('assign_type', 'compute_type', '_compute_type') for n in names):
        return 'frontend-ir-type-assertion'
    return None


def run_program(kind, k, choose, text_check=None, profile='wide'):
    """-> dict(status=done|rejected|violation, trace, kind, msg)"""
    P.set_profile(profile)
    runner = P.RUNNERS[kind]
    try:
        trace, status = runner(choose, k, text_check)
        return {'status': status, 'trace': trace}
    except P.Violation as v:
        return {'status': 'violation', 'vkind': v.kind, 'msg': str(v)[:1500]}
    except AssertionError as a:
        c = classify_assertion(a)
        if c is None:
            return {'status': 'rejected', 'trace': [('assert', (), 'rejected:AssertionError')]}
        tb = traceback.extract_tb(a.__traceback__)[-1]
        return {'status': 'violation', 'vkind': c, 'msg': f'AssertionError {a} at {tb.filename.split("/")[-1]}:{tb.lineno} {tb.name}'}


def shard_prefixes(kind, k, depth, profile='wide'):
    class Stop(Exception):
        pass

    def width(prefix):
        pos = [0]
        res = [None]

        def ch(name, opts):
            i = pos[0]
            pos[0] += 1
            if i < len(prefix):
                return opts[prefix[i]]
            res[0] = len(opts)
            raise Stop()
        try:
            run_program(kind, k, ch, None, profile)
        except Stop:
            return res[0]
        return 0
    shards = [()]
    for _ in range(depth):
        nxt = []
        for p in shards:
            if p and p[-1] is None:
                nxt.append(p)
                continue
            w = width(p)
            if w == 0:
                nxt.append(p + (None,))
            else:
                nxt.extend(p + (i,) for i in range(w))
        shards = nxt
    return [tuple(x for x in p if x is not None) for p in shards]


def run_shard(kind, k, pins, with_text=True, max_viol=10, profile='wide'):
    t0 = time.time()
    text_check = None
    if with_text:
        from harness import C36_types
        text_check = C36_types.text_check
    from harness import C36_types as _T0
    for k_ in _T0.STATS:
        _T0.STATS[k_] = {} if k_ == 'not_inferred_nodes' else 0
    cvars = [z3.Int(f'c{i}') for i in range(len(pins))]
    ex = shapex.ShapeExplorer(constraints=[cvars[i] == pins[i] for i in range(len(pins))], max_paths=10 ** 8,
                              max_decisions=400)
    stats = {'paths': 0, 'done': 0, 'rejected': 0, 'violations': 0, 'api_calls_checked': 0}
    viols = []
    samples = []
    pcs = []

    def body():
        k_ = [0]
        seq = []

        def ch(name, opts):
            nm = f'c{k_[0]}'
            k_[0] += 1
            o = shapex.choose(nm, list(range(len(opts))))
            seq.append(o)
            return opts[o]
        r = run_program(kind, k, ch, text_check, profile)
        r['choices'] = list(seq)
        return r

    def on_outcome(pc, r):
        stats['paths'] += 1
        if r['status'] == 'violation':
            stats['violations'] += 1
            if len(viols) < max_viol:
                viols.append({'kind': kind, 'k': k, 'profile': profile, 'choices': r['choices'], 'vkind': r['vkind'], 'msg': r['msg']})
            return
        stats[r['status']] += 1
        stats['api_calls_checked'] += sum(1 for st in r['trace'] if not str(st[2]).startswith('rejected'))
        if len(samples) < 3 and r['status'] == 'done' and len(r['trace']) > 2:
            samples.append({'choices': r['choices'], 'trace': [list(map(str, st)) for st in r['trace']]})
        if len(pcs) < 50:
            pcs.append(z3.And(pc) if pc else z3.BoolVal(True))

    ex.explore(body, on_outcome)
    # reachability twin: the recorded path conditions over the shape integers are satisfiable
    s = z3.Solver()
    reach = 0
    if pcs:
        s.add(z3.Or(pcs))
        reach = 1 if str(s.check()) == 'sat' else 0
    from harness import C36_types as _T
    return {'kind': kind, 'k': k, 'profile': profile, 'pins': list(pins), 'text_stats': {a: (dict(b) if isinstance(b, dict) else b) for a, b in _T.STATS.items()}, 'stats': stats, 'violations': viols, 'samples': samples,
            'reach': reach, 'secs': round(time.time() - t0, 2), 'solver_calls_explorer': ex.solver_calls}


def replay_concrete(d):
    """Re-run one recorded program concretely.  Returns (violates, message)."""
    pos = [0]

    def ch(name, opts):
        i = pos[0]
        pos[0] += 1
        if i >= len(d['choices']) or not (0 <= d['choices'][i] < len(opts)):
            raise HarnessError('replay: choice sequence does not fit the builder')
        return opts[d['choices'][i]]
    text_check = None
    if d.get('with_text', True):
        from harness import C36_types
        text_check = C36_types.text_check
    r = run_program(d['kind'], d['k'], ch, text_check, d.get('profile', 'wide'))
    if r['status'] == 'violation':
        return True, f"{r['vkind']}: {r['msg']}"
    return False, f"{r['status']}: {r.get('trace')}"
