"""Oracle side of C18: a small POSIX-shell word parser and an abstract executor of submitted batch job specs.

Independent of the code under test: it knows nothing about hailtop.batch's path scheme.  It executes what was
SUBMITTED (job specs as the fake server received them) on an abstract world:

  remote store   path -> content token      (cloud inputs exist initially; uploads add entries)
  per job        a fresh local file system  (downloads from `input_files`, then the job's script runs, then
                                            uploads from `output_files`)

The harness's commands are written in a tiny language the executor understands:
  W  <path> <token>            write a file                R  <path> <token>            read a file, expect token
  WG <root> n=<token> ...      write <root>.n files        RG <root> n=<token> ...      read  <root>.n files
  :  <anything>                no-op (literal noise)       a path word may carry a `--opt=` prefix
  R2/W2 <k> <token> <word>,  RG2/WG2 <k> n=<token> ... <word>    the same with the path LAST; the word carries k extra
                                                                 characters typed directly after the reference
plus what the backend wraps around them: `set -e`, `mkdir -p`, `ln -sf src dest`, `{`, `}`.
Words are parsed with shell quoting rules (single quotes, double quotes, backslash, ${VAR} expansion outside single
quotes), i.e. a path that was not quoted correctly reaches the executor as a different path, like in bash.
"""
import json


class ShellError(Exception):
    def __init__(self, kind, msg):
        super().__init__(f'{kind}: {msg}')
        self.kind = kind
        self.msg = msg


def parse(script, env):
    """-> list of simple commands (lists of expanded words).  Splits at unquoted newline, ';', '&&'."""
    cmds = []
    words = []
    cur = None          # current word (list of chars) or None
    i = 0
    n = len(script)

    def end_word():
        nonlocal cur
        if cur is not None:
            words.append(''.join(cur))
            cur = None

    def end_cmd():
        nonlocal words
        end_word()
        if words:
            cmds.append(words)
        words = []

    def expand(j):
        # script[j] == '$'
        if j + 1 < n and script[j + 1] == '{':
            k = script.find('}', j)
            if k < 0:
                raise ShellError('syntax', 'unterminated ${')
            name = script[j + 2:k]
            if name not in env:
                raise ShellError('unbound-variable', name)
            return env[name], k + 1
        k = j + 1
        while k < n and (script[k].isalnum() or script[k] == '_'):
            k += 1
        name = script[j + 1:k]
        if not name:
            return '$', j + 1
        if name not in env:
            raise ShellError('unbound-variable', name)
        return env[name], k

    while i < n:
        c = script[i]
        if c == '\n' or c == ';':
            end_cmd()
            i += 1
        elif c == '&' and script[i:i + 2] == '&&':
            end_cmd()
            i += 2
        elif c in ' \t':
            end_word()
            i += 1
        elif c == '#' and cur is None:
            while i < n and script[i] != '\n':
                i += 1
        elif c == "'":
            k = script.find("'", i + 1)
            if k < 0:
                raise ShellError('syntax', 'unterminated single quote')
            cur = (cur or []) + list(script[i + 1:k])
            i = k + 1
        elif c == '"':
            cur = cur or []
            i += 1
            while True:
                if i >= n:
                    raise ShellError('syntax', 'unterminated double quote')
                d = script[i]
                if d == '"':
                    i += 1
                    break
                if d == '\\' and i + 1 < n and script[i + 1] in '$`"\\\n':
                    if script[i + 1] != '\n':
                        cur.append(script[i + 1])
                    i += 2
                elif d == '$':
                    v, i = expand(i)
                    cur.extend(v)
                else:
                    cur.append(d)
                    i += 1
        elif c == '\\':
            if i + 1 < n:
                if script[i + 1] != '\n':
                    cur = (cur or []) + [script[i + 1]]
                i += 2
            else:
                i += 1
        elif c == '$':
            v, i = expand(i)
            cur = (cur or []) + list(v)
        elif c in '|<>()`':
            raise ShellError('syntax', f'unsupported shell operator {c!r}')
        else:
            cur = (cur or []) + [c]
            i += 1
    end_cmd()
    return cmds


class World:
    def __init__(self, cloud):
        self.remote = dict(cloud)        # path -> token
        self.all_local = {}              # local path -> token, over all jobs (same BATCH_TMPDIR layout everywhere)
        self.events = []                 # what happened, for reports
        self.errors = []                 # (kind, message)

    def err(self, kind, msg):
        self.errors.append((kind, msg))

    def _put_local(self, local, path, tok, who):
        old = self.all_local.get(path)
        if old is not None and old != tok:
            self.err('distinct-resources-share-path', f'{who}: local path {path} holds {old} and {tok}')
        self.all_local[path] = tok
        local[path] = tok

    def _put_remote(self, path, tok, who):
        old = self.remote.get(path)
        if old is not None and old != tok:
            self.err('distinct-resources-share-path', f'{who}: remote path {path} holds {old} and {tok}')
        self.remote[path] = tok

    @staticmethod
    def _resolve(local, links, path, depth=0):
        while path in links and depth < 8:
            path = links[path]
            depth += 1
        return local.get(path)

    def run_job(self, spec):
        who = f'job {spec["job_id"]}'
        proc = spec['process']
        argv = proc['command']
        if argv[:3] == ['python3', '-m', 'hailtop.aiotools.copy']:
            for t in json.loads(argv[4]):
                if t['from'] not in self.remote:
                    self.err('copy-of-missing-remote-file', f'{who}: {t["from"]}')
                else:
                    self._put_remote(t['to'], self.remote[t['from']], who)
            return
        if argv[:3] == ['python3', '-m', 'hailtop.aiotools.delete']:
            pre = argv[3].rstrip('/') + '/'
            for k in [k for k in self.remote if k.startswith(pre)]:
                del self.remote[k]
            return
        env = {e['name']: e['value'] for e in spec.get('env', [])}
        local, links = {}, {}
        for t in spec.get('input_files', []):
            if t['from'] not in self.remote:
                self.err('download-of-missing-remote-file', f'{who} downloads {t["from"]} which nobody uploaded')
                continue
            self._put_local(local, t['to'], self.remote[t['from']], who)
        try:
            cmds = parse(argv[2], env)
        except ShellError as e:
            self.err('script-does-not-parse', f'{who}: {e}')
            cmds = []
        for w in cmds:
            op = w[0]
            if op in ('{', '}', 'set', ':', 'mkdir'):
                continue
            if op == 'ln' and len(w) == 4 and w[1] == '-sf':
                links[w[3]] = w[2]
                continue
            args = [a.split('=', 1)[1] if a.startswith('--') and '=' in a else a for a in w[1:]]
            if op == 'W' and len(args) == 2:
                self._put_local(local, args[0], args[1], who)
                self.events.append((spec['job_id'], 'W', args[0], args[1]))
            elif op == 'R' and len(args) == 2:
                got = self._resolve(local, links, args[0])
                self.events.append((spec['job_id'], 'R', args[0], args[1]))
                if got != args[1]:
                    self.err('reference-does-not-resolve-to-resource',
                             f'{who} reads {args[0]} expecting {args[1]} but finds {got}')
            elif op in ('WG', 'RG') and len(args) >= 2 and all('=' in a for a in args[1:]):
                for a in args[1:]:
                    name, tok = a.split('=', 1)
                    p = f'{args[0]}.{name}'
                    if op == 'WG':
                        self._put_local(local, p, tok, who)
                        self.events.append((spec['job_id'], 'W', p, tok))
                    else:
                        got = self._resolve(local, links, p)
                        self.events.append((spec['job_id'], 'R', p, tok))
                        if got != tok:
                            self.err('reference-does-not-resolve-to-resource',
                                     f'{who} reads {p} expecting {tok} but finds {got}')
            elif op in ('R2', 'W2', 'RG2', 'WG2') and len(args) >= 3 and args[0].isdigit():
                # mention-last forms: <op> <suffix length> <token | n=token ...> <path word>; the path word may carry a
                # suffix typed directly after the reference (sibling name): the resource is the word minus the suffix
                sl = int(args[0])
                word = args[-1]
                base = word[:len(word) - sl] if sl else word
                if op in ('R2', 'W2') and len(args) == 3:
                    todo = [(base, args[1])]
                elif op in ('RG2', 'WG2') and all('=' in a for a in args[1:-1]):
                    todo = [(f'{base}.{a.split("=", 1)[0]}', a.split('=', 1)[1]) for a in args[1:-1]]
                else:
                    self.err('command-text-altered', f'{who}: unknown command {w!r}')
                    todo = []
                for p, tok in todo:
                    if op in ('W2', 'WG2'):
                        self._put_local(local, p, tok, who)
                        self.events.append((spec['job_id'], 'W', p, tok))
                    else:
                        got = self._resolve(local, links, p)
                        self.events.append((spec['job_id'], 'R', p, tok))
                        if got != tok:
                            self.err('reference-does-not-resolve-to-resource',
                                     f'{who} reads {p} expecting {tok} but finds {got}')
            else:
                self.err('command-text-altered', f'{who}: unknown command {w!r}')
        for t in spec.get('output_files', []):
            got = self._resolve(local, links, t['from'])
            if got is None:
                self.err('upload-of-unwritten-path', f'{who} uploads {t["from"]} which its command never wrote')
                continue
            self._put_remote(t['to'], got, who)


def simulate(specs, cloud):
    """Run all submitted jobs in job-id order (the service starts a job after its parents; ids are topological)."""
    w = World(cloud)
    for spec in sorted(specs, key=lambda s: s['job_id']):
        w.run_job(spec)
    return w
