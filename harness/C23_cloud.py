"""C23 cloud back ends: the REAL AsyncFS.read_range / read_from / open_from, GoogleStorageAsyncFS._open_from +
GoogleStorageClient.get_object + GetObjectStream, S3AsyncFS._open_from (+ _ReadableStreamFromBlocking) and
AzureAsyncFS._open_from + AzureReadableStream.read(-1) are executed natively (vt.natsym path explorer) with
z3-backed integers for object size, offsets and lengths.

The only fakes are the transports *below* the repository code:
  * GCS  : `GoogleStorageClient._session.get(url, headers=…)`   -> RFC 7233 origin server over one object
  * S3   : `S3AsyncFS._s3.get_object(Bucket, Key, Range=…)`     -> the same server, 416 = ClientError/InvalidRange
  * Azure: `BlobClient.download_blob(offset, length)`            -> the SDK's documented offset/length semantics
The Range header is a real Python f-string; a symbolic integer formats itself as a token `⟦k⟧` that the fake
server maps back to its z3 term, so (first,last) are exactly the terms the real expressions computed.

The same module runs concretely (plain ints, real bytes): that is the replay path and the translator
validation of the fake server's parsing.
"""
import asyncio
import concurrent.futures
import io
import re

import z3

from vt import loader, natsym
from vt.common import HarnessError

loader.install()

import aiohttp  # noqa: E402
import azure.core.exceptions as _ace  # noqa: E402  (inert stub module: give it real exception classes)
import botocore.exceptions as _bce  # noqa: E402


class _HttpResponseError(Exception):
    def __init__(self, status_code=None, message=''):
        super().__init__(message)
        self.status_code = status_code


class _ResourceNotFoundError(_HttpResponseError):
    pass


class _ClientAuthenticationError(_HttpResponseError):
    pass


class _ClientError(Exception):
    def __init__(self, response, operation_name='GetObject'):
        super().__init__(str(response))
        self.response = response
        self.operation_name = operation_name


_ace.HttpResponseError = _HttpResponseError
_ace.ResourceNotFoundError = _ResourceNotFoundError
_ace.ClientAuthenticationError = _ClientAuthenticationError
_bce.ClientError = _ClientError

from hailtop.aiocloud.aioaws import fs as awsfs  # noqa: E402
from hailtop.aiocloud.aioazure import fs as azfs  # noqa: E402
from hailtop.aiocloud.aiogoogle.client import storage_client as gcs  # noqa: E402
from hailtop.aiotools.fs import stream as fsstream  # noqa: E402
from hailtop.aiotools.fs.exceptions import UnexpectedEOFError  # noqa: E402

for _m in (awsfs, azfs):
    # the modules did `import azure.core.exceptions` / `import botocore.exceptions`; make sure they see ours
    if hasattr(_m, 'azure'):
        _m.azure.core.exceptions.HttpResponseError = _HttpResponseError
        _m.azure.core.exceptions.ResourceNotFoundError = _ResourceNotFoundError
        _m.azure.core.exceptions.ClientAuthenticationError = _ClientAuthenticationError
    if hasattr(_m, 'botocore'):
        _m.botocore.exceptions.ClientError = _ClientError


RInt = natsym.SInt


def term(x):
    return natsym.term(x)


class SymSlice:
    """data[off : off+ln] of the stored object, symbolic offsets (symbolic mode only)."""

    def __init__(self, off, ln):
        self.off = off
        self.ln = ln

    def __repr__(self):
        return f'SymSlice({self.off}, {self.ln})'


class Blob:
    """The stored object: `size` bytes; concrete mode carries the bytes."""

    def __init__(self, size, data=None):
        self.size = size
        self.data = data
        self.requests = []

    @property
    def concrete(self):
        return self.data is not None

    def slice(self, off, ln):
        if self.concrete:
            return self.data[off:off + ln]
        return SymSlice(off, ln)


_RANGE = re.compile(r'bytes=(⟦\d+⟧|\d+)-(⟦\d+⟧|\d+)?')


def _num(s):
    if s is None:
        return None
    if s.startswith('⟦'):
        return natsym.term_of_token(s)
    return int(s)


def parse_range(header):
    """-> (first, last|None) or None when the header is absent / not a single byte-range-spec."""
    if header is None:
        return None
    m = _RANGE.fullmatch(header)
    if not m:
        return None
    return _num(m.group(1)), _num(m.group(2))


def serve(blob, header):
    """RFC 7233 origin server for one representation of `blob.size` bytes.
    -> ('ok', off, ln) (200 or 206) | ('416',).  An absent, unparsable or invalid (last < first) Range is ignored
    (section 3.1), an unsatisfiable one (first >= size) is 416, last is clamped to size-1 (section 2.1)."""
    r = parse_range(header)
    blob.requests.append((header, r))
    if r is None:
        return ('ok', 0, blob.size)
    first, last = r
    if last is not None and last < first:
        return ('ok', 0, blob.size)
    if first >= blob.size:
        return ('416',)
    if last is None or last >= blob.size - 1:
        return ('ok', first, blob.size - first)
    return ('ok', first, last - first + 1)


# ---- GCS transport ---------------------------------------------------------------------------------------
class _Content:
    """aiohttp.StreamReader contract over a body of known extent."""

    def __init__(self, blob, off, ln):
        self.blob, self.off, self.ln, self.pos = blob, off, ln, 0

    async def read(self, n=-1):
        if n == -1 or n >= self.ln - self.pos:
            k = self.ln - self.pos
        else:
            k = n
        out = self.blob.slice(self.off + self.pos, k)
        self.pos = self.pos + k
        return out

    async def readexactly(self, n):
        if n <= self.ln - self.pos:
            out = self.blob.slice(self.off + self.pos, n)
            self.pos = self.pos + n
            return out
        raise asyncio.IncompleteReadError(b'', None)


class _Resp:
    def __init__(self, content):
        self.content = content
        self.headers = {}

    def close(self):
        pass


class _Session:
    def __init__(self, blob):
        self.blob = blob

    async def get(self, url, **kwargs):
        r = serve(self.blob, (kwargs.get('headers') or {}).get('Range'))
        if r[0] == '416':
            raise aiohttp.ClientResponseError(None, (), status=416, message='Requested Range Not Satisfiable')
        return _Resp(_Content(self.blob, r[1], r[2]))


def make_gcs(blob):
    fs = gcs.GoogleStorageAsyncFS.__new__(gcs.GoogleStorageAsyncFS)
    sc = gcs.GoogleStorageClient.__new__(gcs.GoogleStorageClient)
    sc._session = _Session(blob)
    sc._gcs_requester_pays_configuration = None
    fs._storage_client = sc
    return fs, 'gs://bucket/obj'


# ---- S3 transport ----------------------------------------------------------------------------------------
class _InlineExecutor(concurrent.futures.Executor):
    def submit(self, fn, *a, **k):
        f = concurrent.futures.Future()
        try:
            f.set_result(fn(*a, **k))
        except BaseException as e:  # noqa: BLE001 - delivered through the future like a real pool would
            if not isinstance(e, Exception):
                raise
            f.set_exception(e)
        return f


class _SymBody:
    """botocore StreamingBody (BinaryIO) in symbolic mode: only whole-body read() is executed natively."""

    def __init__(self, blob, off, ln):
        self.blob, self.off, self.ln, self.pos = blob, off, ln, 0

    def read(self, n=-1):
        if n != -1:
            raise HarnessError('symbolic S3 body: sized read must go through the _readexactly contract')
        out = self.blob.slice(self.off + self.pos, self.ln - self.pos)
        self.pos = self.ln
        return out

    def close(self):
        pass


class _S3Exceptions:
    class NoSuchKey(Exception):
        pass


class _S3:
    exceptions = _S3Exceptions

    def __init__(self, blob):
        self.blob = blob

    def get_object(self, Bucket=None, Key=None, Range=None):  # noqa: N803 (boto3 keyword names)
        r = serve(self.blob, Range)
        if r[0] == '416':
            raise _ClientError({'Error': {'Code': 'InvalidRange', 'Message': 'not satisfiable'}}, 'GetObject')
        if self.blob.concrete:
            return {'Body': io.BytesIO(self.blob.data[r[1]:r[1] + r[2]])}
        return {'Body': _SymBody(self.blob, r[1], r[2])}


def make_s3(blob):
    fs = awsfs.S3AsyncFS.__new__(awsfs.S3AsyncFS)
    fs._thread_pool = _InlineExecutor()
    fs._s3 = _S3(blob)
    return fs, 's3://bucket/obj'


def _s3_stream_contract(real_factory, blob):
    """Symbolic mode only: `_ReadableStreamFromBlocking._readexactly` loops on len(block); it is replaced by the
    contract that CrossHair proves of the real method (obligation `stream._readexactly`, bounded sizes):
    returns the first n bytes of the remaining body, or raises UnexpectedEOFError iff fewer remain."""

    def factory(pool, f):
        s = real_factory(pool, f)
        if isinstance(f, _SymBody):
            def _readexactly(n):
                assert n >= 0
                if n <= f.ln - f.pos:
                    out = blob.slice(f.off + f.pos, n)
                    f.pos = f.pos + n
                    return out
                raise UnexpectedEOFError()
            s._readexactly = _readexactly
        return s
    return factory


# ---- Azure transport -------------------------------------------------------------------------------------
class _Downloader:
    def __init__(self, blob, off, ln):
        self.blob, self.off, self.ln = blob, off, ln

    async def readall(self):
        return self.blob.slice(self.off, self.ln)

    def chunks(self):
        if not self.blob.concrete:
            raise HarnessError('symbolic Azure body: chunked reads are checked by the CrossHair harness')
        data = self.blob.data[self.off:self.off + self.ln]

        async def it():
            for i in range(0, len(data), 3):
                yield data[i:i + 3]
        return it()


class _BlobClient:
    """azure.storage.blob.aio.BlobClient.download_blob: offset=None -> whole blob (length must then be None);
    offset >= size -> HttpResponseError 416 (also for an empty blob); else size-clamped [offset, offset+length)."""

    def __init__(self, blob):
        self.blob = blob

    async def download_blob(self, offset=None, length=None):
        self.blob.requests.append(('download_blob', offset, length))
        if offset is None:
            if length is not None:
                raise ValueError('Offset value must not be None if length is set.')
            return _Downloader(self.blob, 0, self.blob.size)
        if length is not None and length < 1:
            return _Downloader(self.blob, 0, self.blob.size)  # "bytes=o-(o-1)": invalid range, ignored
        if offset >= self.blob.size:
            raise _HttpResponseError(416, 'InvalidRange')
        if length is None or offset + length >= self.blob.size:
            return _Downloader(self.blob, offset, self.blob.size - offset)
        return _Downloader(self.blob, offset, length)

    async def exists(self):
        return True


def make_azure(blob):
    fs = azfs.AzureAsyncFS.__new__(azfs.AzureAsyncFS)
    client = _BlobClient(blob)

    async def get_blob_client(url):
        return client

    async def exists(url):
        return True

    fs.get_blob_client = get_blob_client
    fs.exists = exists
    return fs, 'https://account.blob.core.windows.net/container/obj'


MAKERS = {'gcs': make_gcs, 's3': make_s3, 'azure': make_azure}


def make_fs(backend, blob):
    fs, url = MAKERS[backend](blob)

    async def isfile(u):
        return True

    async def isdir(u):
        return False

    fs.isfile = isfile
    fs.isdir = isdir
    return fs, url


# ---- the operations of the property ----------------------------------------------------------------------
async def op_read_range(fs, url, start, end, incl):
    return await fs.read_range(url, start, end, end_inclusive=incl)


async def op_open_read(fs, url, start, length):
    async with await fs.open_from(url, start, length=length) as f:
        return await f.read()


async def op_read_from(fs, url, start):
    return await fs.read_from(url, start)


async def op_open_readexactly(fs, url, start, length, n):
    async with await fs.open_from(url, start, length=length) as f:
        return await f.readexactly(n)


def run_op(backend, blob, op, *args):
    """Coroutine for one operation on a fresh file system over `blob` (symbolic or concrete)."""
    fs, url = make_fs(backend, blob)
    saved = awsfs.blocking_readable_stream_to_async
    if backend == 's3' and not blob.concrete:
        awsfs.blocking_readable_stream_to_async = _s3_stream_contract(saved, blob)

    async def go():
        try:
            return await op(fs, url, *args)
        finally:
            awsfs.blocking_readable_stream_to_async = saved
    return go()


def explore(backend, op, mk_args, constraints):
    """All feasible paths of `op` on `backend` with symbolic size.  mk_args() -> argument list (SInt/SBool/None)."""
    ex = natsym.Explorer(constraints=constraints, max_paths=400, max_decisions=40)
    size = RInt(z3.Int('size'))

    def body():
        blob = Blob(size)
        natsym.note('blob', blob)
        return run_op(backend, blob, op, *mk_args())
    outs = ex.run(body)
    return outs, ex


def concrete(backend, op, data, *args):
    """Concrete run on real bytes: -> ('ok', bytes) | ('exc', ExceptionTypeName)."""
    blob = Blob(len(data), bytes(data))
    loop = asyncio.new_event_loop()
    try:
        try:
            r = loop.run_until_complete(run_op(backend, blob, op, *args))
        except Exception as e:
            return ('exc', type(e).__name__), blob
        return ('ok', bytes(r)), blob
    finally:
        loop.close()
