"""C23 native harness: the REAL AsyncFS.read_range / read_from / open_from on top of the REAL back ends

  gcs   GoogleStorageAsyncFS._open_from + GoogleStorageClient.get_object + GetObjectStream
  s3    S3AsyncFS._open_from + _ReadableStreamFromBlocking
  azure AzureAsyncFS._open_from + AzureReadableStream (read / readexactly, chunk buffer)
  local LocalAsyncFS._open_from + TruncatedReadableBinaryIO + _ReadableStreamFromBlocking

executed by CPython under the vt.natsym path explorer with z3-backed integers for the object size, offsets and
lengths.  The only fakes are the transports *below* the repository code:

  gcs   `GoogleStorageClient._session.get(url, headers=…)`  -> RFC 7233 origin server over one object
  s3    `S3AsyncFS._s3.get_object(Bucket, Key, Range=…)`    -> the same server, 416 = ClientError/InvalidRange
  azure `BlobClient.download_blob(offset, length)`           -> the SDK's offset/length semantics, 416 past EOF
  local builtin `open` (in local_fs's namespace)             -> a BinaryIO over the object

The Range header is built by the real f-string: a symbolic integer renders itself as a token `⟦k⟧` which the fake
server maps back to its z3 term, so (first,last) are exactly the terms the real expressions computed.

Three modes of the stored object (`Blob`):
  sym       size symbolic, every slice is a `SymSlice(off, len)` of z3 terms: no bound on anything, but code that
            needs len() of the bytes (block loops) cannot run;
  tag       size and all offsets symbolic, block LENGTHS concretised by case split up to `B`; a byte at absolute
            position p carries the value TAG0 + (p - ref) where `ref` is the requested start, so the real code runs
            on real `bytes` and "the right bytes" is a z3 fact about `ref` plus a concrete comparison;
  concrete  plain ints and real bytes: replay and self-test of the fakes.
"""
import asyncio
import concurrent.futures
import io
import re

import z3

from vt import loader, natsym
from vt.common import HarnessError

loader.install()

import aiohttp  # noqa: E402
import azure.core.exceptions as _ace  # noqa: E402  (inert stub module: give it real exception classes)
import botocore.exceptions as _bce  # noqa: E402


class _HttpResponseError(Exception):
    def __init__(self, status_code=None, message=''):
        super().__init__(message)
        self.status_code = status_code


class _ResourceNotFoundError(_HttpResponseError):
    pass


class _ClientAuthenticationError(_HttpResponseError):
    pass


class _ClientError(Exception):
    def __init__(self, response, operation_name='GetObject'):
        super().__init__(str(response))
        self.response = response
        self.operation_name = operation_name


if isinstance(getattr(_ace, 'HttpResponseError', None), type) and issubclass(_ace.HttpResponseError, Exception):
    _HttpResponseError = _ace.HttpResponseError  # harness/C23_local.py got there first in this process
else:
    _ace.HttpResponseError = _HttpResponseError
    _ace.ResourceNotFoundError = _ResourceNotFoundError
    _ace.ClientAuthenticationError = _ClientAuthenticationError
_bce.ClientError = _ClientError

from hailtop.aiocloud.aioaws import fs as awsfs  # noqa: E402
from hailtop.aiocloud.aioazure import fs as azfs  # noqa: E402
from hailtop.aiocloud.aiogoogle.client import storage_client as gcs  # noqa: E402
from hailtop.aiotools import local_fs  # noqa: E402
from hailtop.aiotools.fs.exceptions import UnexpectedEOFError  # noqa: E402,F401

RInt = natsym.SInt
TAG0 = 100


def term(x):
    return natsym.term(x)


class SymSlice:
    """data[off : off+ln] of the stored object, symbolic extent (sym mode only)."""

    def __init__(self, off, ln):
        self.off = off
        self.ln = ln

    def __repr__(self):
        return f'SymSlice({self.off}, {self.ln})'


class Shorts:
    """How many bytes a sized read / a chunk actually delivers when k >= 2 are available.  The first `budget`
    such reads may come back short: a harness-side symbolic choice over k, k-1, …, 1 (natsym.choose) or, in a
    concrete run, the next entry of `schedule`."""

    def __init__(self, budget=0, schedule=None):
        self.schedule = list(schedule) if schedule is not None else None
        self.budget = len(self.schedule) if schedule is not None else budget
        self.used = 0

    def pick(self, k):
        if k < 2 or self.used >= self.budget:
            return k
        self.used += 1
        if self.schedule is not None:
            s = self.schedule[self.used - 1]
            return s if 1 <= s < k else k
        return natsym.choose(f'short{self.used}_of{k}', list(range(k, 0, -1)))


class Blob:
    """The stored object."""

    def __init__(self, size, data=None, mode=None, ref=0, bound=8, shorts=None):
        self.size = size
        self.data = data
        self.mode = mode or ('concrete' if data is not None else 'sym')
        self.ref = ref
        self.B = bound
        self.shorts = shorts or Shorts()
        self.requests = []

    @property
    def concrete(self):
        return self.mode == 'concrete'

    def slice(self, off, ln):
        if self.mode == 'concrete':
            return self.data[off:off + ln] if ln > 0 else b''
        if self.mode == 'sym':
            return SymSlice(off, ln)
        k = natsym.concretize(ln, 0, self.B)
        if k == 0:
            return b''
        d = natsym.concretize(off - self.ref, -self.B, self.B)
        return bytes(TAG0 + d + j for j in range(k))


class Window:
    """A readable view of positions [lo, hi) of the blob: aiohttp body, botocore StreamingBody, local file."""
    mode = 'rb'
    name = 'fake'

    def __init__(self, blob, lo, hi, pos=None):
        self.blob, self.lo, self.hi = blob, lo, hi
        self.pos = lo if pos is None else pos
        self.closed = False

    def _avail(self):
        a = self.hi - self.pos
        if a < 0:
            a = 0
        return a

    def read(self, n=-1):
        avail = self._avail()
        if n is None or n < 0:
            k = avail
        else:
            k = n if n < avail else avail
            if self.blob.mode != 'sym':
                k = self.blob.shorts.pick(natsym.concretize(k, 0, self.blob.B))
        out = self.blob.slice(self.pos, k)
        self.pos = self.pos + k
        return out

    def seek(self, off, whence=0):
        if whence == 0:
            self.pos = self.lo + off
        elif whence == 1:
            self.pos = self.pos + off
        else:
            self.pos = self.hi + off
        return self.pos - self.lo

    def tell(self):
        return self.pos - self.lo

    def close(self):
        self.closed = True


_RANGE = re.compile(r'bytes=(⟦\d+⟧|\d+)-(⟦\d+⟧|\d+)?')


def _num(s):
    if s is None:
        return None
    if s.startswith('⟦'):
        return natsym.term_of_token(s)
    return int(s)


def parse_range(header):
    """-> (first, last|None) or None when the header is absent / not a single byte-range-spec."""
    if header is None:
        return None
    m = _RANGE.fullmatch(header)
    if not m:
        return None
    return _num(m.group(1)), _num(m.group(2))


def serve(blob, header):
    """RFC 7233 origin server for one representation of `blob.size` bytes.
    -> ('ok', off, ln) (200 or 206) | ('416',).  An absent, unparsable or invalid (last < first) Range is ignored
    (section 3.1), an unsatisfiable one (first >= size) is 416, last is clamped to size-1 (section 2.1)."""
    r = parse_range(header)
    blob.requests.append((header, r))
    if r is None:
        return ('ok', 0, blob.size)
    first, last = r
    if last is not None and last < first:
        return ('ok', 0, blob.size)
    if first >= blob.size:
        return ('416',)
    if last is None or last >= blob.size - 1:
        return ('ok', first, blob.size - first)
    return ('ok', first, last - first + 1)


# ---- GCS transport ---------------------------------------------------------------------------------------
class _Content:
    """aiohttp.StreamReader contract over a body window."""

    def __init__(self, w):
        self.w = w

    async def read(self, n=-1):
        return self.w.read(n)

    async def readexactly(self, n):
        if n <= self.w._avail():
            out = self.w.blob.slice(self.w.pos, n)
            self.w.pos = self.w.pos + n
            return out
        raise asyncio.IncompleteReadError(b'', None)


class _Resp:
    def __init__(self, content):
        self.content = content
        self.headers = {}

    def close(self):
        pass


class _Session:
    def __init__(self, blob):
        self.blob = blob

    async def get(self, url, **kwargs):
        r = serve(self.blob, (kwargs.get('headers') or {}).get('Range'))
        if r[0] == '416':
            raise aiohttp.ClientResponseError(None, (), status=416, message='Requested Range Not Satisfiable')
        return _Resp(_Content(Window(self.blob, r[1], r[1] + r[2])))


def make_gcs(blob):
    fs = gcs.GoogleStorageAsyncFS.__new__(gcs.GoogleStorageAsyncFS)
    sc = gcs.GoogleStorageClient.__new__(gcs.GoogleStorageClient)
    sc._session = _Session(blob)
    sc._gcs_requester_pays_configuration = None
    fs._storage_client = sc
    return fs, 'gs://bucket/obj'


# ---- S3 transport ----------------------------------------------------------------------------------------
class _InlineExecutor(concurrent.futures.Executor):
    def submit(self, fn, *a, **k):
        f = concurrent.futures.Future()
        try:
            f.set_result(fn(*a, **k))
        except Exception as e:
            f.set_exception(e)
        return f


class _S3Exceptions:
    class NoSuchKey(Exception):
        pass


class _S3:
    exceptions = _S3Exceptions

    def __init__(self, blob):
        self.blob = blob

    def get_object(self, Bucket=None, Key=None, Range=None):  # noqa: N803 (boto3 keyword names)
        r = serve(self.blob, Range)
        if r[0] == '416':
            raise _ClientError({'Error': {'Code': 'InvalidRange', 'Message': 'not satisfiable'}}, 'GetObject')
        return {'Body': Window(self.blob, r[1], r[1] + r[2])}


def make_s3(blob):
    fs = awsfs.S3AsyncFS.__new__(awsfs.S3AsyncFS)
    fs._thread_pool = _InlineExecutor()
    fs._s3 = _S3(blob)
    return fs, 's3://bucket/obj'


# ---- Azure transport -------------------------------------------------------------------------------------
class _Downloader:
    def __init__(self, blob, off, ln):
        self.blob, self.off, self.ln = blob, off, ln

    async def readall(self):
        return self.blob.slice(self.off, self.ln)

    def chunks(self):
        if self.blob.mode == 'sym':
            raise HarnessError('sym mode cannot run the Azure chunk loop: use tag mode')
        w = Window(self.blob, self.off, self.off + self.ln)

        async def it():
            while True:
                b = w.read(self.blob.B if self.blob.mode == 'tag' else 1 << 20)
                if not b:
                    return
                yield b
        return it()


class _BlobClient:
    """azure.storage.blob.aio.BlobClient.download_blob: offset=None -> whole blob (length must then be None);
    offset >= size -> HttpResponseError 416 (also for an empty blob); else size-clamped [offset, offset+length)."""

    def __init__(self, blob):
        self.blob = blob

    async def download_blob(self, offset=None, length=None):
        self.blob.requests.append(('download_blob', offset, length))
        if offset is None:
            if length is not None:
                raise ValueError('Offset value must not be None if length is set.')
            return _Downloader(self.blob, 0, self.blob.size)
        if length is not None and length < 1:
            return _Downloader(self.blob, 0, self.blob.size)  # "bytes=o-(o-1)": invalid range, ignored
        if offset >= self.blob.size:
            raise _HttpResponseError(416, 'InvalidRange')
        if length is None or offset + length >= self.blob.size:
            return _Downloader(self.blob, offset, self.blob.size - offset)
        return _Downloader(self.blob, offset, length)

    async def exists(self):
        return True


def make_azure(blob):
    fs = azfs.AzureAsyncFS.__new__(azfs.AzureAsyncFS)
    client = _BlobClient(blob)

    async def get_blob_client(url):
        return client

    async def exists(url):
        return True

    fs.get_blob_client = get_blob_client
    fs.exists = exists
    return fs, 'https://account.blob.core.windows.net/container/obj'


# ---- local "transport": the builtin open() ---------------------------------------------------------------
def make_local(blob):
    fs = local_fs.LocalAsyncFS.__new__(local_fs.LocalAsyncFS)
    fs._thread_pool = _InlineExecutor()
    local_fs.open = lambda path, mode='rb': Window(blob, 0, blob.size)
    return fs, '/obj'


MAKERS = {'gcs': make_gcs, 's3': make_s3, 'azure': make_azure, 'local': make_local}
BACKENDS = list(MAKERS)


def make_fs(backend, blob):
    fs, url = MAKERS[backend](blob)

    async def isfile(u):
        return True

    async def isdir(u):
        return False

    fs.isfile = isfile
    fs.isdir = isdir
    return fs, url


# ---- the operations of the property ----------------------------------------------------------------------
async def op_read_range(fs, url, start, end, incl):
    return await fs.read_range(url, start, end, end_inclusive=incl)


async def op_open_read(fs, url, start, length):
    async with await fs.open_from(url, start, length=length) as f:
        return await f.read()


async def op_read_from(fs, url, start):
    return await fs.read_from(url, start)


async def op_seq(fs, url, start, length, ns):
    """open_from(start, length); read(n) for n in ns; then read() — everything that was returned, in order."""
    out = []
    async with await fs.open_from(url, start, length=length) as f:
        for n in ns:
            b = await f.read(n)
            if len(b) > n:
                raise OverRead()
            out.append(b)
        out.append(await f.read())
    return b''.join(out)


async def op_drain(fs, url, start, length, n):
    """open_from(start, length); read(n) until it returns b'' — the concatenation."""
    out = []
    async with await fs.open_from(url, start, length=length) as f:
        while True:
            b = await f.read(n)
            if len(b) > n:
                raise OverRead()
            if not b:
                break
            out.append(b)
    return b''.join(out)


class OverRead(Exception):
    """read(n) handed back more than n bytes."""


OPS = {'read_range': op_read_range, 'open_read': op_open_read, 'read_from': op_read_from, 'seq': op_seq,
       'drain': op_drain}


def run_op(backend, blob, op, *args):
    """Coroutine for one operation on a fresh file system over `blob`."""
    fs, url = make_fs(backend, blob)
    return OPS[op](fs, url, *args)


def explore(backend, op, mk_args, constraints, mode='sym', bound=8, shorts=0, max_paths=20000):
    """All feasible paths of `op` on `backend`.  mk_args() -> (ref_start, argument list) with SInt/SBool/None."""
    ex = natsym.Explorer(constraints=constraints, max_paths=max_paths, max_decisions=200, index_bounds=(0, bound))
    size = RInt(z3.Int('size'))

    def body():
        ref, args = mk_args()
        blob = Blob(size, mode=mode, ref=ref, bound=bound, shorts=Shorts(budget=shorts))
        natsym.note('blob', blob)
        return run_op(backend, blob, op, *args)
    outs = ex.run(body)
    return outs, ex


def concrete(backend, op, data, args, schedule=()):
    """Concrete run on real bytes: -> ('ok', bytes) | ('exc', ExceptionTypeName), blob."""
    blob = Blob(len(data), bytes(data), shorts=Shorts(schedule=list(schedule)))
    loop = asyncio.new_event_loop()
    try:
        try:
            r = loop.run_until_complete(run_op(backend, blob, op, *args))
        except Exception as e:
            return ('exc', type(e).__name__), blob
        return ('ok', bytes(r)), blob
    finally:
        try:
            loop.run_until_complete(loop.shutdown_asyncgens())
        except Exception:
            pass
        loop.close()
