"""C16 scenario: the real batch.semaphore.FIFOWeightedSemaphore used exactly as Job.run uses
worker.cpu_sem (`async with sem(weight): ...`) by 3 or 4 job tasks on a real asyncio loop.

Schedule (all CrossHair-symbolic): w_i weight of job i (1..CAP); per step an action a_s and a drain bit d_s.
  action 0      START the next job task (jobs are started in index order: the jobs are interchangeable
                except for their weights, which are symbolic, so this loses no schedule)
  action 1+i    let job i leave its `async with` body (sets its gate; if it is still queued it will pass
                through the body without stopping once granted)
  drain bit     run the loop until quiescent before the next action; otherwise the next action happens
                with the wake-ups still pending (e.g. release and a new arrival in the same loop iteration)
Step 0 is always START.  Oracle (independent of the class's internals except for the public `.value`,
which worker.py reports as free cores), evaluated at every quiescent point:
  safety    sum of weights of jobs inside the body <= CAP, and == CAP - sem.value
  FIFO      the SET of jobs that have entered the body is a prefix of the order in which they called acquire
            (no job is inside while an earlier arrival still waits).  The order of entry inside one burst of
            callbacks is deliberately not compared: a granted waiter resumes one loop iteration after its
            grant, so a later fast-path arrival may run its first statement earlier without taking anything
            from it (CrossHair produced exactly that schedule against the stricter oracle).
  liveness  the longest-waiting job is not waiting while CAP - sum(inside) >= its weight
"""
import asyncio

from vt import sched

SRC = 'batch/batch/semaphore.py'
sem_mod = sched.load_file('c16_semaphore_real', SRC)
CAP = 4


class Bad(Exception):
    pass


async def scenario(ws, acts, drains, trace=None, stats=None):
    sem = sem_mod.FIFOWeightedSemaphore(CAP)
    n = len(ws)
    gates = [asyncio.Event() for _ in range(n)]
    inside = [False] * n
    arrived, entered, tasks = [], [], []
    gate_set = [False] * n
    stats = {} if stats is None else stats
    stats.update({'waited': False, 'complete': False})

    async def job(i):
        arrived.append(i)
        async with sem(ws[i]):
            inside[i] = True
            entered.append(i)
            await gates[i].wait()
            inside[i] = False

    def check():
        tot = 0
        for i in range(n):
            if inside[i]:
                tot += ws[i]
        if not tot <= CAP:
            raise Bad('over-grant: weights inside exceed capacity')
        if not tot + sem.value == CAP:
            raise Bad('accounting: capacity - value differs from the weights inside')
        if sorted(entered) != sorted(arrived[:len(entered)]):
            raise Bad('fifo: a job is inside while a job that called acquire earlier still waits')
        if len(entered) < len(arrived):
            stats['waited'] = True
            head = arrived[len(entered)]
            if not ws[head] > CAP - tot:
                raise Bad('liveness: head waiter blocked while enough capacity is free')

    try:
        for s in range(len(acts)):
            a = sched.concretize(acts[s], 0, n)
            if a == 0:
                if len(tasks) >= n:
                    raise sched.Prune()
                tasks.append(asyncio.ensure_future(job(len(tasks))))
            else:
                i = a - 1
                if i >= len(tasks) or gate_set[i]:
                    raise sched.Prune()
                gate_set[i] = True
                gates[i].set()
            if drains[s]:
                await sched.settle()
                check()
            if trace is not None:
                trace.append((a, bool(drains[s]), list(inside), sem.value))
        stats['complete'] = True
        await sched.settle()
        check()
        # everything that was started can finish: open every gate, all jobs leave, capacity is whole again
        for i in range(len(tasks)):
            gates[i].set()
        await sched.settle()
        check()
        for t in tasks:
            if not t.done():
                raise Bad('liveness: a job never finished although every holder left')
            t.result()
        if sem.value != CAP:
            raise Bad('accounting: value != capacity after every job left')
        return stats
    finally:
        await sched.cleanup(tasks)


def _args(nt, args):
    ws, rest = list(args[:nt]), args[nt:]
    k1 = len(rest) // 2
    return ws, [0] + list(rest[:k1]), [rest[k1 + i] for i in range(k1 + 1)]


def _mk(nt):
    def check(*args):
        """args = w0..w_{nt-1}, a1..a_{k-1}, d0..d_{k-1}.  True = property held (or schedule not well-formed)."""
        ws, acts, drains = _args(nt, args)
        try:
            sched.run_det(scenario(ws, acts, drains))
        except sched.Prune:
            return True
        except Bad:
            return False
        return True

    def reach(*args):
        """Reachability twin: False iff a well-formed schedule ran to the end (final oracle evaluated, whatever it
        said) AND some job really queued."""
        ws, acts, drains = _args(nt, args)
        st = {}
        try:
            sched.run_det(scenario(ws, acts, drains, None, st))
        except sched.Prune:
            return True
        except Bad:
            pass
        return not (st.get('complete') and st.get('waited'))

    return check, reach


check_3, reach_3 = _mk(3)
check_4, reach_4 = _mk(4)


def replay(args, meta):
    """Plain asyncio (stock loop), no CrossHair.  -> (ok, class, why)"""
    k, nt = meta['k'], meta['nt']
    pos = [args[f'w{i}'] for i in range(nt)] + [args[f'a{i}'] for i in range(1, k)] + [args[f'd{i}'] for i in range(k)]
    ws, acts, drains = _args(nt, pos)
    trace = []
    try:
        sched.run_plain(scenario(ws, acts, drains, trace))
    except sched.Prune:
        return True, None, 'schedule not well-formed'
    except Bad as e:
        why = str(e)
        return False, 'fifo-semaphore-' + why.split(':')[0], f'{why}; trace(action,drain,inside,value)={trace}'
    return True, None, 'held'


sched.freeze()
