"""C22 (a): the part arithmetic of SourceCopier._copy_file_multi_part_main / _copy_part (fs/copier.py) and
LocalAsyncFS.multi_part_create / LocalMultiPartCreate.create_part (local_fs.py), lifted from the AST to z3
integer terms on every run.

The lifter is deliberately small: integer expressions (+ - * // % comparisons, and/or/not, conditional
expressions, min, divmod, truthiness of ints) over an environment of z3 terms; the statements that carry the
arithmetic are located structurally (by callee / target names) and anything unexpected raises HarnessError.
`lift()` returns the terms; `concrete_run()` executes the real coroutine on a recording fake FS (translator
validation + a concrete byte-identity check at the same points).
"""
import ast
import asyncio

import z3

from vt import loader
from vt.common import HarnessError

COPIER = 'hail/python/hailtop/aiotools/fs/copier.py'
LOCAL = 'hail/python/hailtop/aiotools/local_fs.py'


class Ev:
    """Integer/boolean expression translator."""

    def __init__(self, env, attrs=None):
        self.env = dict(env)
        self.attrs = attrs or {}

    def b(self, t):
        if z3.is_bool(t):
            return t
        return t != 0

    def e(self, n):
        if isinstance(n, ast.Await):
            return self.e(n.value)
        if isinstance(n, ast.Constant) and isinstance(n.value, (int, bool)):
            return z3.BoolVal(n.value) if isinstance(n.value, bool) else z3.IntVal(n.value)
        if isinstance(n, ast.Name):
            if n.id not in self.env:
                raise HarnessError(f'lift: unbound name {n.id}')
            return self.env[n.id]
        if isinstance(n, ast.Attribute):
            key = ast.unparse(n)
            if key in self.attrs:
                return self.attrs[key]
            raise HarnessError(f'lift: unknown attribute {key}')
        if isinstance(n, ast.BinOp):
            a, c = self.e(n.left), self.e(n.right)
            if isinstance(n.op, ast.Add):
                return a + c
            if isinstance(n.op, ast.Sub):
                return a - c
            if isinstance(n.op, ast.Mult):
                return a * c
            if isinstance(n.op, ast.FloorDiv):
                return a / c
            if isinstance(n.op, ast.Mod):
                return a % c
            raise HarnessError(f'lift: operator {type(n.op).__name__}')
        if isinstance(n, ast.UnaryOp) and isinstance(n.op, ast.Not):
            return z3.Not(self.b(self.e(n.operand)))
        if isinstance(n, ast.UnaryOp) and isinstance(n.op, ast.USub):
            return -self.e(n.operand)
        if isinstance(n, ast.BoolOp):
            parts = [self.b(self.e(v)) for v in n.values]
            return z3.And(*parts) if isinstance(n.op, ast.And) else z3.Or(*parts)
        if isinstance(n, ast.Compare):
            terms = [self.e(n.left)] + [self.e(c) for c in n.comparators]
            out = []
            for op, a, c in zip(n.ops, terms, terms[1:]):
                f = {ast.Lt: lambda x, y: x < y, ast.LtE: lambda x, y: x <= y, ast.Gt: lambda x, y: x > y,
                     ast.GtE: lambda x, y: x >= y, ast.Eq: lambda x, y: x == y, ast.NotEq: lambda x, y: x != y}.get(type(op))
                if f is None:
                    raise HarnessError(f'lift: comparison {type(op).__name__}')
                out.append(f(a, c))
            return z3.And(*out) if len(out) > 1 else out[0]
        if isinstance(n, ast.IfExp):
            return z3.If(self.b(self.e(n.test)), self.e(n.body), self.e(n.orelse))
        if isinstance(n, ast.Call) and isinstance(n.func, ast.Name) and n.func.id == 'min' and len(n.args) == 2:
            a, c = self.e(n.args[0]), self.e(n.args[1])
            return z3.If(a <= c, a, c)
        raise HarnessError(f'lift: expression {ast.unparse(n)}')


def _func(tree, name, cls=None):
    for n in ast.walk(tree):
        if cls and isinstance(n, ast.ClassDef) and n.name == cls:
            for m in n.body:
                if isinstance(m, (ast.FunctionDef, ast.AsyncFunctionDef)) and m.name == name:
                    return m
        if not cls and isinstance(n, (ast.FunctionDef, ast.AsyncFunctionDef)) and n.name == name:
            return n
    raise HarnessError(f'function {cls + "." if cls else ""}{name} not found')


def _calls(node, attr):
    return [c for c in ast.walk(node) if isinstance(c, ast.Call) and (
        (isinstance(c.func, ast.Attribute) and c.func.attr == attr) or (isinstance(c.func, ast.Name) and c.func.id == attr))]


def _params(fn):
    return [a.arg for a in fn.args.args if a.arg != 'self']


def lift():
    """-> dict of z3 terms and the source snippets they came from."""
    ctext, ltext = loader.read(COPIER), loader.read(LOCAL)
    ctree, ltree = ast.parse(ctext), ast.parse(ltext)
    main = _func(ctree, '_copy_file_multi_part_main', 'SourceCopier')
    part = _func(ctree, '_copy_part', 'SourceCopier')
    size, P, BUF, i, n = z3.Int('size'), z3.Int('part_size'), z3.Int('BUFFER_SIZE'), z3.Int('i'), z3.Int('n')
    out = {'vars': {'size': size, 'P': P, 'BUF': BUF, 'i': i, 'n': n}, 'src': {}}

    # BUFFER_SIZE constant
    buf_val = None
    for cl in ast.walk(ctree):
        if isinstance(cl, ast.ClassDef) and cl.name == 'Copier':
            for st in cl.body:
                if isinstance(st, ast.Assign) and ast.unparse(st.targets[0]) == 'BUFFER_SIZE':
                    buf_val = eval(compile(ast.Expression(st.value), '<buf>', 'eval'), {'__builtins__': {}})
    if not isinstance(buf_val, int):
        raise HarnessError('Copier.BUFFER_SIZE not found')
    out['BUFFER_SIZE'] = buf_val

    # ---- _copy_file_multi_part_main, statement by statement
    env = {}
    single_guard = None
    f_def = None
    ev = Ev(env)
    for st in main.body:
        if isinstance(st, ast.Assign) and len(st.targets) == 1:
            tgt, val = st.targets[0], st.value
            if isinstance(tgt, ast.Name) and tgt.id == 'size':
                ev.env['size'] = size
            elif isinstance(tgt, ast.Name) and tgt.id == 'part_size':
                if not _calls(val, 'copy_part_size'):
                    raise HarnessError('part_size is no longer copy_part_size(destfile)')
                ev.env['part_size'] = P
            elif isinstance(tgt, ast.Tuple) and isinstance(val, ast.Call) and getattr(val.func, 'id', '') == 'divmod':
                a, c = ev.e(val.args[0]), ev.e(val.args[1])
                names = [t.id for t in tgt.elts]
                ev.env[names[0]], ev.env[names[1]] = a / c, a % c
                out['src']['divmod'] = ast.unparse(st)
            else:
                raise HarnessError(f'unexpected assignment {ast.unparse(st)}')
        elif isinstance(st, ast.If):
            test = ev.e(st.test)
            ends_in_return = isinstance(st.body[-1], ast.Return)
            if ends_in_return and single_guard is None:
                single_guard = ev.b(test)
                cf = _calls(st, 'retry_transient_errors')
                if not cf or ast.unparse(cf[0].args[0]) != 'self._copy_file':
                    raise HarnessError('single-part branch no longer calls _copy_file')
                out['single_part_args'] = [ast.unparse(a) for a in cf[0].args[1:]]
                out['src']['single'] = ast.unparse(st.test)
            elif len(st.body) == 1 and isinstance(st.body[0], ast.AugAssign) and not st.orelse:
                aug = st.body[0]
                if not isinstance(aug.op, ast.Add):
                    raise HarnessError(f'unexpected {ast.unparse(st)}')
                ev.env[aug.target.id] = z3.If(ev.b(test), ev.env[aug.target.id] + ev.e(aug.value), ev.env[aug.target.id])
                out['src']['roundup'] = ast.unparse(st)
            else:
                raise HarnessError(f'unexpected if: {ast.unparse(st)[:80]}')
        elif isinstance(st, ast.Try):
            cs = _calls(st, 'multi_part_create')
            if not cs:
                raise HarnessError('try block without multi_part_create')
            nums = {ast.unparse(c.args[2]) for c in cs}
            if len(nums) != 1:
                raise HarnessError('multi_part_create called with different part counts')
            out['create_num_parts'] = ev.e(cs[0].args[2])
        elif isinstance(st, ast.AsyncWith):
            for s2 in st.body:
                if isinstance(s2, ast.AsyncFunctionDef):
                    f_def = s2
                elif isinstance(s2, ast.Expr):
                    g = _calls(s2, 'bounded_gather2')
                    comp = [c for c in ast.walk(s2) if isinstance(c, ast.ListComp)]
                    if not g or len(comp) != 1:
                        raise HarnessError('bounded_gather2 over a list comprehension expected')
                    gen = comp[0].generators[0]
                    if not (isinstance(gen.iter, ast.Call) and getattr(gen.iter.func, 'id', '') == 'range' and
                            len(gen.iter.args) == 1 and not gen.ifs):
                        raise HarnessError('parts are no longer enumerated by range(n_parts)')
                    out['range_n'] = ev.e(gen.iter.args[0])
                    if ast.unparse(comp[0].elt) != f'functools.partial(f, {gen.target.id})':
                        raise HarnessError(f'unexpected part thunk {ast.unparse(comp[0].elt)}')
        else:
            raise HarnessError(f'unexpected statement {ast.unparse(st)[:80]}')
    if single_guard is None or f_def is None or 'range_n' not in out or 'create_num_parts' not in out:
        raise HarnessError('_copy_file_multi_part_main no longer has the expected shape')
    out['multi'] = z3.Not(single_guard)
    out['n_parts'] = ev.env['n_parts']
    out['rem'] = ev.env['rem']

    # ---- nested f(i)
    fenv = Ev({**ev.env, f_def.args.args[0].arg: i})
    call_args = None
    for st in f_def.body:
        if isinstance(st, ast.Assign) and isinstance(st.targets[0], ast.Name):
            fenv.env[st.targets[0].id] = fenv.e(st.value)
            out['src']['this_part_size'] = ast.unparse(st)
        elif isinstance(st, ast.Expr):
            cs = _calls(st, 'retry_transient_errors')
            if not cs or ast.unparse(cs[0].args[0]) != 'self._copy_part':
                raise HarnessError('f(i) no longer calls _copy_part')
            call_args = cs[0].args[1:]
        else:
            raise HarnessError(f'unexpected statement in f: {ast.unparse(st)}')
    params = _params(part)
    if call_args is None or len(call_args) != len(params):
        raise HarnessError('_copy_part call does not match its signature')
    penv = {}
    for p, a in zip(params, call_args):
        if p in ('part_size', 'part_number', 'this_part_size'):
            penv[p] = fenv.e(a)
    if set(penv) != {'part_size', 'part_number', 'this_part_size'}:
        raise HarnessError('_copy_part parameters changed')
    out['part_number'] = penv['part_number']
    out['this_part_size'] = penv['this_part_size']
    out['part_size_arg'] = penv['part_size']

    # ---- _copy_part: create_part(...) and the read loop
    pe = Ev(penv, {'Copier.BUFFER_SIZE': BUF})
    cp = _calls(part, 'create_part')
    if len(cp) != 1:
        raise HarnessError('create_part call not found')
    out['create_part_number'] = pe.e(cp[0].args[0])
    out['create_part_start'] = pe.e(cp[0].args[1])
    out['src']['create_part'] = ast.unparse(cp[0])
    loops = [w for w in ast.walk(part) if isinstance(w, ast.While)]
    if len(loops) != 1:
        raise HarnessError('read loop not found')
    loop = loops[0]
    # the statement before the loop initialises the counter
    init = None
    for node in ast.walk(part):
        body = getattr(node, 'body', None)
        if isinstance(body, list) and loop in body:
            k = body.index(loop)
            init = body[k - 1] if k > 0 else None
    if not (isinstance(init, ast.Assign) and isinstance(init.targets[0], ast.Name)):
        raise HarnessError('loop counter initialisation not found')
    counter = init.targets[0].id
    out['loop_init'] = pe.e(init.value)
    le = Ev({**penv, counter: n}, {'Copier.BUFFER_SIZE': BUF})
    out['loop_guard'] = le.b(le.e(loop.test))
    wrote = None
    for st in loop.body:
        if isinstance(st, ast.Assign) and isinstance(st.targets[0], ast.Name) and st.targets[0].id == 'bytes_to_write':
            le.env['bytes_to_write'] = le.e(st.value)
        elif isinstance(st, ast.AsyncWith):
            of = _calls(st.items[0].context_expr, 'open_from')
            if len(of) != 1:
                raise HarnessError('open_from not found in the read loop')
            out['read_offset'] = le.e(of[0].args[1])
            kw = {k.arg: k.value for k in of[0].keywords}
            out['read_length'] = le.e(kw['length'])
            rx = _calls(st, 'readexactly')
            if len(rx) != 1:
                raise HarnessError('readexactly not found in the read loop')
            out['readexactly_n'] = le.e(rx[0].args[0])
            out['src']['open_from'] = ast.unparse(of[0])
        elif isinstance(st, ast.AugAssign) and isinstance(st.target, ast.Name) and st.target.id == counter:
            if not isinstance(st.op, ast.Sub):
                raise HarnessError('loop counter update changed')
            out['loop_next'] = n - le.e(st.value)
        elif isinstance(st, ast.Assign) and ast.unparse(st.targets[0]) == 'written':
            wrote = ast.unparse(st.value)
        elif isinstance(st, (ast.If, ast.Assert, ast.Expr)):
            continue
        else:
            raise HarnessError(f'unexpected statement in the read loop: {ast.unparse(st)}')
    if wrote != 'await destf.write(b)' or 'loop_next' not in out or 'read_offset' not in out:
        raise HarnessError('read loop no longer writes what it read')

    # ---- local multi part create
    mpc = _func(ltree, 'multi_part_create', 'LocalAsyncFS')
    ctor = _calls(mpc, 'LocalMultiPartCreate')
    if len(ctor) != 1 or ast.unparse(ctor[0].args[2]) != _params(mpc)[2]:
        raise HarnessError('LocalAsyncFS.multi_part_create no longer forwards num_parts')
    init_fn = _func(ltree, '__init__', 'LocalMultiPartCreate')
    if not any(isinstance(s, ast.Assign) and ast.unparse(s) == 'self._num_parts = num_parts' for s in init_fn.body):
        raise HarnessError('LocalMultiPartCreate.__init__ changed')
    cpl = _func(ltree, 'create_part', 'LocalMultiPartCreate')
    number, start = z3.Int('number'), z3.Int('start')
    lev = Ev({'number': number, 'start': start}, {'self._num_parts': z3.Int('num_parts')})
    asserts = [s for s in cpl.body if isinstance(s, ast.Assert)]
    seeks = _calls(cpl, 'seek')
    if len(asserts) != 1 or len(seeks) != 1 or len(seeks[0].args) != 1:
        raise HarnessError('LocalMultiPartCreate.create_part changed shape')
    out['local_assert'] = lev.b(lev.e(asserts[0].test))
    out['local_seek'] = lev.e(seeks[0].args[0])
    out['local_vars'] = {'number': number, 'start': start, 'num_parts': z3.Int('num_parts')}
    out['src']['local_create_part'] = ast.unparse(asserts[0]) + '; ' + ast.unparse(seeks[0])
    # how the destination file is opened: by the create step of a multi-part copy, by each part, by a plain create
    lcreate = _func(ltree, 'create', 'LocalAsyncFS')
    out['open_multi_create'] = open_effects(mpc, ltree)
    out['open_part'] = open_effects(cpl, ltree)
    out['open_single'] = open_effects(lcreate, ltree)
    out['nodes'] = {'main': (main.lineno, ast.get_source_segment(ctext, main)),
                    'part': (part.lineno, ast.get_source_segment(ctext, part)),
                    'local_create_part': (cpl.lineno, ast.get_source_segment(ltext, cpl)),
                    'local_multi_part_create': (mpc.lineno, ast.get_source_segment(ltext, mpc)),
                    'local_create': (lcreate.lineno, ast.get_source_segment(ltext, lcreate))}
    return out


def _mode_effect(mode):
    if not isinstance(mode, str):
        raise HarnessError(f'open mode is not a string constant: {mode!r}')
    return {'how': f'open mode {mode!r}', 'creates': mode[0] in 'wax', 'truncates': mode[0] == 'w',
            'exclusive': mode[0] == 'x', 'append': mode[0] == 'a'}


def _flags_effect(node):
    names = set()
    for n in ast.walk(node):
        if isinstance(n, ast.Attribute) and n.attr.startswith('O_'):
            names.add(n.attr)
        elif isinstance(n, (ast.BinOp, ast.BitOr, ast.Name, ast.Load)) or (isinstance(n, ast.Attribute)):
            continue
        else:
            raise HarnessError(f'os.open flags are not a plain O_* disjunction: {ast.unparse(node)}')
    return {'how': 'os.open flags ' + '|'.join(sorted(names)), 'creates': 'O_CREAT' in names,
            'truncates': 'O_TRUNC' in names, 'exclusive': 'O_EXCL' in names, 'append': 'O_APPEND' in names}


def open_effects(fn, tree, depth=0):
    """Every way `fn` opens a file, in source order: builtin open(path, mode) / os.open(path, flags), called directly
    or handed to blocking_to_async(pool, open, path, mode); `self.create(url)` is followed into LocalAsyncFS.create."""
    effs = []
    calls = sorted([c for c in ast.walk(fn) if isinstance(c, ast.Call)], key=lambda c: (c.lineno, c.col_offset))
    for c in calls:
        f = ast.unparse(c.func)
        kw = {k.arg: k.value for k in c.keywords}
        if f == 'open':
            m = c.args[1] if len(c.args) > 1 else kw.get('mode')
            effs.append(_mode_effect(m.value if isinstance(m, ast.Constant) else ('r' if m is None else None)))
        elif f == 'os.open':
            effs.append(_flags_effect(c.args[1] if len(c.args) > 1 else kw['flags']))
        else:
            for k, a in enumerate(c.args):
                ua = ast.unparse(a)
                if ua == 'open':
                    m = c.args[k + 2] if len(c.args) > k + 2 else None
                    effs.append(_mode_effect(m.value if isinstance(m, ast.Constant) else ('r' if m is None else None)))
                elif ua == 'os.open':
                    if len(c.args) <= k + 2:
                        raise HarnessError('os.open handed to a helper without flags')
                    effs.append(_flags_effect(c.args[k + 2]))
            if f in ('self.create', 'self._fs.create') and depth < 2:
                effs += open_effects(_func(tree, 'create', 'LocalAsyncFS'), tree, depth + 1)
    if not effs:
        raise HarnessError(f'{fn.name}: no file-opening step found')
    return effs


# ---- concrete execution of the real coroutine ------------------------------------------------------------
def concrete_run(size, part_size, buffer_size, old_len=None):
    """Runs the real SourceCopier._copy_file_multi_part_main (real _copy_part / _copy_file, real LocalAsyncFS.create /
    multi_part_create / LocalMultiPartCreate) against an in-memory disk reached through fake builtin `open` and
    `os.open`.  `old_len`: length of a destination file that already exists (None: absent).
    -> dict(num_parts, parts, reads, identical, dest_len, opens, len_after_first_open)"""
    loader.install()
    import concurrent.futures
    import os as real_os
    import tempfile

    from hailtop.aiotools import local_fs as LF
    from hailtop.aiotools.fs import copier as C
    from hailtop.aiotools.weighted_semaphore import WeightedSemaphore

    data = bytes((7 * k + 1) % 251 for k in range(size))
    rec = {'num_parts': None, 'parts': [], 'reads': {}, 'opens': [], 'len_after_first_open': None}
    DEST = '/d'
    files = {}
    if old_len is not None:
        files[DEST] = bytearray((5 * k + 3) % 251 for k in range(old_len))
    written = set()
    scratch = tempfile.TemporaryFile()
    fds = {}

    class RWFile:
        def __init__(self, path, append=False):
            self.path, self.append = path, append
            self.pos = len(files[path]) if append else 0
            self.closed = False

        def seek(self, off, whence=0):
            self.pos = off if whence == 0 else (self.pos + off if whence == 1 else len(files[self.path]) + off)
            return self.pos

        def tell(self):
            return self.pos

        def write(self, b):
            buf = files[self.path]
            if self.append:
                self.pos = len(buf)
            if self.pos > len(buf):
                buf.extend(bytes(self.pos - len(buf)))
            for k, x in enumerate(b):
                q = self.pos + k
                if q in written:
                    raise HarnessError('a destination byte was written twice')
                written.add(q)
                if q < len(buf):
                    buf[q] = x
                else:
                    buf.append(x)
            self.pos += len(b)
            return len(b)

        def read(self, n=-1):
            raise HarnessError('destination read back')

        def writable(self):
            return True

        def fileno(self):
            return scratch.fileno()   # fsync / posix_fadvise of the real stream adaptor need a descriptor

        def flush(self):
            pass

        def close(self):
            self.closed = True

        def __enter__(self):
            return self

        def __exit__(self, *a):
            self.close()

    def _opened(path, how):
        rec['opens'].append(how)
        if rec['len_after_first_open'] is None and path in files:
            rec['len_after_first_open'] = len(files[path])

    def fake_open(path, mode='r', *a, **k):
        if path != DEST:
            raise HarnessError(f'open of {path}')
        c = mode[0]
        if c == 'w':
            files[path] = bytearray()
        elif c == 'x':
            if path in files:
                raise FileExistsError(path)
            files[path] = bytearray()
        elif c == 'a':
            files.setdefault(path, bytearray())
        elif path not in files:
            raise FileNotFoundError(path)
        _opened(path, f'open {mode}')
        return RWFile(path, append=(c == 'a'))

    class OsProxy:
        """local_fs's view of `os`: open/close/fdopen/ftruncate/truncate act on the in-memory disk"""

        def __getattr__(self, k):
            return getattr(real_os, k)

        @staticmethod
        def open(path, flags, mode=0o777, **k):
            if path != DEST:
                raise HarnessError(f'os.open of {path}')
            if path in files:
                if flags & real_os.O_CREAT and flags & real_os.O_EXCL:
                    raise FileExistsError(path)
            elif flags & real_os.O_CREAT:
                files[path] = bytearray()
            else:
                raise FileNotFoundError(path)
            if flags & real_os.O_TRUNC:
                files[path] = bytearray()
            fd = 100000 + len(fds)
            fds[fd] = (path, bool(flags & real_os.O_APPEND))
            _opened(path, f'os.open {flags:#o}')
            return fd

        @staticmethod
        def close(fd):
            if fd in fds:
                return None
            return real_os.close(fd)

        @staticmethod
        def fdopen(fd, mode='r', *a, **k):
            if fd in fds:
                return RWFile(fds[fd][0], append=fds[fd][1])
            return real_os.fdopen(fd, mode, *a, **k)

        @staticmethod
        def ftruncate(fd, n):
            if fd in fds:
                del files[fds[fd][0]][n:]
                return None
            return real_os.ftruncate(fd, n)

        @staticmethod
        def truncate(path, n):
            if path in files:
                del files[path][n:]
                return None
            return real_os.truncate(path, n)

    class Inline(concurrent.futures.Executor):
        def submit(self, fn, *a, **k):
            f = concurrent.futures.Future()
            try:
                f.set_result(fn(*a, **k))
            except Exception as e:
                f.set_exception(e)
            return f

    class Src:
        def __init__(self, off, ln):
            self.off, self.ln = off, ln

        async def __aenter__(self):
            return self

        async def __aexit__(self, *a):
            return False

        async def readexactly(self, k):
            b = data[self.off:self.off + min(k, self.ln)]
            if len(b) != k:
                raise C.UnexpectedEOFError()
            return b

        async def read(self, k=-1):
            b = data[self.off:] if k < 0 else data[self.off:self.off + k]
            self.off += len(b)
            return b

    lfs = LF.LocalAsyncFS.__new__(LF.LocalAsyncFS)
    lfs._thread_pool = Inline()

    class Creator:
        """records create_part calls and forwards them to the REAL LocalMultiPartCreate"""

        def __init__(self, real):
            self.real = real

        async def __aenter__(self):
            await self.real.__aenter__()
            return self

        async def __aexit__(self, *a):
            return await self.real.__aexit__(*a)

        async def create_part(self, number, start, size_hint=None):
            rec['parts'].append((number, start, size_hint))
            return await self.real.create_part(number, start, size_hint=size_hint)

    class FS:
        @staticmethod
        def copy_part_size(url):
            return part_size

        async def multi_part_create(self, sema, url, n):
            rec['num_parts'] = n
            return Creator(await lfs.multi_part_create(sema, url, n))

        async def create(self, url, retry_writes=True):
            return await lfs.create(url, retry_writes=retry_writes)

        async def makedirs(self, url, exist_ok=False):
            return None

        async def open(self, url):
            return Src(0, size)

        async def open_from(self, url, off, length=None):
            # attribute the read to the part whose range contains it
            rec['reads'].setdefault(off // part_size, []).append((off, length))
            return Src(off, length)

    class Stat:
        async def size(self):
            return size

    class Report:
        def finish_bytes(self, k):
            pass

    sc = C.SourceCopier.__new__(C.SourceCopier)
    sc.router_fs = FS()
    sc.xfer_sema = WeightedSemaphore(35 * C.Copier.BUFFER_SIZE)
    old_buf = C.Copier.BUFFER_SIZE
    C.Copier.BUFFER_SIZE = buffer_size
    LF.open = fake_open
    LF.os = OsProxy()
    loop = asyncio.new_event_loop()
    try:
        loop.run_until_complete(sc._copy_file_multi_part_main(asyncio.Semaphore(1), Report(), '/s', Stat(), DEST, False))
    finally:
        C.Copier.BUFFER_SIZE = old_buf
        LF.os = real_os
        del LF.open
        loop.close()
        scratch.close()
    rec['single'] = size if rec['num_parts'] is None else None
    rec['dest_len'] = len(files.get(DEST, b''))
    rec['identical'] = DEST in files and bytes(files[DEST]) == data
    return rec
