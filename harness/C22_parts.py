"""C22 (a): the part arithmetic of SourceCopier._copy_file_multi_part_main / _copy_part (fs/copier.py) and
LocalAsyncFS.multi_part_create / LocalMultiPartCreate.create_part (local_fs.py), lifted from the AST to z3
integer terms on every run.

The lifter is deliberately small: integer expressions (+ - * // % comparisons, and/or/not, conditional
expressions, min, divmod, truthiness of ints) over an environment of z3 terms; the statements that carry the
arithmetic are located structurally (by callee / target names) and anything unexpected raises HarnessError.
`lift()` returns the terms; `concrete_run()` executes the real coroutine on a recording fake FS (translator
validation + a concrete byte-identity check at the same points).
"""
import ast
import asyncio

import z3

from vt import loader
from vt.common import HarnessError

COPIER = 'hail/python/hailtop/aiotools/fs/copier.py'
LOCAL = 'hail/python/hailtop/aiotools/local_fs.py'


class Ev:
    """Integer/boolean expression translator."""

    def __init__(self, env, attrs=None):
        self.env = dict(env)
        self.attrs = attrs or {}

    def b(self, t):
        if z3.is_bool(t):
            return t
        return t != 0

    def e(self, n):
        if isinstance(n, ast.Await):
            return self.e(n.value)
        if isinstance(n, ast.Constant) and isinstance(n.value, (int, bool)):
            return z3.BoolVal(n.value) if isinstance(n.value, bool) else z3.IntVal(n.value)
        if isinstance(n, ast.Name):
            if n.id not in self.env:
                raise HarnessError(f'lift: unbound name {n.id}')
            return self.env[n.id]
        if isinstance(n, ast.Attribute):
            key = ast.unparse(n)
            if key in self.attrs:
                return self.attrs[key]
            raise HarnessError(f'lift: unknown attribute {key}')
        if isinstance(n, ast.BinOp):
            a, c = self.e(n.left), self.e(n.right)
            if isinstance(n.op, ast.Add):
                return a + c
            if isinstance(n.op, ast.Sub):
                return a - c
            if isinstance(n.op, ast.Mult):
                return a * c
            if isinstance(n.op, ast.FloorDiv):
                return a / c
            if isinstance(n.op, ast.Mod):
                return a % c
            raise HarnessError(f'lift: operator {type(n.op).__name__}')
        if isinstance(n, ast.UnaryOp) and isinstance(n.op, ast.Not):
            return z3.Not(self.b(self.e(n.operand)))
        if isinstance(n, ast.UnaryOp) and isinstance(n.op, ast.USub):
            return -self.e(n.operand)
        if isinstance(n, ast.BoolOp):
            parts = [self.b(self.e(v)) for v in n.values]
            return z3.And(*parts) if isinstance(n.op, ast.And) else z3.Or(*parts)
        if isinstance(n, ast.Compare):
            terms = [self.e(n.left)] + [self.e(c) for c in n.comparators]
            out = []
            for op, a, c in zip(n.ops, terms, terms[1:]):
                f = {ast.Lt: lambda x, y: x < y, ast.LtE: lambda x, y: x <= y, ast.Gt: lambda x, y: x > y,
                     ast.GtE: lambda x, y: x >= y, ast.Eq: lambda x, y: x == y, ast.NotEq: lambda x, y: x != y}.get(type(op))
                if f is None:
                    raise HarnessError(f'lift: comparison {type(op).__name__}')
                out.append(f(a, c))
            return z3.And(*out) if len(out) > 1 else out[0]
        if isinstance(n, ast.IfExp):
            return z3.If(self.b(self.e(n.test)), self.e(n.body), self.e(n.orelse))
        if isinstance(n, ast.Call) and isinstance(n.func, ast.Name) and n.func.id == 'min' and len(n.args) == 2:
            a, c = self.e(n.args[0]), self.e(n.args[1])
            return z3.If(a <= c, a, c)
        raise HarnessError(f'lift: expression {ast.unparse(n)}')


def _func(tree, name, cls=None):
    for n in ast.walk(tree):
        if cls and isinstance(n, ast.ClassDef) and n.name == cls:
            for m in n.body:
                if isinstance(m, (ast.FunctionDef, ast.AsyncFunctionDef)) and m.name == name:
                    return m
        if not cls and isinstance(n, (ast.FunctionDef, ast.AsyncFunctionDef)) and n.name == name:
            return n
    raise HarnessError(f'function {cls + "." if cls else ""}{name} not found')


def _calls(node, attr):
    return [c for c in ast.walk(node) if isinstance(c, ast.Call) and (
        (isinstance(c.func, ast.Attribute) and c.func.attr == attr) or (isinstance(c.func, ast.Name) and c.func.id == attr))]


def _params(fn):
    return [a.arg for a in fn.args.args if a.arg != 'self']


def _int_args(e):
    return [a for a in e['args'] if isinstance(a, z3.ArithRef)]


def _one(events, kind, where, handler=False):
    xs = [e for e in events if e['kind'] == kind and e['handler'] == handler]
    if len(xs) != 1:
        raise HarnessError(f'{where}: expected exactly one {kind} call, found {len(xs)}')
    return xs[0]


def lift():
    """Interprets SourceCopier._copy_file_multi_part_main (with the nested per-part closure and _copy_part inlined)
    with vt/intpy.py and reads the arithmetic off the resulting events; -> dict of z3 terms."""
    from vt import intpy
    ctext, ltext = loader.read(COPIER), loader.read(LOCAL)
    ctree, ltree = ast.parse(ctext), ast.parse(ltext)
    main = _func(ctree, '_copy_file_multi_part_main', 'SourceCopier')
    part = _func(ctree, '_copy_part', 'SourceCopier')
    size, P, BUF = z3.Int('size'), z3.Int('part_size'), z3.Int('BUFFER_SIZE')
    out = {'src': {}}

    # BUFFER_SIZE constant
    buf_val = None
    for cl in ast.walk(ctree):
        if isinstance(cl, ast.ClassDef) and cl.name == 'Copier':
            for st in cl.body:
                if isinstance(st, ast.Assign) and ast.unparse(st.targets[0]) == 'BUFFER_SIZE':
                    buf_val = eval(compile(ast.Expression(st.value), '<buf>', 'eval'), {'__builtins__': {}})
    if not isinstance(buf_val, int):
        raise HarnessError('Copier.BUFFER_SIZE not found')
    out['BUFFER_SIZE'] = buf_val

    it = intpy.Interp(methods={'_copy_part': part}, input_calls={'size': size, 'copy_part_size': P},
                      attr_symbols={'BUFFER_SIZE': BUF})
    it.run(main, {a.arg: intpy.Opaque(a.arg) for a in main.args.args})
    ev = it.events
    if len([e for e in ev if e['kind'] == 'size']) != 1 or len([e for e in ev if e['kind'] == 'copy_part_size']) != 1:
        raise HarnessError('the file size / part size are no longer read once via .size() / copy_part_size()')

    # single-part branch: an early exit that hands the whole file to _copy_file
    singles = [x for x in it.exits if x['kind'] == 'return' and any(e['kind'] == '_copy_file' for e in x['events'])]
    if len(singles) != 1:
        raise HarnessError('single-part branch (early return through _copy_file) not found')
    cf = [e for e in singles[0]['events'] if e['kind'] == '_copy_file'][0]
    out['single_guard'] = singles[0]['guard']
    out['single_copy_size'] = _int_args(cf)
    out['src']['single'] = cf['src']

    # the loop over parts
    ploops = [l for l in it.loops if l['kind'] == 'range' and any(e['kind'] == 'create_part' for e in l['events'])]
    if len(ploops) != 1:
        raise HarnessError(f'expected one range(n) loop over the parts, found {len(ploops)}')
    pl = ploops[0]
    i = pl['var']
    out['multi'] = pl['guard']
    out['range_n'] = pl['n']
    mpcs = [e for e in ev if e['kind'] == 'multi_part_create']
    if not mpcs or any(len(_int_args(e)) != 1 for e in mpcs):
        raise HarnessError('multi_part_create(sema, url, n) calls not found')
    out['create_num_parts'] = _int_args([e for e in mpcs if not e['handler']][0])[0]
    out['create_num_parts_all'] = [_int_args(e)[0] for e in mpcs]
    cp = _one(pl['events'], 'create_part', 'per-part code')
    if len(cp['args']) < 2 or not all(isinstance(a, z3.ArithRef) for a in cp['args'][:2]):
        raise HarnessError(f'create_part(number, start, …) with integer arguments expected: {cp["src"]}')
    out['create_part_number'], out['create_part_start'] = cp['args'][0], cp['args'][1]
    out['size_hint'] = cp['kwargs'].get('size_hint') if isinstance(cp['kwargs'].get('size_hint'), z3.ArithRef) else None
    out['part_guard'] = cp['guard']
    out['src']['create_part'] = cp['src']

    # the read loop of a part
    wl = [l for l in it.loops if l['kind'] == 'while' and any(e['kind'] == 'open_from' for e in l['events'])]
    if len(wl) != 1 or len(wl[0]['state']) != 1:
        raise HarnessError('expected one while loop with a single integer counter around open_from in the per-part code')
    wl = wl[0]
    cname, n = next(iter(wl['state'].items()))
    out['loop_counter_name'] = cname
    out['loop_init'] = wl['init'][cname]
    out['loop_guard'] = wl['guard_term']
    out['loop_next'] = wl['next'][cname]
    of = _one(wl['events'], 'open_from', 'read loop')
    rx = _one(wl['events'], 'readexactly', 'read loop')
    wr = _one(wl['events'], 'write', 'read loop')
    if len(of['args']) < 2 or not isinstance(of['args'][1], z3.ArithRef) or not isinstance(of['kwargs'].get('length'), z3.ArithRef):
        raise HarnessError(f'open_from(url, offset, length=k) with integer offset and length expected: {of["src"]}')
    out['read_offset'], out['read_length'] = of['args'][1], of['kwargs']['length']
    if len(_int_args(rx)) != 1:
        raise HarnessError(f'readexactly(k) expected: {rx["src"]}')
    out['readexactly_n'] = _int_args(rx)[0]
    w_arg = wr['args'][0] if wr['args'] else None
    if not (isinstance(w_arg, intpy.Opaque) and w_arg.origin == 'readexactly'):
        raise HarnessError(f'the read loop no longer writes exactly what readexactly returned: {wr["src"]}')
    out['src']['open_from'] = of['src']
    # the symbols every obligation is phrased over
    out['vars'] = {'size': size, 'P': P, 'BUF': BUF, 'i': i, 'n': n}
    out['side_conditions'] = list(it.side)
    # candidates for "the size of part i": what the code itself passes around as a size
    cands = []
    for t in [out['size_hint'], out['loop_init']]:
        if t is not None and not any(t.eq(c) for c in cands):
            cands.append(t)
    out['size_candidates'] = cands

    # ---- local multi part create
    mpc = _func(ltree, 'multi_part_create', 'LocalAsyncFS')
    ctor = _calls(mpc, 'LocalMultiPartCreate')
    if len(ctor) != 1 or ast.unparse(ctor[0].args[2]) != _params(mpc)[2]:
        raise HarnessError('LocalAsyncFS.multi_part_create no longer forwards num_parts')
    init_fn = _func(ltree, '__init__', 'LocalMultiPartCreate')
    if not any(isinstance(s, ast.Assign) and ast.unparse(s) == 'self._num_parts = num_parts' for s in init_fn.body):
        raise HarnessError('LocalMultiPartCreate.__init__ changed')
    cpl = _func(ltree, 'create_part', 'LocalMultiPartCreate')
    number, start = z3.Int('number'), z3.Int('start')
    lev = Ev({'number': number, 'start': start}, {'self._num_parts': z3.Int('num_parts')})
    asserts = [s for s in cpl.body if isinstance(s, ast.Assert)]
    seeks = _calls(cpl, 'seek')
    if len(asserts) != 1 or len(seeks) != 1 or len(seeks[0].args) != 1:
        raise HarnessError('LocalMultiPartCreate.create_part changed shape')
    out['local_assert'] = lev.b(lev.e(asserts[0].test))
    out['local_seek'] = lev.e(seeks[0].args[0])
    out['local_vars'] = {'number': number, 'start': start, 'num_parts': z3.Int('num_parts')}
    out['src']['local_create_part'] = ast.unparse(asserts[0]) + '; ' + ast.unparse(seeks[0])
    # how the destination file is opened: by the create step of a multi-part copy, by each part, by a plain create
    lcreate = _func(ltree, 'create', 'LocalAsyncFS')
    out['open_multi_create'] = open_effects(mpc, ltree)
    out['open_part'] = open_effects(cpl, ltree)
    out['open_single'] = open_effects(lcreate, ltree)
    out['nodes'] = {'main': (main.lineno, ast.get_source_segment(ctext, main)),
                    'part': (part.lineno, ast.get_source_segment(ctext, part)),
                    'local_create_part': (cpl.lineno, ast.get_source_segment(ltext, cpl)),
                    'local_multi_part_create': (mpc.lineno, ast.get_source_segment(ltext, mpc)),
                    'local_create': (lcreate.lineno, ast.get_source_segment(ltext, lcreate))}
    return out


def _mode_effect(mode):
    if not isinstance(mode, str):
        raise HarnessError(f'open mode is not a string constant: {mode!r}')
    return {'how': f'open mode {mode!r}', 'creates': mode[0] in 'wax', 'truncates': mode[0] == 'w',
            'exclusive': mode[0] == 'x', 'append': mode[0] == 'a'}


def _flags_effect(node):
    names = set()
    for n in ast.walk(node):
        if isinstance(n, ast.Attribute) and n.attr.startswith('O_'):
            names.add(n.attr)
        elif isinstance(n, (ast.BinOp, ast.BitOr, ast.Name, ast.Load)) or (isinstance(n, ast.Attribute)):
            continue
        else:
            raise HarnessError(f'os.open flags are not a plain O_* disjunction: {ast.unparse(node)}')
    return {'how': 'os.open flags ' + '|'.join(sorted(names)), 'creates': 'O_CREAT' in names,
            'truncates': 'O_TRUNC' in names, 'exclusive': 'O_EXCL' in names, 'append': 'O_APPEND' in names}


def open_effects(fn, tree, depth=0):
    """Every way `fn` opens a file, in source order: builtin open(path, mode) / os.open(path, flags), called directly
    or handed to blocking_to_async(pool, open, path, mode); `self.create(url)` is followed into LocalAsyncFS.create."""
    effs = []
    calls = sorted([c for c in ast.walk(fn) if isinstance(c, ast.Call)], key=lambda c: (c.lineno, c.col_offset))
    for c in calls:
        f = ast.unparse(c.func)
        kw = {k.arg: k.value for k in c.keywords}
        if f == 'open':
            m = c.args[1] if len(c.args) > 1 else kw.get('mode')
            effs.append(_mode_effect(m.value if isinstance(m, ast.Constant) else ('r' if m is None else None)))
        elif f == 'os.open':
            effs.append(_flags_effect(c.args[1] if len(c.args) > 1 else kw['flags']))
        else:
            for k, a in enumerate(c.args):
                ua = ast.unparse(a)
                if ua == 'open':
                    m = c.args[k + 2] if len(c.args) > k + 2 else None
                    effs.append(_mode_effect(m.value if isinstance(m, ast.Constant) else ('r' if m is None else None)))
                elif ua == 'os.open':
                    if len(c.args) <= k + 2:
                        raise HarnessError('os.open handed to a helper without flags')
                    effs.append(_flags_effect(c.args[k + 2]))
            if f in ('self.create', 'self._fs.create') and depth < 2:
                effs += open_effects(_func(tree, 'create', 'LocalAsyncFS'), tree, depth + 1)
    if not effs:
        raise HarnessError(f'{fn.name}: no file-opening step found')
    return effs


# ---- concrete execution of the real coroutine ------------------------------------------------------------
def concrete_run(size, part_size, buffer_size, old_len=None):
    """Runs the real SourceCopier._copy_file_multi_part_main (real _copy_part / _copy_file, real LocalAsyncFS.create /
    multi_part_create / LocalMultiPartCreate) against an in-memory disk reached through fake builtin `open` and
    `os.open`.  `old_len`: length of a destination file that already exists (None: absent).
    -> dict(num_parts, parts, reads, identical, dest_len, opens, len_after_first_open)"""
    loader.install()
    import concurrent.futures
    import os as real_os
    import tempfile

    from hailtop.aiotools import local_fs as LF
    from hailtop.aiotools.fs import copier as C
    from hailtop.aiotools.weighted_semaphore import WeightedSemaphore

    data = bytes((7 * k + 1) % 251 for k in range(size))
    rec = {'num_parts': None, 'parts': [], 'reads': {}, 'opens': [], 'len_after_first_open': None}
    DEST = '/d'
    files = {}
    if old_len is not None:
        files[DEST] = bytearray((5 * k + 3) % 251 for k in range(old_len))
    written = set()
    scratch = tempfile.TemporaryFile()
    fds = {}

    class RWFile:
        def __init__(self, path, append=False):
            self.path, self.append = path, append
            self.pos = len(files[path]) if append else 0
            self.closed = False

        def seek(self, off, whence=0):
            self.pos = off if whence == 0 else (self.pos + off if whence == 1 else len(files[self.path]) + off)
            return self.pos

        def tell(self):
            return self.pos

        def write(self, b):
            buf = files[self.path]
            if self.append:
                self.pos = len(buf)
            if self.pos > len(buf):
                buf.extend(bytes(self.pos - len(buf)))
            for k, x in enumerate(b):
                q = self.pos + k
                if q in written:
                    raise HarnessError('a destination byte was written twice')
                written.add(q)
                if q < len(buf):
                    buf[q] = x
                else:
                    buf.append(x)
            self.pos += len(b)
            return len(b)

        def read(self, n=-1):
            raise HarnessError('destination read back')

        def writable(self):
            return True

        def fileno(self):
            return scratch.fileno()   # fsync / posix_fadvise of the real stream adaptor need a descriptor

        def flush(self):
            pass

        def close(self):
            self.closed = True

        def __enter__(self):
            return self

        def __exit__(self, *a):
            self.close()

    def _opened(path, how):
        rec['opens'].append(how)
        if rec['len_after_first_open'] is None and path in files:
            rec['len_after_first_open'] = len(files[path])

    def fake_open(path, mode='r', *a, **k):
        if path != DEST:
            raise HarnessError(f'open of {path}')
        c = mode[0]
        if c == 'w':
            files[path] = bytearray()
        elif c == 'x':
            if path in files:
                raise FileExistsError(path)
            files[path] = bytearray()
        elif c == 'a':
            files.setdefault(path, bytearray())
        elif path not in files:
            raise FileNotFoundError(path)
        _opened(path, f'open {mode}')
        return RWFile(path, append=(c == 'a'))

    class OsProxy:
        """local_fs's view of `os`: open/close/fdopen/ftruncate/truncate act on the in-memory disk"""

        def __getattr__(self, k):
            return getattr(real_os, k)

        @staticmethod
        def open(path, flags, mode=0o777, **k):
            if path != DEST:
                raise HarnessError(f'os.open of {path}')
            if path in files:
                if flags & real_os.O_CREAT and flags & real_os.O_EXCL:
                    raise FileExistsError(path)
            elif flags & real_os.O_CREAT:
                files[path] = bytearray()
            else:
                raise FileNotFoundError(path)
            if flags & real_os.O_TRUNC:
                files[path] = bytearray()
            fd = 100000 + len(fds)
            fds[fd] = (path, bool(flags & real_os.O_APPEND))
            _opened(path, f'os.open {flags:#o}')
            return fd

        @staticmethod
        def close(fd):
            if fd in fds:
                return None
            return real_os.close(fd)

        @staticmethod
        def fdopen(fd, mode='r', *a, **k):
            if fd in fds:
                return RWFile(fds[fd][0], append=fds[fd][1])
            return real_os.fdopen(fd, mode, *a, **k)

        @staticmethod
        def ftruncate(fd, n):
            if fd in fds:
                del files[fds[fd][0]][n:]
                return None
            return real_os.ftruncate(fd, n)

        @staticmethod
        def truncate(path, n):
            if path in files:
                del files[path][n:]
                return None
            return real_os.truncate(path, n)

    class Inline(concurrent.futures.Executor):
        def submit(self, fn, *a, **k):
            f = concurrent.futures.Future()
            try:
                f.set_result(fn(*a, **k))
            except Exception as e:
                f.set_exception(e)
            return f

    class Src:
        def __init__(self, off, ln):
            self.off, self.ln = off, ln

        async def __aenter__(self):
            return self

        async def __aexit__(self, *a):
            return False

        async def readexactly(self, k):
            b = data[self.off:self.off + min(k, self.ln)]
            if len(b) != k:
                raise C.UnexpectedEOFError()
            return b

        async def read(self, k=-1):
            b = data[self.off:] if k < 0 else data[self.off:self.off + k]
            self.off += len(b)
            return b

    lfs = LF.LocalAsyncFS.__new__(LF.LocalAsyncFS)
    lfs._thread_pool = Inline()

    class Creator:
        """records create_part calls and forwards them to the REAL LocalMultiPartCreate"""

        def __init__(self, real):
            self.real = real

        async def __aenter__(self):
            await self.real.__aenter__()
            return self

        async def __aexit__(self, *a):
            return await self.real.__aexit__(*a)

        async def create_part(self, number, start, size_hint=None):
            rec['parts'].append((number, start, size_hint))
            return await self.real.create_part(number, start, size_hint=size_hint)

    class FS:
        @staticmethod
        def copy_part_size(url):
            return part_size

        async def multi_part_create(self, sema, url, n):
            rec['num_parts'] = n
            return Creator(await lfs.multi_part_create(sema, url, n))

        async def create(self, url, retry_writes=True):
            return await lfs.create(url, retry_writes=retry_writes)

        async def makedirs(self, url, exist_ok=False):
            return None

        async def open(self, url):
            return Src(0, size)

        async def open_from(self, url, off, length=None):
            # attribute the read to the part whose range contains it
            rec['reads'].setdefault(off // part_size, []).append((off, length))
            return Src(off, length)

    class Stat:
        async def size(self):
            return size

    class Report:
        def finish_bytes(self, k):
            pass

    sc = C.SourceCopier.__new__(C.SourceCopier)
    sc.router_fs = FS()
    sc.xfer_sema = WeightedSemaphore(35 * C.Copier.BUFFER_SIZE)
    old_buf = C.Copier.BUFFER_SIZE
    C.Copier.BUFFER_SIZE = buffer_size
    LF.open = fake_open
    LF.os = OsProxy()
    loop = asyncio.new_event_loop()
    try:
        loop.run_until_complete(sc._copy_file_multi_part_main(asyncio.Semaphore(1), Report(), '/s', Stat(), DEST, False))
    finally:
        C.Copier.BUFFER_SIZE = old_buf
        LF.os = real_os
        del LF.open
        loop.close()
        scratch.close()
    rec['single'] = size if rec['num_parts'] is None else None
    rec['dest_len'] = len(files.get(DEST, b''))
    rec['identical'] = DEST in files and bytes(files[DEST]) == data
    return rec
