"""Generates the per-N CrossHair condition functions for C19 (CrossHair needs real source text)."""
TEMPLATE = '''
def check{N}({ARGS}, g: int, maxb: int, maxs: int) -> bool:
    """
    pre: 0 <= g <= {N}
    pre: 1 <= maxs <= {N1} and 2 <= maxb <= 64
    pre: {PRE}
    post: _
    """
    return property_holds([{LIST}], g, maxb, maxs)


def reach{N}({ARGS}, g: int, maxb: int, maxs: int) -> bool:
    """
    pre: 0 <= g <= {N}
    pre: 1 <= maxs <= {N1} and 2 <= maxb <= 64
    pre: {PRE}
    post: _
    """
    # reachability twin: must be REFUTED (some input reaches the end with more than one bunch)
    jg = [{{'n': x, 'id': i}} for i, x in enumerate([{LIST}])]
    return len(aioclient.Batch._create_bunches(None, jg[:g], jg[g:], maxb, maxs)) < 2
'''


def source(ns):
    out = ['from harness.C19_bunch import aioclient, property_holds\n']
    for n in ns:
        names = [f'n{i}' for i in range(n)]
        out.append(TEMPLATE.format(N=n, N1=n + 1, ARGS=', '.join(f'{x}: int' for x in names),
                                   PRE=' and '.join(f'1 <= {x} < maxb' for x in names), LIST=', '.join(names)))
    return '\n'.join(out)


TEMPLATE_P = '''
def checkp{N}({ARGS}, {PARGS}, g: int, maxb: int, maxs: int) -> bool:
    """
    pre: 0 <= g <= {N}
    pre: 1 <= maxs <= {N1} and 2 <= maxb <= 64
    pre: {PRE}
    pre: {PPRE}
    post: _
    """
    return property_holds_parents([{LIST}], [{PLIST}], g, maxb, maxs)


def reachp{N}({ARGS}, {PARGS}, g: int, maxb: int, maxs: int) -> bool:
    """
    pre: 0 <= g <= {N}
    pre: 1 <= maxs <= {N1} and 2 <= maxb <= 64
    pre: {PRE}
    pre: {PPRE}
    post: _
    """
    # reachability twin: must be REFUTED (three groups whose parent ids are not monotone reach the oracle)
    return not (g >= 3 and [{PLIST}][1] > [{PLIST}][2] and property_holds_parents([{LIST}], [{PLIST}], g, maxb, maxs))
'''


def source_parents(ns):
    out = ['from harness.C19_bunch import aioclient, property_holds_parents\n']
    for n in ns:
        names = [f'n{i}' for i in range(n)]
        ps = [f'p{i}' for i in range(n)]
        out.append(TEMPLATE_P.format(N=n, N1=n + 1, ARGS=', '.join(f'{x}: int' for x in names),
                                     PARGS=', '.join(f'{x}: int' for x in ps),
                                     PRE=' and '.join(f'1 <= {x} < maxb' for x in names),
                                     PPRE=' and '.join(f'0 <= p{i} <= {i}' for i in range(n)),
                                     LIST=', '.join(names), PLIST=', '.join(ps)))
    return '\n'.join(out)
