"""CrossHair harness for C21: the real hailtop.utils.utils.retry_transient_errors_with_debug_string, driven by
hand (no event loop), against an exception catalogue derived from the branches of the real classification
functions is_transient_error / is_limited_retries_error / is_rate_limit_error.

Stubs (all installed in the namespace of hailtop.utils.utils only, stated in props/C21.py):
  asyncio.sleep      -> records the delay and returns at once        (module attribute `asyncio` is a proxy)
  random.randrange   -> returns the next jitter draw supplied by the harness, after checking 0 <= r < n
  time_msecs         -> 0
  log                -> silent
Third-party exception classes that are inert loader stubs (aiodocker, urllib3, requests, botocore) get small
real-shaped stand-ins so that the isinstance branches naming them are reachable.
OSError-family kinds are subclasses whose errno/strerror are Python properties: OSError.__init__ is C code and
would realise a symbolic errno.
"""
import ast
import asyncio
import socket
import types

from vt import loader
from vt.common import HarnessError

loader.install()
import aiohttp  # noqa: E402
import hailtop.aiocloud.aiogoogle.client.compute_client as _cc  # noqa: E402
import hailtop.httpx  # noqa: E402
import hailtop.utils.utils as U  # noqa: E402

SRC = 'hail/python/hailtop/utils/utils.py'
CLASSIFIERS = ('is_limited_retries_error', 'is_transient_error', 'is_rate_limit_error')
LOOP = 'retry_transient_errors_with_debug_string'


# ------------------------------------------------------------------------------------------------
# real-shaped stand-ins for exception classes of packages that are loader stubs here
class DockerError(Exception):  # aiodocker.exceptions.DockerError(status, data): .status, .message
    def __init__(self, status, data):
        super().__init__(status, data)
        self.status = status
        self.message = data['message']


class _Urllib3HTTPError(Exception):
    pass


class ReadTimeoutError(_Urllib3HTTPError):  # urllib3.exceptions.ReadTimeoutError
    pass


class RequestException(OSError):  # requests.exceptions.RequestException(IOError)
    pass


class ReqConnectionError(RequestException):
    pass


class ReadTimeout(RequestException):
    pass


class ConnectionClosedError(Exception):  # botocore.exceptions.ConnectionClosedError
    pass


def _standin(mod_attr_chain, cls):
    obj = U
    for a in mod_attr_chain[:-1]:
        obj = getattr(obj, a)
    cur = getattr(obj, mod_attr_chain[-1], None)
    if isinstance(cur, type) and issubclass(cur, BaseException):
        return cur  # the real package is present: use its class
    setattr(obj, mod_attr_chain[-1], cls)
    return cls


if isinstance(U.aiodocker, loader._Stub):
    _standin(('aiodocker', 'exceptions', 'DockerError'), DockerError)
_standin(('urllib3', 'exceptions', 'ReadTimeoutError'), ReadTimeoutError)
_standin(('requests', 'exceptions', 'ReadTimeout'), ReadTimeout)
_standin(('requests', 'exceptions', 'ConnectionError'), ReqConnectionError)
_standin(('botocore', 'exceptions', 'ConnectionClosedError'), ConnectionClosedError)


# ------------------------------------------------------------------------------------------------
# stubs in the namespace of hailtop.utils.utils
class _State:
    sleeps = None
    jitter = None
    jitter_ok = True
    delays = None


class _AsyncioProxy:
    def __getattr__(self, name):
        return getattr(asyncio, name)

    @staticmethod
    async def sleep(delay, result=None):
        _State.sleeps.append(delay)
        return result


class _RandomProxy:
    @staticmethod
    def randrange(n):
        r = _State.jitter.pop(0) if _State.jitter else 0
        if not (0 <= r < n):
            _State.jitter_ok = False
            return 0
        return r


class _SilentLog:
    def __getattr__(self, name):
        return lambda *a, **k: None


U.asyncio = _AsyncioProxy()
U.random = _RandomProxy()
U.time_msecs = lambda: 0
U.log = _SilentLog()

REAL_LOOP = U.retry_transient_errors_with_debug_string
_REAL_DELAY = U.delay_ms_for_try


def _delay_recorder(*a, **k):
    ms = _REAL_DELAY(*a, **k)
    _State.delays.append((a, k, ms))
    return ms


U.delay_ms_for_try = _delay_recorder


def _func_node(tree, name):
    for n in tree.body:
        if isinstance(n, (ast.FunctionDef, ast.AsyncFunctionDef)) and n.name == name:
            return n
    raise HarnessError(f'{name} not found in {SRC}')


_TEXT = loader.read(SRC)
_TREE = ast.parse(_TEXT)


# ------------------------------------------------------------------------------------------------
# catalogue derived from the classifiers' own branches
def _isinstance_targets():
    """source text of every class named in `isinstance(e, <cls>)` inside the three classifiers, in order."""
    out = []
    for fn in CLASSIFIERS:
        for n in ast.walk(_func_node(_TREE, fn)):
            if isinstance(n, ast.Call) and isinstance(n.func, ast.Name) and n.func.id == 'isinstance':
                s = ast.unparse(n.args[1])
                if s not in out:
                    out.append(s)
    return out


def _string_pool():
    """string constants the classifiers look for with `<const> in e.<attr>` (plus the module-level message set),
    grouped by attribute name."""
    pool = {}
    for fn in CLASSIFIERS:
        for n in ast.walk(_func_node(_TREE, fn)):
            if isinstance(n, ast.Compare) and len(n.ops) == 1 and isinstance(n.ops[0], ast.In):
                left, right = n.left, n.comparators[0]
                attr = None
                if isinstance(right, ast.Attribute):
                    attr = right.attr
                elif isinstance(right, ast.Subscript) and isinstance(right.value, ast.Attribute):
                    attr = right.value.attr
                if attr is None:
                    continue
                if isinstance(left, ast.Constant) and isinstance(left.value, str):
                    pool.setdefault(attr, [])
                    if left.value not in pool[attr]:
                        pool[attr].append(left.value)
                elif isinstance(left, ast.Name) and left.id == 'msg':  # any(msg in e.body for msg in SET)
                    for m in sorted(U.RETRY_ONCE_BAD_REQUEST_ERROR_MESSAGES):
                        pool.setdefault(attr, [])
                        if m not in pool[attr]:
                            pool[attr].append(m)
    return pool


POOL = _string_pool()


def _choices(attr):
    """[''] + each searched-for constant + all of them joined (some branches need two at once)."""
    cs = POOL.get(attr, [])
    return [''] + cs + ([' '.join(cs)] if len(cs) > 1 else [])


_RI = types.SimpleNamespace(real_url='http://x.invalid/')


def _sym_os(cls):
    class S(cls):
        def __init__(self, en, strerror='x'):
            OSError.__init__(self)
            self._en = en
            self._se = strerror

        @property
        def errno(self):
            return self._en

        @property
        def strerror(self):
            return self._se

    S.__name__ = S.__qualname__ = 'Sym' + cls.__name__
    return S


SymOSError = _sym_os(OSError)
SymReset = _sym_os(ConnectionResetError)
SymRefused = _sym_os(ConnectionRefusedError)
SymGai = _sym_os(socket.gaierror)
SymClientOSError = _sym_os(aiohttp.ClientOSError)


class SymConnectorError(aiohttp.ClientConnectorError):
    def __init__(self, os_error):
        OSError.__init__(self)
        self._conn_key = types.SimpleNamespace(host='h', port=80, ssl=None)
        self._os_error = os_error

    @property
    def errno(self):
        return self._os_error.errno

    @property
    def strerror(self):
        return self._os_error.strerror


class Wrapper(Exception):
    """matched by no classifier branch: only its __cause__ counts"""


def _pick(lst, s):
    # s is a symbolic int; comparing (not indexing) keeps the fork count at len(lst)
    for i, x in enumerate(lst):
        if s == i:
            return x
    return lst[0]


def _gcp(p, s):
    codes = _pick([None, [], ['QUOTA_EXCEEDED'], ['OTHER']], s)
    return _cc.GCPOperationError(400, 'm', codes, None, {})  # status is not read by the classifiers


# class-expression text (as written in the classifiers) -> (constructor(p, s), number of string choices)
CTORS = {
    'aiodocker.exceptions.DockerError': (
        lambda p, s: U.aiodocker.exceptions.DockerError(p, {'message': _pick(_choices('message'), s)}),
        len(_choices('message'))),
    'hailtop.httpx.ClientResponseError': (
        lambda p, s: hailtop.httpx.ClientResponseError(_RI, (), body=_pick(_choices('body'), s), status=p),
        len(_choices('body'))),
    'ConnectionResetError': (lambda p, s: SymReset(p), 1),
    'ConnectionRefusedError': (lambda p, s: SymRefused(p), 1),
    'aiohttp.ClientResponseError': (lambda p, s: aiohttp.ClientResponseError(_RI, (), status=p), 1),
    'hailtop.aiocloud.aiogoogle.client.compute_client.GCPOperationError': (_gcp, 4),
    'aiohttp.ServerTimeoutError': (lambda p, s: aiohttp.ServerTimeoutError(), 1),
    'aiohttp.ServerDisconnectedError': (lambda p, s: aiohttp.ServerDisconnectedError(), 1),
    'asyncio.TimeoutError': (lambda p, s: asyncio.TimeoutError(), 1),
    'aiohttp.ClientConnectorError': (lambda p, s: SymConnectorError(SymOSError(p)), 1),
    'aiohttp.ClientPayloadError': (lambda p, s: aiohttp.ClientPayloadError(_pick(_choices('args'), s)),
                                   len(_choices('args'))),
    'aiohttp.ClientOSError': (lambda p, s: SymClientOSError(p, _pick(_choices('strerror') + [None], s)),
                              len(_choices('strerror')) + 1),
    'OSError': (lambda p, s: SymOSError(p), 1),
    'urllib3.exceptions.ReadTimeoutError': (lambda p, s: U.urllib3.exceptions.ReadTimeoutError(), 1),
    'requests.exceptions.ReadTimeout': (lambda p, s: U.requests.exceptions.ReadTimeout(), 1),
    'requests.exceptions.ConnectionError': (lambda p, s: U.requests.exceptions.ConnectionError(), 1),
    'socket.timeout': (lambda p, s: socket.timeout(), 1),
    'socket.gaierror': (lambda p, s: SymGai(p), 1),
    'botocore.exceptions.ConnectionClosedError': (lambda p, s: U.botocore.exceptions.ConnectionClosedError(), 1),
    'TransientError': (lambda p, s: U.TransientError(), 1),
}
# kinds no classifier names: permanent errors and the two BaseExceptions the loop must let through
EXTRA = [
    ('ValueError', lambda p, s: ValueError('v'), 1),
    ('Exception', lambda p, s: Exception(), 1),
    ('KeyboardInterrupt', lambda p, s: KeyboardInterrupt(), 1),
    ('asyncio.CancelledError', lambda p, s: asyncio.CancelledError(), 1),
]


def _resolve(name):
    """the class object a classifier branch names, evaluated the way the classifier would"""
    ns = dict(U.__dict__)
    ns.update({'hailtop': hailtop, 'aiohttp': aiohttp, 'asyncio': asyncio, 'socket': socket})
    try:
        cls = eval(name, ns)   # noqa: S307 - the text comes from the repository's own source
    except Exception as e:
        raise HarnessError(f'classifier branch names {name!r}, which cannot be resolved: {type(e).__name__}: {e}')
    if not (isinstance(cls, type) and issubclass(cls, BaseException)):
        raise HarnessError(f'classifier branch names {name!r}, which is not an exception class')
    return cls


def _builtin_subclasses(cls):
    """cls and every builtin exception class below it (transitively), in a stable order"""
    out, todo = [], [cls]
    while todo:
        c = todo.pop(0)
        if c in out:
            continue
        out.append(c)
        todo += sorted((x for x in c.__subclasses__() if x.__module__ == 'builtins'), key=lambda x: x.__name__)
    return out


_SYM_CACHE = {}


def _generic_ctor(cls):
    """constructor for a class the table does not know: OSError family -> subclass with Python-property errno/strerror
    (symbolic errno); anything else -> no-argument construction"""
    if issubclass(cls, OSError):
        if cls not in _SYM_CACHE:
            _SYM_CACHE[cls] = _sym_os(cls)
        sym = _SYM_CACHE[cls]
        return lambda p, s: sym(p)
    try:
        cls()
    except Exception as e:
        raise HarnessError(f'no way to construct {cls.__module__}.{cls.__qualname__} for the C21 catalogue: {e}')
    return lambda p, s: cls()


NAMED = []        # class objects exactly named by some classifier branch


def build_catalogue():
    """one entry per class named in an isinstance test of the classifiers (hand-written constructor when the table has
    one, generic otherwise), plus - for every named builtin class - each builtin subclass of it that is not named
    itself (e.g. OSError brings ConnectionAbortedError, BrokenPipeError, FileNotFoundError, ...), plus EXTRA"""
    names = _isinstance_targets()
    cat, present = [], []
    for nm in names:
        cls = _resolve(nm)
        NAMED.append(cls)
        if nm in CTORS:
            cat.append((nm,) + CTORS[nm])
        else:
            cat.append((nm, _generic_ctor(cls), 1))
        present.append(cls)
    for cls in list(NAMED):
        if cls.__module__ != 'builtins':
            continue
        for sub in _builtin_subclasses(cls):
            if sub in present:
                continue
            try:
                ctor = _generic_ctor(sub)
            except HarnessError:
                continue          # a builtin subclass that needs constructor arguments (UnicodeError family)
            present.append(sub)
            cat.append((f'{sub.__name__} (builtin subclass of {cls.__name__})', ctor, 1))
    return cat + list(EXTRA)


CATALOGUE = build_catalogue()
K = len(CATALOGUE)
MAXS = max(c[2] for c in CATALOGUE)


def make_exc(kind, p, s, depth):
    """kind-th catalogue entry with integer parameter p (status / errno), string choice s, wrapped in `depth`
    layers of `raise Wrapper() from e`."""
    e = None
    for i in range(K):
        if kind == i:
            e = CATALOGUE[i][1](p, s)
    if e is None:
        e = CATALOGUE[0][1](p, s)
    if isinstance(e, Exception):  # BaseExceptions are not wrapped
        for i in range(2):
            if i < depth:
                w = Wrapper()
                w.__cause__ = e
                e = w
    return e


# ------------------------------------------------------------------------------------------------
SENTINEL = ('ok',)
BASE_MS = U.DEFAULT_BASE_DELAY_MS
MAX_MS = U.DEFAULT_MAX_DELAY_MS


def jitter_range(tries):
    """largest legal draw for the `tries`-th failure: randrange(c//2 + 1)"""
    return (BASE_MS * 2 ** min(tries, U.LOG_2_MAX_MULTIPLIER)) // 2


def jitter_list(jsel, n):
    """jitter draws for n failures: all minimal (jsel 0), all mid-range (1) or all maximal (2).  jsel is compared,
    never used in arithmetic: the loop divides the delay by 1000.0, which would realise a symbolic integer.  All
    draws of randrange are covered by the separate z3 proof about delay_ms_for_try."""
    if jsel == 0:
        return [0 for i in range(n)]
    if jsel == 1:
        return [jitter_range(i + 1) // 2 for i in range(n)]
    return [jitter_range(i + 1) for i in range(n)]


def drive(excs, jitter):
    """Run the real loop as loop('dbg', 0, f) where call i of f raises excs[i] (i < len) and then returns SENTINEL.
    Returns (outcome, raised_obj, n_calls, sleeps, jitter_ok, delays)."""
    calls = [0]

    async def f():
        i = calls[0]
        calls[0] += 1
        if i < len(excs):
            raise excs[i]
        return SENTINEL

    _State.sleeps = []
    _State.delays = []
    _State.jitter = list(jitter)
    _State.jitter_ok = True
    coro = REAL_LOOP('dbg', 0, f)
    outcome, raised = 'suspended', None
    try:
        coro.send(None)
        coro.close()
    except StopIteration as st:
        outcome = 'ok' if st.value is SENTINEL else 'wrong-value'
    except KeyboardInterrupt as e:
        outcome, raised = 'raised', e
    except asyncio.CancelledError as e:
        outcome, raised = 'raised', e
    except Exception as e:
        outcome, raised = 'raised', e
    return outcome, raised, calls[0], _State.sleeps, _State.jitter_ok, _State.delays


def expected_retry(e, tries):
    """the property, in terms of the real classifiers evaluated outside the loop"""
    if not isinstance(e, Exception):
        return False
    lim = U.is_limited_retries_error(e)
    rate = U.is_rate_limit_error(e)
    trans = U.is_transient_error(e)
    return rate or trans or (lim and tries <= 5)


def delay_in_bounds(d, tries):
    c = BASE_MS * 2 ** min(tries, U.LOG_2_MAX_MULTIPLIER)
    lo = min(c // 2, MAX_MS)
    hi = min(c, MAX_MS)
    return lo / 1000.0 <= d <= hi / 1000.0


def check_sequence(excs, jitter):
    """Oracle for one failure sequence.  Returns a string naming the first discrepancy, or ''."""
    # expected: index of the first exception that is not retried (or len(excs))
    stop = len(excs)
    for i, e in enumerate(excs):
        if not expected_retry(e, i + 1):
            stop = i
            break
    outcome, raised, ncalls, sleeps, jok, delays = drive(excs, jitter)
    if not jok:
        return 'harness: jitter draw outside randrange range'
    if stop == len(excs):
        if outcome != 'ok':
            return f'expected success after {len(excs)} retried failures, got {outcome} {type(raised).__name__}'
        if ncalls != len(excs) + 1:
            return f'expected {len(excs) + 1} calls, got {ncalls}'
    else:
        if outcome != 'raised':
            return f'expected failure {stop} ({type(excs[stop]).__name__}, tries={stop + 1}) to be raised, got {outcome}'
        if raised is not excs[stop]:
            return f'raised {type(raised).__name__} instead of failure {stop} ({type(excs[stop]).__name__})'
        if ncalls != stop + 1:
            return f'expected {stop + 1} calls, got {ncalls}'
    if len(sleeps) != stop:
        return f'expected {stop} sleeps (one per retried failure), got {len(sleeps)}'
    for j, d in enumerate(sleeps):
        if not delay_in_bounds(d, j + 1):
            return f'sleep {j + 1} = {d}s outside the jittered exponential bounds'
    # every sleep is delay_ms_for_try(<number of failures so far>) / 1000 with the default base and maximum, so the
    # z3 proof about delay_ms_for_try (all tries, all draws) applies to it
    used = [x for x in delays[:stop]]
    for j in range(stop):
        if j >= len(used):
            return f'sleep {j + 1} was not computed by delay_ms_for_try'
        a, k, ms = used[j]
        if a != (j + 1,) or k != {}:
            return f'delay_ms_for_try called with {a} {k} for failure {j + 1}'
        if sleeps[j] != ms / 1000.0:
            return f'sleep {j + 1} = {sleeps[j]}s is not delay_ms_for_try({j + 1})/1000 = {ms / 1000.0}s'
    return ''


# ---- obligation family A: position sweep ---------------------------------------------------------
def sweep_excs(t, kind, p, s, depth):
    return [U.TransientError() for _ in range(t - 1)] + [make_exc(kind, p, s, depth)]


def sweep(t, kind, p, s, depth, jsel):
    """t-1 TransientError failures, then catalogue exception (kind, p, s, depth) as failure t, then success."""
    return check_sequence(sweep_excs(t, kind, p, s, depth), jitter_list(jsel, t))


# ---- obligation family B: sequences over representative kinds -------------------------------------
def representatives():
    """one (kind, p, s) per distinct reachable classification (lim, rate, trans), found by running the real
    classifiers on every catalogue kind at the integer constants appearing in their source."""
    ints = {0}
    for fn in CLASSIFIERS:
        for n in ast.walk(_func_node(_TREE, fn)):
            if isinstance(n, ast.Constant) and isinstance(n.value, int) and not isinstance(n.value, bool):
                ints.add(n.value)
    ints |= set(U.RETRYABLE_HTTP_STATUS_CODES) | set(U.RETRYABLE_ERRNOS)
    reps = {}
    for k, (name, ctor, ns) in enumerate(CATALOGUE):
        for p in sorted(ints):
            for s in range(ns):
                e = ctor(p, s)
                if not isinstance(e, Exception):
                    continue
                key = (U.is_limited_retries_error(e), U.is_rate_limit_error(e), U.is_transient_error(e))
                reps.setdefault(key, (k, p, s))
    return reps


def seq_excs(n, kinds):
    excs = []
    for i in range(n):
        k, p0, s = _pick(REPS_LIST, kinds[i])
        excs.append(make_exc(k, p0, s, 0))
    return excs


def seq(n, kinds, jsel):
    """n failures; failure i is the representative REPS_LIST[kinds[i]] (kinds[i] symbolic)."""
    return check_sequence(seq_excs(n, kinds), jitter_list(jsel, n))


REPS = representatives()
REPS_LIST = [REPS[k] for k in sorted(REPS)]


# ---- obligation family X: errors outside the classifiers' vocabulary, raised while another error was handled ---------
# The expected verdict here does NOT come from the classifiers: the property text says "raise any other error
# immediately without retrying", and an exception whose own class the classifiers do not know, with no declared cause,
# is "any other error" whatever Python recorded as its implicit __context__.
class UserDefinedError(Exception):
    """a user-defined exception class no classifier names"""


class _TimeProxy:
    def __getattr__(self, name):
        import time as _t
        return getattr(_t, name)

    @staticmethod
    def sleep(secs):
        _State.sleeps.append(secs)


U.time = _TimeProxy()     # sync_retry_transient_errors sleeps with time.sleep

PERMANENT_HTTP = (400, 405)    # inclusive range of client errors that are permanent by HTTP semantics (not 408 / 429)
OUTSIDE = (
    ('ValueError', lambda p: ValueError('bad input')),
    ('KeyError', lambda p: KeyError('k')),
    ('RuntimeError', lambda p: RuntimeError('r')),
    ('UserDefinedError', lambda p: UserDefinedError('u')),
    ('aiohttp.ClientResponseError(permanent status)', lambda p: aiohttp.ClientResponseError(_RI, (), status=p)),
    ('hailtop.httpx.ClientResponseError(permanent status, empty body)',
     lambda p: hailtop.httpx.ClientResponseError(_RI, (), body='', status=p)),
)
HELPERS = ('debug_string', 'plain', 'delayed_warnings', 'sync')


def _strongest_params():
    """per catalogue kind the (p, s) that makes it as retryable as it gets (transient > rate-limit > limited), found by
    running the real classifiers over the integer constants of their source; used for the CONTEXT exception only"""
    ints = {0}
    for fn in CLASSIFIERS:
        for n in ast.walk(_func_node(_TREE, fn)):
            if isinstance(n, ast.Constant) and isinstance(n.value, int) and not isinstance(n.value, bool):
                ints.add(n.value)
    ints |= set(U.RETRYABLE_HTTP_STATUS_CODES) | set(U.RETRYABLE_ERRNOS)
    out = []
    for k, (name, ctor, ns) in enumerate(CATALOGUE):
        best, bestscore = (0, 0), -1
        for p in sorted(ints):
            for s in range(ns):
                e = ctor(p, s)
                if not isinstance(e, Exception):
                    score = 0
                else:
                    score = (4 * U.is_transient_error(e) + 2 * U.is_rate_limit_error(e)
                             + 1 * U.is_limited_retries_error(e))
                if score > bestscore:
                    best, bestscore = (p, s), score
        out.append(best)
    return out


STRONGEST = _strongest_params()


def ctx_exc(ckind):
    """the exception that was being handled: catalogue kind ckind (symbolic) at its most retryable parameters"""
    e = None
    for i in range(K):
        if ckind == i:
            e = CATALOGUE[i][1](STRONGEST[i][0], STRONGEST[i][1])
    if e is None:
        e = CATALOGUE[0][1](STRONGEST[0][0], STRONGEST[0][1])
    return e


def outside_exc(okind, status):
    e = None
    for i in range(len(OUTSIDE)):
        if okind == i:
            e = OUTSIDE[i][1](status)
    if e is None:
        e = OUTSIDE[0][1](status)
    return e


def _raise_in_handler(outer, ckind, depth, suppress):
    """raise `outer` the way real code does: inside `except` blocks that are handling other errors, without `from`
    (Python itself sets __context__), or with `from None` when suppress is true (sets __suppress_context__).
    depth 0: no error is being handled; 1: the catalogue error; 2: a Wrapper raised while handling the catalogue error."""
    if depth <= 0:
        if suppress:
            raise outer from None
        raise outer
    try:
        raise ctx_exc(ckind)
    except BaseException:
        if depth == 1:
            if suppress:
                raise outer from None
            raise outer
        try:
            raise Wrapper()
        except Exception:
            if suppress:
                raise outer from None
            raise outer


def context_run(helper, okind, status, ckind, depth, suppress):
    """one call of the operation fails with an outside-vocabulary error raised while handling a catalogue error;
    every later call would succeed.  Returns (outcome, raised_is_outer, calls, sleeps, ctx_is_set)."""
    outer = outside_exc(okind, status)
    calls = [0]

    def body():
        i = calls[0]
        calls[0] += 1
        if i == 0:
            _raise_in_handler(outer, ckind, depth, suppress)
        return SENTINEL

    async def f():
        return body()

    _State.sleeps = []
    _State.delays = []
    _State.jitter = []
    _State.jitter_ok = True
    outcome, raised = 'suspended', None
    try:
        if helper == 'sync':
            v = U.sync_retry_transient_errors(body)
            outcome = 'ok' if v is SENTINEL else 'wrong-value'
        else:
            if helper == 'debug_string':
                coro = U.retry_transient_errors_with_debug_string('dbg', 0, f)
            elif helper == 'plain':
                coro = U.retry_transient_errors(f)
            else:
                coro = U.retry_transient_errors_with_delayed_warnings(0, f)
            try:
                coro.send(None)
                coro.close()
            except StopIteration as st:
                outcome = 'ok' if st.value is SENTINEL else 'wrong-value'
    except Exception as e:
        outcome, raised = 'raised', e
    ctx_set = outer.__context__ is not None and outer.__cause__ is None
    return outcome, raised is outer, calls[0], len(_State.sleeps), ctx_set


def context_check(helper, okind, status, ckind, depth, suppress):
    """'' when the outside-vocabulary error is raised at once (one call, no sleep, the same object)"""
    outcome, same, ncalls, nsleeps, ctx_set = context_run(helper, okind, status, ckind, depth, suppress)
    if outcome != 'raised':
        return f'{OUTSIDE[okind][0] if 0 <= okind < len(OUTSIDE) else okind} was retried ({ncalls} calls, outcome {outcome})'
    if not same:
        return 'a different exception object was raised'
    if ncalls != 1:
        return f'{ncalls} calls before the error was raised'
    if nsleeps != 0:
        return f'{nsleeps} sleeps before the error was raised'
    return ''


# ---- family X, part 2: OSError-family classes that no classifier branch names ------------------------------------------
# Expected verdict from the property text ("any other error: raised at once"), for: a builtin OSError subclass whose
# class object is not exactly named by any classifier isinstance test of the tree under test and is not in the pinned
# vocabulary (classes with a hand-written constructor in CTORS), carrying an errno that the classifiers compare
# nowhere (not in RETRYABLE_ERRNOS of the tree under test, not among the integer constants in the classifiers' source,
# not a socket.EAI_* constant they use).  The errno reference set is read from the tree under test: it is a pinned
# reference, the property text names no errno.
def _reference_errnos():
    ints = set(U.RETRYABLE_ERRNOS) | {socket.EAI_AGAIN, socket.EAI_NONAME}
    for fn in CLASSIFIERS:
        for n in ast.walk(_func_node(_TREE, fn)):
            if isinstance(n, ast.Constant) and isinstance(n.value, int) and not isinstance(n.value, bool):
                ints.add(n.value)
    return tuple(sorted(ints))


REF_ERRNOS = _reference_errnos()
def _pinned_vocabulary():
    """classes the hand-written constructor table knows: the classifiers' vocabulary when this check was written.  A
    refactoring that names a base class instead (isinstance(e, ConnectionError)) does not move them into family X."""
    out = []
    for nm in CTORS:
        try:
            out.append(_resolve(nm))
        except HarnessError:
            pass
    return out


PINNED = _pinned_vocabulary()
OSX = [c for c in _builtin_subclasses(OSError) if c not in NAMED and c not in PINNED]
OSX_SYM = [_sym_os(c) for c in OSX]
ERRNO_MAX = 200


def osx_exc(okind, en):
    e = None
    for i in range(len(OSX)):
        if okind == i:
            e = OSX_SYM[i](en)
    if e is None:
        e = OSX_SYM[0](en)
    return e


def osx_run(helper, okind, en):
    outer = osx_exc(okind, en)
    calls = [0]

    def body():
        i = calls[0]
        calls[0] += 1
        if i == 0:
            raise outer
        return SENTINEL

    async def f():
        return body()

    _State.sleeps = []
    _State.delays = []
    _State.jitter = []
    _State.jitter_ok = True
    outcome, raised = 'suspended', None
    try:
        if helper == 'sync':
            v = U.sync_retry_transient_errors(body)
            outcome = 'ok' if v is SENTINEL else 'wrong-value'
        else:
            if helper == 'debug_string':
                coro = U.retry_transient_errors_with_debug_string('dbg', 0, f)
            elif helper == 'plain':
                coro = U.retry_transient_errors(f)
            else:
                coro = U.retry_transient_errors_with_delayed_warnings(0, f)
            try:
                coro.send(None)
                coro.close()
            except StopIteration as st:
                outcome = 'ok' if st.value is SENTINEL else 'wrong-value'
    except Exception as e:
        outcome, raised = 'raised', e
    return outcome, raised is outer, calls[0], len(_State.sleeps)


def osx_check(helper, okind, en):
    """'' when the unnamed OSError-family error with an errno outside the reference set is raised at once"""
    for r in REF_ERRNOS:
        if en == r:
            return ''          # an errno the classifiers do compare: not part of this obligation
    outcome, same, ncalls, nsleeps = osx_run(helper, okind, en)
    if outcome != 'raised':
        name = '?'
        for i in range(len(OSX)):      # by comparison: indexing with a symbolic integer would realise it
            if okind == i:
                name = OSX[i].__name__
        return f'{name}(errno={en}) was retried ({ncalls} calls, outcome {outcome})'
    if not same:
        return 'a different exception object was raised'
    if ncalls != 1:
        return f'{ncalls} calls before the error was raised'
    if nsleeps != 0:
        return f'{nsleeps} sleeps before the error was raised'
    return ''
