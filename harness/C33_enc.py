"""CrossHair harness for C33: the REAL HailType._convert_to_encoding / _convert_from_encoding and the REAL
hail.utils.byte_reader.ByteWriter / ByteReader, with `struct` replaced INSIDE byte_reader's namespace by
pure-Python little-endian arithmetic so that integers stay symbolic and the buffer is a list of (symbolic)
byte values.

Stub contract (validated against the real `struct` on concrete values each run, props/C33.py):
  pack('=B'|'=i'|'=q', v) -> little-endian two's-complement bytes of v, struct.error outside the width;
  unpack inverts it.  Floats: a harness value `Bits(width, pattern)` stands for "the float whose IEEE bit
  pattern is `pattern`" — pack('=f'|'=d') emits the little-endian bytes of the pattern, unpack rebuilds it
  (i.e. struct's float packing is assumed injective on bit patterns; real floats inside numpy arrays go
  through the real struct).

Layout reference: `etype(t)` is derived from the `fromPythonTypeEncoding` case table parsed out of
EType.scala at run time (type -> EType constructor, required flags, setRequired(true) on dict / ndarray
elements); `ref_encode` is a hand-written reference of the per-EType byte layouts following E*.scala
(EBaseStruct missing bits over non-required fields, EArray length prefix + missing bytes only for
non-required elements, EBinary length prefix, ENDArrayColumnMajor int64 shape + column-major required
elements, call bit-packing).  The engine itself is not run (no scalac)."""
import re
import struct as _real_struct

import numpy as np

from harness import C32_json as J
from vt import loader
from vt.common import HarnessError

T = J.T
from hail.genetics import Call, Locus  # noqa: E402
from hail.utils import Interval, Struct  # noqa: E402
from hail.utils import byte_reader as BR  # noqa: E402


class Bits:
    """opaque float: IEEE bit pattern of the given width"""
    __slots__ = ('width', 'pattern')

    def __init__(self, width, pattern):
        self.width = width
        self.pattern = pattern

    def __repr__(self):
        return f'Bits{self.width}({self.pattern:#x})' if isinstance(self.pattern, int) else f'Bits{self.width}(sym)'

    def __eq__(self, o):
        return isinstance(o, Bits) and o.width == self.width and o.pattern == self.pattern

    def __hash__(self):
        return hash((self.width, self.pattern))


class ByteList(list):
    def __getitem__(self, i):
        r = list.__getitem__(self, i)
        return ByteList(r) if isinstance(i, slice) else r

    def tobytes(self):
        return bytes(int(x) for x in self)


_W = {'B': (1, False), 'i': (4, True), 'q': (8, True), 'f': (4, None), 'd': (8, None)}


class _StructStub:
    error = _real_struct.error

    @staticmethod
    def pack(fmt, v):
        n, signed = _W[fmt[-1]]
        if signed is None:
            if isinstance(v, Bits):
                u = v.pattern
            else:
                return ByteList(_real_struct.pack(fmt, v))
        else:
            if isinstance(v, (np.generic, np.ndarray)):
                v = v.item()
            if isinstance(v, bool):
                v = int(v)
            lo, hi = (-(256 ** n) // 2, 256 ** n // 2) if signed else (0, 256 ** n)
            if not (lo <= v < hi):
                raise _real_struct.error('argument out of range')
            u = v % (256 ** n)          # two's complement without a sign branch (fewer CrossHair paths)
        out = ByteList()
        for _ in range(n):
            out.append(u % 256)
            u = u // 256
        if fmt[0] in '>!':
            out.reverse()          # '=' and '<' are little-endian here (x86-64 / aarch64-le), '>' and '!' big-endian
        return out

    @staticmethod
    def unpack(fmt, bs):
        n, signed = _W[fmt[-1]]
        if len(bs) != n:
            raise _real_struct.error(f'unpack requires a buffer of {n} bytes')
        u = 0
        order = range(n - 1, -1, -1) if fmt[0] not in '>!' else range(n)
        for k in order:
            u = u * 256 + bs[k]
        if signed is None:
            if FLOAT_MODE == 'real':
                return _real_struct.unpack(fmt, bytes(int(x) for x in bs))
            return (Bits(8 * n, u),)
        if signed:
            u = u - (256 ** n) * (u // (256 ** n // 2))
        return (u,)


FLOAT_MODE = 'bits'
BR.struct = _StructStub


class _NpProxy:
    """hail.expr.types sees numpy through this proxy: identical except that np.prod returns a Python int —
    CrossHair's patched range() rejects numpy integers (`range(np.prod(shape, dtype=np.int64))` in
    tndarray._convert_from_encoding), plain Python accepts them via __index__"""

    def __getattr__(self, name):
        return getattr(np, name)

    @staticmethod
    def prod(*a, **k):
        return int(np.prod(*a, **k))


T.np = _NpProxy()


def _float_hook(t, P):
    if t == T.tfloat32:
        return Bits(32, P.nx('j') + 2 ** 31)
    return Bits(64, P.nx('i') + 2 ** 63)


def encode(t, v):
    w = BR.ByteWriter(ByteList())
    t._convert_to_encoding(w, v)
    return w._buf


def decode(t, buf):
    r = BR.ByteReader(ByteList(buf))
    v = t._convert_from_encoding(r)
    if r._offset != len(buf):
        raise ValueError(f'decoder consumed {r._offset} of {len(buf)} bytes')
    return v


# ---- EType table from EType.scala ---------------------------------------------------------------------------
ETYPE_SCALA = 'hail/hail/src/is/hail/types/encoded/EType.scala'


def parse_etype_table():
    text = loader.read(ETYPE_SCALA)
    m = re.search(r'def fromPythonTypeEncoding\(t: Type\): EType = t match \{(.*?)\n  \}\n', text, re.S)
    if not m:
        raise HarnessError('EType.fromPythonTypeEncoding not found')
    body = m.group(1)
    tab = {}
    for nm, et, req in re.findall(r'case (TInt32|TInt64|TFloat32|TFloat64|TBoolean|TBinary|TString|TCall) => (\w+)\((true|false)\)', body):
        tab[nm] = (et, req == 'true')
    if set(tab) != {'TInt32', 'TInt64', 'TFloat32', 'TFloat64', 'TBoolean', 'TBinary', 'TString', 'TCall'}:
        raise HarnessError(f'primitive cases of fromPythonTypeEncoding changed: {sorted(tab)}')
    norm = re.sub(r'\s+', ' ', body)
    m = re.search(r'case TLocus\(_\) => EBaseStruct\( ArraySeq\( EField\("contig", (\w+)\((\w+)\), 0\), EField\("position", (\w+)\((\w+)\), 1\), \), '
                  r'required = (\w+), \)', norm)
    if not m:
        raise HarnessError('TLocus case of fromPythonTypeEncoding changed')
    tab['TLocus'] = ('EBaseStruct', [(m.group(1), m.group(2) == 'true'), (m.group(3), m.group(4) == 'true')], m.group(5) == 'true')
    m = re.search(r'case t: TInterval => EBaseStruct\( ArraySeq\( EField\("start", fromPythonTypeEncoding\(t\.pointType\), 0\), '
                  r'EField\("end", fromPythonTypeEncoding\(t\.pointType\), 1\), EField\("includesStart", (\w+)\((\w+)\), 2\), '
                  r'EField\("includesEnd", (\w+)\((\w+)\), 3\), \), required = (\w+), \)', norm)
    if not m:
        raise HarnessError('TInterval case of fromPythonTypeEncoding changed')
    tab['TInterval'] = ([(m.group(1), m.group(2) == 'true'), (m.group(3), m.group(4) == 'true')], m.group(5) == 'true')
    m = re.search(r'case t: TDict => (\w+)\(fromPythonTypeEncoding\(t\.elementType\)(\.setRequired\((\w+)\))?, (\w+)\)', norm)
    if not m:
        raise HarnessError('TDict case changed')
    tab['TDict'] = (m.group(1), (m.group(3) == 'true') if m.group(2) else None, m.group(4) == 'true')
    m = re.search(r'case t: TSet => (\w+)\(fromPythonTypeEncoding\(t\.elementType\)(\.setRequired\((\w+)\))?, (\w+)\)', norm)
    if not m:
        raise HarnessError('TSet case changed')
    tab['TSet'] = (m.group(1), (m.group(3) == 'true') if m.group(2) else None, m.group(4) == 'true')
    m = re.search(r'case t: TIterable => (\w+)\(fromPythonTypeEncoding\(t\.elementType\)(\.setRequired\((\w+)\))?, (\w+)\)', norm)
    if not m:
        raise HarnessError('TIterable case changed')
    tab['TArray'] = (m.group(1), (m.group(3) == 'true') if m.group(2) else None, m.group(4) == 'true')
    m = re.search(r'case t: TBaseStruct => EBaseStruct\( ArraySeq\.tabulate\(t\.size\) \{ i => .*?EField\(f\.name, '
                  r'fromPythonTypeEncoding\(t\.fields\(i\)\.typ\), f\.index\) \}, required = (\w+), \)', norm)
    if not m:
        raise HarnessError('TBaseStruct case changed')
    tab['TStruct'] = (m.group(1) == 'true',)
    m = re.search(r'case t: TNDArray => (\w+)\(fromPythonTypeEncoding\(t\.elementType\)(\.setRequired\((\w+)\))?, t\.nDims, (\w+)\)', norm)
    if not m:
        raise HarnessError('TNDArray case changed')
    tab['TNDArray'] = (m.group(1), (m.group(3) == 'true') if m.group(2) else None, m.group(4) == 'true')
    return tab, m.string


_TAB = None


def etype(t, req_override=None):
    """nested EType description: (kind, required, children...)"""
    global _TAB
    if _TAB is None:
        _TAB = parse_etype_table()[0]
    tab = _TAB

    def R(r):
        return r if req_override is None else req_override

    # (a list, not a dict: hashing a HailType calls hash(str), which CrossHair makes symbolic)
    prim = [(T.tint32, 'TInt32'), (T.tint64, 'TInt64'), (T.tfloat32, 'TFloat32'), (T.tfloat64, 'TFloat64'), (T.tbool, 'TBoolean'),
            (T.tstr, 'TString'), (T.tcall, 'TCall')]
    for k, nm in prim:
        if t == k:
            et, r = tab[nm]
            return (et, R(r), nm)
    if isinstance(t, T.tlocus):
        _, fields, r = tab['TLocus']
        return ('EBaseStruct', R(r), [(fields[0][0], fields[0][1], 'contig'), (fields[1][0], fields[1][1], 'position')], 'locus')
    if isinstance(t, T.tinterval):
        fl, r = tab['TInterval']
        p = etype(t.point_type)
        return ('EBaseStruct', R(r), [p, p, (fl[0][0], fl[0][1], 'TBoolean'), (fl[1][0], fl[1][1], 'TBoolean')], 'interval')
    if isinstance(t, T.tdict):
        kind, ereq, r = tab['TDict']
        elem = ('EBaseStruct', tab['TStruct'][0] if ereq is None else ereq, [etype(t.key_type), etype(t.value_type)], 'pair')
        return (kind, R(r), elem)
    if isinstance(t, T.tset):
        kind, ereq, r = tab['TSet']
        return (kind, R(r), etype(t.element_type, ereq))
    if isinstance(t, T.tarray):
        kind, ereq, r = tab['TArray']
        return (kind, R(r), etype(t.element_type, ereq))
    if isinstance(t, (T.tstruct, T.ttuple)):
        return ('EBaseStruct', R(tab['TStruct'][0]), [etype(x) for x in t.types], 'struct',
                list(t.keys()) if isinstance(t, T.tstruct) else None)
    if isinstance(t, T.tndarray):
        kind, ereq, r = tab['TNDArray']
        return (kind, R(r), etype(t.element_type, ereq), t.ndim)
    raise HarnessError(f'no EType for {t}')


# ---- reference byte layout per EType -------------------------------------------------------------------------
def le(u, n):
    out = []
    for _ in range(n):
        out.append(u % 256)
        u = u // 256
    return out


def twos(v, n):
    return le(v % (256 ** n), n)


def call_rep(c):
    """bit-packed call (Call.scala): bit 0 phased, bits 1-2 ploidy, from bit 3 the allele / allele-pair index"""
    rep = (c.ploidy << 1) | (1 if c.phased else 0)
    if c.ploidy == 1:
        rep |= c.alleles[0] << 3
    elif c.ploidy == 2:
        j, k = c.alleles
        if c.phased:
            s = j + k
            rep |= (s * (s + 1) // 2 + j) << 3
        else:
            rep |= (k * (k + 1) // 2 + j) << 3
    return rep if rep < 2 ** 31 else rep - 2 ** 32


def ref_encode(et, v, out):
    kind = et[0]
    if kind == 'EInt32':
        if et[2] == 'TCall':
            out += twos(call_rep(v), 4)
        else:
            out += twos(int(v) if isinstance(v, np.generic) else v, 4)
    elif kind == 'EInt64':
        out += twos(int(v) if isinstance(v, np.generic) else v, 8)
    elif kind == 'EFloat32':
        out += le(v.pattern, 4) if isinstance(v, Bits) else list(_real_struct.pack('<f', v))
    elif kind == 'EFloat64':
        out += le(v.pattern, 8) if isinstance(v, Bits) else list(_real_struct.pack('<d', v))
    elif kind == 'EBoolean':
        out.append(1 if v else 0)
    elif kind == 'EBinary':
        b = v.encode('utf-8')
        out += twos(len(b), 4)
        out += list(b)
    elif kind == 'EBaseStruct':
        fields = et[2]
        tag = et[3]
        if tag == 'locus':
            vals = [v.contig, v.position]
        elif tag == 'interval':
            vals = [v.start, v.end, v.includes_start, v.includes_end]
        elif tag == 'pair':
            vals = list(v)
        elif isinstance(v, tuple):
            vals = list(v)
        else:
            vals = [v[f] for f in et[4]]       # by NAME in the type's field order: the value's own order may differ
        k = 0
        b = 0
        for f, x in zip(fields, vals):
            if not f[1]:
                if x is None:
                    b |= 1 << k
                k += 1
                if k == 8:
                    out.append(b)
                    b, k = 0, 0
            elif x is None:
                raise ValueError('missing value in required field')
        if k > 0:
            out.append(b)
        for f, x in zip(fields, vals):
            if x is not None:
                ref_encode(f, x, out)
    elif kind in ('EArray', 'EUnsortedSet', 'EDictAsUnsortedArrayOfPairs'):
        elem = et[2]
        xs = list(v.items()) if kind == 'EDictAsUnsortedArrayOfPairs' else list(v)
        out += twos(len(xs), 4)
        if not elem[1]:
            b = 0
            k = 0
            for x in xs:
                if x is None:
                    b |= 1 << k
                k += 1
                if k == 8:
                    out.append(b)
                    b, k = 0, 0
            if k > 0:
                out.append(b)
        for x in xs:
            if x is not None:
                ref_encode(elem, x, out)
            elif elem[1]:
                raise ValueError('missing element in required array')
    elif kind == 'ENDArrayColumnMajor':
        elem = et[2]
        for d in v.shape:
            out += twos(int(d), 8)
        # column-major: first index fastest
        for idx in np.ndindex(*v.shape[::-1]):
            ref_encode(elem, v[idx[::-1]], out)
    else:
        raise HarnessError(f'no reference layout for {kind}')
    return out


# ---- catalogue / property -------------------------------------------------------------------------------------
LONG = 'long'
# calls for the binary codec: the JSON list plus diploid calls on both sides of the decoder's small-table / allele_pair_sqrt
# boundary (genotype index 36 = 0/8), triangular indices 0/k, their neighbours, the largest encodable pair and phased ones
CALLS33 = list(J.CALLS) + [((0, 8), False), ((0, 9), False), ((7, 8), False), ((1, 8), False), ((8, 8), False), ((7, 7), False),
                           ((0, 20000), False), ((16383, 32767), False), ((0, 8), True), ((3, 9), True), ((8, 0), True),
                           ((0, 300), True)]


def catalogue(tier):
    L = T.tlocus(J.RG)
    prims = [T.tint32, T.tint64, T.tfloat32, T.tfloat64, T.tstr, T.tbool, T.tcall, L]
    nd = [T.tndarray(T.tint32, 1), T.tndarray(T.tint32, 2), T.tndarray(T.tint64, 2), T.tndarray(T.tfloat32, 2),
          T.tndarray(T.tfloat64, 1), T.tndarray(T.tfloat64, 2), T.tndarray(T.tfloat64, 3)]
    q = list(prims) + [T.tarray(T.tint32), (T.tarray(T.tbool), LONG), T.tarray(T.tstr), T.tset(T.tint64), T.tdict(T.tstr, T.tint32),
                       T.tstruct(a=T.tfloat64, b=T.tbool), T.ttuple(L, T.tbool, T.tstr), T.tinterval(T.tint32),
                       nd[1], nd[6], T.tarray(T.tstruct(a=T.tint32, b=T.tint64))]
    if tier == 'quick':
        return q
    out = list(q) + [T.tarray(T.tstruct(a=T.tint32, b=T.tstr)), T.tstruct(a=T.tfloat64, b=T.tcall), T.tdict(T.tstr, T.tarray(T.tint32))]
    out += [T.tarray(p) for p in prims] + [T.tset(p) for p in (T.tint32, T.tstr, T.tcall, L)]
    out += [T.tdict(T.tint32, T.tfloat64), T.tdict(L, T.tcall), T.tdict(T.tstr, T.tstr), (T.tarray(T.tint64), LONG)]
    out += [T.tstruct(), T.tstruct(a=T.tint32, b=T.tstr, c=T.tbool), T.ttuple(), T.ttuple(T.tfloat32, T.tcall)]
    out += [T.tinterval(T.tfloat64), T.tinterval(T.tstr), T.tinterval(L)] + nd
    out += [T.tarray(T.tarray(T.tint32)), T.tarray(T.tdict(T.tstr, T.tfloat64)), T.tset(T.ttuple(T.tint32, T.tstr)),
            T.tdict(T.tint32, T.tstruct(a=T.tfloat64)), T.tstruct(a=T.tarray(T.tfloat64), b=T.tstruct(c=T.tcall)),
            T.ttuple(T.tset(T.tstr), T.tinterval(T.tint32)), T.tarray(T.tinterval(L)), T.tdict(T.ttuple(T.tint32, T.tstr), T.tint32),
            T.tarray(T.tset(T.tint32)), T.tinterval(T.tstruct(a=T.tint32)), T.tarray(T.tndarray(T.tfloat64, 1)),
            T.tstruct(a=T.tdict(T.tstr, T.tint32), b=T.ttuple(T.tbool, T.tfloat32)), T.tdict(T.tstr, T.tdict(T.tstr, T.tcall))]
    seen = []
    for t in out:
        if str(t) not in [str(x) for x in seen]:
            seen.append(t)
    return seen


def has_ndarray(t):
    if isinstance(t, T.tndarray):
        return True
    kids = []
    if isinstance(t, (T.tarray, T.tset)):
        kids = [t.element_type]
    elif isinstance(t, T.tdict):
        kids = [t.key_type, t.value_type]
    elif isinstance(t, (T.tstruct, T.ttuple)):
        kids = list(t.types)
    elif isinstance(t, T.tinterval):
        kids = [t.point_type]
    return any(has_ndarray(k) for k in kids)


TYPES = []
ETYPES = []     # etype() of every catalogue entry, computed once at import of the generated module


def entry(k):
    e = TYPES[k]
    return (e[0], True) if isinstance(e, tuple) else (e, False)


def value(k, ints, floats, ks, bools, miss, lens):
    global FLOAT_MODE
    t, long = entry(k)
    FLOAT_MODE = 'real' if has_ndarray(t) else 'bits'
    J.FLOAT_HOOK = None if FLOAT_MODE == 'real' else _float_hook
    if long:
        bools = [True, False]        # long arrays: element values fixed, only length and missingness symbolic
    P = J.Pool(ints, floats, ks, bools, miss, lens, dict_missing=True)
    J.CALLS_OVERRIDE = CALLS33
    try:
        if long:
            n = 7 + P.nx('n')
            return [J.mk(t.element_type, P) for _ in range(n)]
        return J.mk(t, P, allow_missing=False)
    finally:
        J.FLOAT_HOOK = None
        J.CALLS_OVERRIDE = None


def check(k, v):
    """(round_trip_ok, layout_ok)"""
    t, _ = entry(k)
    enc = encode(t, v)
    ref = ref_encode(ETYPES[k], v, [])
    layout = len(enc) == len(ref) and all(a == b for a, b in zip(enc, ref))
    back = decode(t, enc)
    return J.eq(t, v, back), layout


def property_holds(k, *pools):
    rt, lay = check(k, value(k, *pools))
    return rt and lay


TEMPLATE = '''
def check_{K}({SIG}) -> bool:
    """
{PRE}
    post: _
    """
    return property_holds({K}, {ARGS})


def reach_{K}({SIG}) -> bool:
    """
{PRE}
    post: _
    """
    # reachability twin: must be REFUTED (some value is built and encoded to the end)
    return len(encode(entry({K})[0], value({K}, {ARGS}))) < 0
'''


def source(tier, ks):
    pre = J.PRE.format(N1MAX=1 if tier == 'quick' else 2, CMAX=len(CALLS33))
    return (f'from harness import C33_enc as H\nH.TYPES[:] = H.catalogue({tier!r})\n'
            'H.ETYPES[:] = [H.etype(H.entry(k)[0]) for k in range(len(H.TYPES))]\n'
            'property_holds = H.property_holds\nvalue = H.value\nencode = H.encode\nentry = H.entry\n'
            + '\n'.join(TEMPLATE.format(K=k, SIG=J.SIG, PRE=pre, ARGS=J.ARGS) for k in ks))
