"""CrossHair harness for C11: the real PoolScheduler._compute_fair_share (float idioms cut to integer
arithmetic by vt.floatcut, see there) on N users whose running/ready cores and the free cores are symbolic
integers.  The database is a fake object yielding the N records (the SQL itself is another property's job).
The oracle below is the water-filling definition from the property statement, written independently of the
method, in non-short-circuit boolean algebra so that CrossHair does not fork on it."""
from vt import floatcut, loader

loader.install()
import batch.driver.instance_collection.pool as poolmod  # noqa: E402

SRC = 'batch/batch/driver/instance_collection/pool.py'
QUAL = 'PoolScheduler._compute_fair_share'
PoolScheduler = poolmod.PoolScheduler

LIMITS = floatcut.Limits()
RULES = ('rdiv', 'rint', 'deasync')
_cut = None


def configure(abits, nmax):
    """Ranges admitted by the cut helpers == ranges of the FP lemmas proved by props/C11.py in this run."""
    global _cut
    LIMITS.rdiv_a_bits = abits
    LIMITS.rdiv_n_max = nmax
    LIMITS.rint_bits = abits + 2
    _cut = floatcut.cut(SRC, QUAL, poolmod, rules=RULES, limits=LIMITS)  # eagerly, at import time (outside CrossHair tracing)


def cut_result():
    global _cut
    if _cut is None:
        _cut = floatcut.cut(SRC, QUAL, poolmod, rules=RULES, limits=LIMITS)
    return _cut


class FakeDB:
    def __init__(self, recs):
        self.recs = recs

    def execute_and_fetchall(self, sql, args=None, query_name=None):
        async def gen():
            for r in self.recs:
                yield r

        return gen()


class FakePool:
    name = 'standard'


def drive(coro):
    try:
        coro.send(None)
    except StopIteration as e:
        return e.value
    raise RuntimeError('coroutine suspended')


def allocations(rs, qs, free, use_cut=True):
    """Run the method; returns the list of allocated_cores_mcpu per user (in input order)."""
    n = len(rs)
    s = PoolScheduler.__new__(PoolScheduler)
    s.pool = FakePool()
    recs = [dict(user=f'u{i}', n_ready_jobs=1, ready_cores_mcpu=qs[i], n_running_jobs=1, running_cores_mcpu=rs[i])
            for i in range(n)]
    s.db = FakeDB(recs)
    fn = PoolScheduler._compute_fair_share
    if use_cut:
        c = cut_result()
        if c.applied:
            fn = c.fn
    res = fn(s, free)
    if hasattr(res, 'send'):        # still a coroutine (uncut method, or deasync not applicable)
        res = drive(res)
    if len(res) != n:
        raise AssertionError('result does not list every user exactly once')
    return [res[f'u{i}']['allocated_cores_mcpu'] for i in range(n)]


def fair_ok(rs, qs, free, al):
    """Water-filling with rounding slack, exactly the clauses of the property statement:
    (A) 0 <= alloc_u <= ready_u;  (B) free <= 0 => nothing allocated;
    (C) sum alloc <= free + n/2;  (D) demand >= free => sum alloc >= free - n/2; demand <= free => all served;
    (E) a user left short is at the water level: nobody who got cores ends above it by more than 1."""
    n = len(rs)
    ok = True
    tot = 0
    dem = 0
    for i in range(n):
        ok = ok & (al[i] >= 0) & (al[i] <= qs[i])
        tot = tot + al[i]
        dem = dem + qs[i]
    nonpos = free <= 0
    ok = ok & ((free > 0) | (tot == 0))
    ok = ok & (nonpos | (2 * tot <= 2 * free + n))
    ok = ok & (nonpos | (dem < free) | (2 * tot >= 2 * free - n))
    ok = ok & (nonpos | (dem > free) | (tot == dem))
    for u in range(n):
        for v in range(n):
            if u != v:
                ok = ok & (nonpos | (al[u] >= qs[u]) | (al[v] <= 0) | (rs[v] + al[v] <= rs[u] + al[u] + 1))
    return ok


def property_holds(rs, qs, free, use_cut=True):
    return fair_ok(rs, qs, free, allocations(rs, qs, free, use_cut))


def some_user_short(rs, qs, free, use_cut=True):
    """Reachability twin target: the rounding branch was taken and somebody is left short."""
    al = allocations(rs, qs, free, use_cut)
    short = False
    for i in range(len(rs)):
        short = short | ((al[i] < qs[i]) & (al[i] > 0))
    return short
