"""C36 program builder: short programs over the real expression / Table / MatrixTable API (no backend), the shape
chosen by symbolic integers (vt/shapex.py choose), with the type-agreement checks run after every API call.

A program is a chain: start value, then up to K calls each consuming the previous result (second operands come from
a fixed leaf pool).  Calls the front end rejects (TypeError / ExpressionException / ...) end the program: the
property quantifies over programs the front end accepts.
"""
import logging
import types as _pytypes

from vt import loader

loader.install()
import hail as hl  # noqa: E402
from hail import ir  # noqa: E402
from hail.expr.expressions.base_expression import Expression, ExpressionException  # noqa: E402
from hail.expr.types import (tarray, tbool, tfloat32, tfloat64, tint32, tint64, tstr, tstruct, ttuple,  # noqa: E402
                             is_numeric)
from hail.utils import java as _J  # noqa: E402


class _Backend:
    """stub: error()/warning() log through Env.backend().logger; nothing else of a backend is used"""
    logger = logging.getLogger('C36')
    _references = {}


logging.getLogger('C36').addHandler(logging.NullHandler())
logging.getLogger('C36').propagate = False
if not _J.Env._hc:
    _J.Env._hc = _pytypes.SimpleNamespace(_backend=_Backend(), _default_ref=None, _warn_cols_order=False,
                                          _warn_entries_order=False)

# hail.expr.types.dtype('<type string>') needs parsimonious (absent): the stand-in PEG engine of harness/C31_peg.py runs the
# REAL grammar text and the REAL visitor; the aggregator/scan registry, filled at import time through the inert stub,
# is refilled through the real register_aggregators() so that aggregator result types are real HailTypes.
from harness import C31_peg  # noqa: E402

C31_peg.install()
from hail.ir import ir as _irmod  # noqa: E402
from hail.ir.register_aggregators import register_aggregators as _reg_aggs  # noqa: E402

_irmod._aggregator_registry.clear()
_reg_aggs()

REJECTIONS = (TypeError, ExpressionException, ValueError, KeyError, NotImplementedError, AttributeError, IndexError,
              hl.utils.java.FatalError, hl.utils.java.HailUserError, LookupError)


class Violation(Exception):
    def __init__(self, kind, msg):
        super().__init__(msg)
        self.kind = kind


# ---- leaf pool --------------------------------------------------------------------------------------------
def leaf(name):
    return {
        'i32': lambda: hl.literal(5), 'i64': lambda: hl.literal(1 << 31), 'f64': lambda: hl.literal(1.5),
        'f32': lambda: hl.float32(1.5), 'bool': lambda: hl.literal(True), 'str': lambda: hl.literal('a'),
        'ai': lambda: hl.literal([1, 2]), 'al': lambda: hl.literal([1, 1 << 31]), 'af': lambda: hl.literal([1, 2.5]),
        'aai': lambda: hl.literal([[1], [2, 3]]), 'st': lambda: hl.struct(a=1, b='x'),
        'st2': lambda: hl.literal(hl.utils.Struct(a=1 << 40, b=[1.5])), 'tp': lambda: hl.tuple([1, 'a']),
        'py_i': lambda: 3, 'py_l': lambda: 1 << 31, 'py_f': lambda: 1.5, 'py_b': lambda: True, 'py_s': lambda: 'z',
        'py_li': lambda: [1, 2], 'i32c': lambda: hl.int32(7), 'i64c': lambda: hl.int64(7), 'f64c': lambda: hl.float64(2),
        'ast': lambda: hl.literal([hl.utils.Struct(a=1, b='x')]),
    }[name]()


E_LEAVES = ['i32', 'i64', 'f64', 'f32', 'bool', 'str', 'ai', 'al', 'af', 'aai', 'st', 'st2', 'tp', 'i32c', 'ast']
OPERANDS = ['i32', 'i64', 'f64', 'f32', 'bool', 'str', 'ai', 'py_i', 'py_l', 'py_f', 'py_b', 'py_s', 'py_li', 'st']
NUM_OPERANDS = ['i32', 'i64', 'f64', 'f32', 'bool', 'py_i', 'py_l', 'py_f', 'py_b', 'ai', 'al']

PROFILES = {
    'wide': {},
    # the operations the property text names; up to 4 calls
    'core': dict(expr_ops=['arith', 'cmp', 'ifelse', 'array2', 'struct2', 'tuple2', 'map', 'filter', 'len', 'annotate',
                           'select', 'drop', 'cast', 'tostr', 'getfield', 'tindex', 'stop'],
                 leaves=['i32', 'i64', 'f64', 'bool', 'str', 'ai', 'st'],
                 operands=['i32', 'i64', 'f64', 'str', 'py_i', 'py_l', 'py_f'], arith=['add', 'mul', 'div', 'floordiv', 'rsub'],
                 cmps=['lt', 'eq'], lambdas=['inc', 'half', 'tostr', 'wrap', 'big'], preds=['eqself', 'lt'],
                 casts=['int32', 'int64', 'float', 'bool'],
                 table_ops=['annotate', 'select', 'select_expr', 'key_by', 'key_by_expr', 'filter', 'annotate_globals', 'drop',
                            'stop'],
                 row_exprs=['idx1', 'flt', 'big', 'str', 'st', 'cmp', 'lit'],
                 matrix_ops=['annotate_rows', 'annotate_cols', 'annotate_entries', 'annotate_globals', 'select_entries',
                             'key_rows_by', 'filter_rows', 'filter_entries', 'select_rows', 'stop'],
                 mexprs=['r1', 'rbig', 'rstr', 'c1', 'carr', 'e1', 'est', 'lit']),
    # few operations, up to 4 calls
    'mini': dict(expr_ops=['arith', 'cmp', 'ifelse', 'array2', 'struct2', 'map', 'len', 'annotate', 'getfield', 'stop'],
                 leaves=['i32', 'ai', 'st'], operands=['i32', 'i64', 'py_f'], arith=['add', 'div'], cmps=['lt'],
                 lambdas=['half', 'wrap'], preds=['lt'], casts=['int64'],
                 table_ops=['annotate', 'select', 'key_by', 'filter', 'annotate_globals', 'stop'],
                 row_exprs=['big', 'st', 'cmp'],
                 matrix_ops=['annotate_rows', 'annotate_entries', 'annotate_globals', 'select_entries',
                             'key_rows_by', 'filter_entries', 'stop'],
                 mexprs=['rbig', 'est'], names=['x', 'y', 'e', 'g'], gexprs=['py_l'], ns=[3], fieldidx=[-1],
                 hows=['field', 'expr']),
    # lookups (joins): Table.index / table[...] / index_globals / MatrixTable.index_rows|cols|entries / mt.rows()[...]
    # used inside annotate / select / filter (tables) and annotate_rows / annotate_cols / annotate_entries (matrix tables)
    'join': dict(joins=True, table_ops=['annotate', 'key_by', 'key_by_expr', 'filter', 'stop'], row_exprs=['big', 'st'],
                 names=['x', 'y', 'e', 'g'], ns=[3], fieldidx=[-1], hows=['field', 'expr'],
                 matrix_ops=['annotate_rows', 'annotate_entries', 'key_rows_by', 'stop'], mexprs=['rbig', 'est']),
    'joincore': dict(joins=True, table_ops=['annotate', 'key_by', 'filter', 'stop'], row_exprs=['big'],
                     names=['x', 'y', 'e', 'g'], ns=[3], fieldidx=[-1], hows=['field'],
                     matrix_ops=['annotate_rows', 'key_rows_by', 'stop'], mexprs=['rbig'],
                     jtables=['point', 'two', 'interval'], jix=['key', 'pt', 'struct', 'iv'], jproj=['whole', 'field'],
                     join_ops=['annotate_join', 'select_join', 'annotate_rows_join', 'annotate_cols_join',
                               'annotate_entries_join']),
    # re-keying (non-leading / several out-of-order / computed key fields), rename, then joins and unions
    'rekey': dict(rekey=True, wide_start=True, table_ops=['annotate', 'filter', 'stop'], row_exprs=['big'], names=['x'],
                  ns=[3], fieldidx=[-1], matrix_ops=['annotate_rows', 'stop'], mexprs=['rbig']),
}
PF = {}


def set_profile(name):
    PF.clear()
    PF.update(PROFILES[name])


def _f(key, lst):
    """restrict a choice list to the active profile (order kept)"""
    if key not in PF:
        return list(lst)
    out = [x for x in lst if x in PF[key]]
    return out or list(lst)[:1]


ARITH = {
    'add': lambda a, b: a + b, 'sub': lambda a, b: a - b, 'mul': lambda a, b: a * b, 'div': lambda a, b: a / b,
    'floordiv': lambda a, b: a // b, 'mod': lambda a, b: a % b, 'pow': lambda a, b: a ** b,
    'radd': lambda a, b: b + a, 'rsub': lambda a, b: b - a, 'rdiv': lambda a, b: b / a, 'rfloordiv': lambda a, b: b // a,
}
CMP = {'lt': lambda a, b: a < b, 'ge': lambda a, b: a >= b, 'eq': lambda a, b: a == b, 'ne': lambda a, b: a != b}
LAMBDAS = {
    'inc': lambda x: x + 1, 'half': lambda x: x * 1.5, 'tostr': lambda x: hl.str(x), 'eqself': lambda x: x == x,
    'wrap': lambda x: hl.struct(a=x), 'pair': lambda x: [x, x], 'len': lambda x: hl.len(x), 'big': lambda x: x + (1 << 31),
    'div': lambda x: x / 2, 'tup': lambda x: hl.tuple([x, 1]), 'fld': lambda x: x.a,
}
PREDS = {'true': lambda x: hl.literal(True), 'eqself': lambda x: x == x, 'lt': lambda x: x < 2}


def ops_for(e):
    """Applicable call kinds for the current expression (by its reported dtype class)."""
    t = e.dtype
    out = ['array2', 'struct2', 'tuple2', 'ifelse', 'cmp_eq', 'coalesce', 'is_missing', 'or_missing', 'bind']
    if is_numeric(t):
        out += ['arith', 'cmp', 'neg', 'cast', 'tostr', 'abs', 'maxmin']
    if t == tbool:
        out += ['cond', 'not', 'and']
    if t == tstr:
        out += ['concat', 'strlen', 'cmp']
    if isinstance(t, tarray):
        out += ['map', 'filter', 'len', 'index', 'arith', 'extend', 'slice', 'fold', 'sum', 'any', 'flatmap', 'sorted',
                'append', 'first']
    if isinstance(t, tstruct):
        out += ['annotate', 'select', 'drop', 'getfield', 'getitem', 'rename']
    if isinstance(t, ttuple):
        out += ['tindex', 'tlen']
    return out


def apply_op(op, e, choose):
    """One API call on e; second operands / sub-kinds are further symbolic choices."""
    if op == 'arith':
        f = ARITH[choose('arith', _f('arith', ARITH))]
        return f(e, leaf(choose('operand', _f('operands', NUM_OPERANDS))))
    if op == 'cmp':
        f = CMP[choose('cmp', _f('cmps', CMP))]
        return f(e, leaf(choose('operand', _f('operands', NUM_OPERANDS + ['str', 'py_s']))))
    if op == 'cmp_eq':
        return e == leaf(choose('operand', _f('operands', OPERANDS)))
    if op == 'neg':
        return -e
    if op == 'abs':
        return hl.abs(e)
    if op == 'maxmin':
        return hl.max(e, leaf(choose('operand', NUM_OPERANDS)))
    if op == 'cast':
        return {'int32': hl.int32, 'int64': hl.int64, 'float64': hl.float64, 'float32': hl.float32, 'float': hl.float,
                'int': hl.int, 'bool': hl.bool}[choose('cast', _f('casts', ['int32', 'int64', 'float64', 'float32', 'float', 'int', 'bool']))](e)
    if op == 'tostr':
        return hl.str(e)
    if op == 'ifelse':
        return hl.if_else(leaf('bool'), e, leaf(choose('operand', _f('operands', OPERANDS))))
    if op == 'cond':
        a = leaf(choose('operand', _f('operands', OPERANDS)))
        b = leaf(choose('operand2', _f('operands', OPERANDS)))
        return hl.if_else(e, a, b)
    if op == 'not':
        return ~e
    if op == 'and':
        return e & leaf(choose('operand', ['bool', 'py_b']))
    if op == 'coalesce':
        return hl.coalesce(e, leaf(choose('operand', _f('operands', OPERANDS))))
    if op == 'is_missing':
        return hl.is_missing(e)
    if op == 'or_missing':
        return hl.or_missing(leaf('bool'), e)
    if op == 'bind':
        return hl.bind(lambda v: hl.struct(x=v, y=v), e)
    if op == 'array2':
        return hl.array([e, leaf(choose('operand', _f('operands', OPERANDS)))])
    if op == 'struct2':
        return hl.struct(a=e, b=leaf(choose('operand', _f('operands', OPERANDS))))
    if op == 'tuple2':
        return hl.tuple([e, leaf(choose('operand', _f('operands', OPERANDS)))])
    if op == 'concat':
        return e + leaf(choose('operand', ['str', 'py_s']))
    if op == 'strlen':
        return hl.len(e)
    if op == 'map':
        return e.map(LAMBDAS[choose('lambda', _f('lambdas', LAMBDAS))])
    if op == 'flatmap':
        return e.flatmap(LAMBDAS[choose('lambda', ['pair', 'wrap', 'inc'])])
    if op == 'filter':
        return e.filter(PREDS[choose('pred', _f('preds', PREDS))])
    if op == 'any':
        return hl.any(PREDS[choose('pred', list(PREDS))], e)
    if op == 'len':
        return hl.len(e)
    if op == 'index':
        return e[leaf(choose('operand', ['i32', 'py_i', 'i64']))]
    if op == 'first':
        return e.first()
    if op == 'slice':
        return e[0:1]
    if op == 'extend':
        return e.extend(leaf(choose('operand', ['ai', 'al', 'af', 'aai', 'py_li'])))
    if op == 'append':
        return e.append(leaf(choose('operand', _f('operands', OPERANDS))))
    if op == 'fold':
        return hl.fold(lambda acc, x: acc + x, leaf(choose('operand', ['i32', 'py_i', 'f64', 'i64', 'str'])), e)
    if op == 'sum':
        return hl.sum(e)
    if op == 'sorted':
        return hl.sorted(e)
    if op == 'annotate':
        which = choose('field', ['c', 'a'])
        return e.annotate(**{which: leaf(choose('operand', _f('operands', OPERANDS)))})
    if op == 'select':
        return e.select(list(e.dtype)[0])
    if op == 'drop':
        return e.drop(list(e.dtype)[0])
    if op == 'rename':
        return e.rename({list(e.dtype)[0]: 'zz'})
    if op == 'getfield':
        return getattr(e, list(e.dtype)[choose('fieldidx', _f('fieldidx', [0, -1]))])
    if op == 'getitem':
        return e[list(e.dtype)[-1]]
    if op == 'tindex':
        return e[choose('tidx', [0, 1])]
    if op == 'tlen':
        return hl.len(e)
    raise ValueError(op)


# ---- the checks ---------------------------------------------------------------------------------------------
def _site(exc):
    import traceback
    fr = traceback.extract_tb(exc.__traceback__)
    own = [f for f in fr if '/hail/' in f.filename]
    f = (own or fr)[-1]
    return f'{f.filename.split("/")[-1]}:{f.lineno} {f.name}: {f.line}'


class _fresh_toplevel_refs:
    """Deep recomputation context.  A `Ref row|global|va|sa|g` object (TopLevelReference) is shared by every expression
    of a table and caches the row type it had when the table was made; when a lookup (Join) is resolved the same object
    is re-used under a join node whose row has an extra uid field, so its *cache* is stale by construction while the
    text `(Ref row)` carries no type at all.  The cache of these reference nodes is therefore not part of the claim: it
    is cleared for the duration of the deep recomputation (so the reference takes its type from the environment, as
    the engine does) and restored afterwards.  Every other node keeps its cached type and is compared."""

    def __init__(self, root):
        self.saved = []
        seen = set()
        stack = [root]
        while stack:
            n = stack.pop()
            if id(n) in seen or not isinstance(n, ir.BaseIR):
                continue
            seen.add(id(n))
            if isinstance(n, ir.TopLevelReference):
                self.saved.append((n, n._type))
            stack.extend(c for c in n.children if isinstance(c, ir.BaseIR))

    def __enter__(self):
        # the same reference object is visited under several environments within ONE deep pass (below and above the
        # join node), so clearing the cache once is not enough: for reference nodes only, IR.compute_type's
        # cache comparison is switched off (their type is whatever the environment says at each visit)
        def compute_type(node, env, agg_env, deep_typecheck):
            node._type = node._compute_type(env, agg_env, deep_typecheck)
        self._orig = ir.TopLevelReference.__dict__.get('compute_type')
        ir.TopLevelReference.compute_type = compute_type
        for n, _ in self.saved:
            n._type = None

    def __exit__(self, *exc):
        if self._orig is None:
            del ir.TopLevelReference.compute_type
        else:
            ir.TopLevelReference.compute_type = self._orig
        for n, t in self.saved:
            n._type = t
        return False


def check_expr(e, env=None, text_check=None):
    """The front end's reported type agrees with the type implied by the IR it holds."""
    if not isinstance(e, Expression):
        raise Violation('not-an-expression', f'API returned {type(e).__name__}')
    x = e._ir
    if e.dtype != x.typ:
        raise Violation('dtype-vs-ir-typ', f'dtype {e.dtype} but _ir.typ {x.typ}: {x}')
    try:
        with _fresh_toplevel_refs(x):
            x.compute_type(dict(env or {}), None, deep_typecheck=True)
    except AssertionError as a:
        raise Violation('ir-deep-typecheck', f'deep recomputation of IR types fails ({a}) at {_site(a)} for {x}')
    if e.dtype != x.typ:
        raise Violation('dtype-vs-ir-typ', f'dtype {e.dtype} but recomputed _ir.typ {x.typ}: {x}')
    if text_check is not None:
        text_check(e, env)


def check_table(t, text_check=None):
    tt = t._tir.typ
    if t.row.dtype != tt.row_type:
        raise Violation('table-row-type', f'row.dtype {t.row.dtype} but TableType row {tt.row_type}')
    if t.globals.dtype != tt.global_type:
        raise Violation('table-global-type', f'globals.dtype {t.globals.dtype} but TableType global {tt.global_type}')
    if list(t.key) != list(tt.row_key):
        raise Violation('table-key', f'key fields {list(t.key)} but TableType key {list(tt.row_key)}')
    if t.key.dtype != tt.key_type:
        raise Violation('table-key-type', f'key.dtype {t.key.dtype} but TableType key_type {tt.key_type}')
    try:
        with _fresh_toplevel_refs(t._tir):
            t._tir.compute_type(deep_typecheck=True)
    except AssertionError as a:
        raise Violation('tir-deep-typecheck', f'deep recomputation of TableIR types fails ({a}) at {_site(a)}')
    tt = t._tir.typ
    if t.row.dtype != tt.row_type or t.globals.dtype != tt.global_type or list(t.key) != list(tt.row_key):
        raise Violation('table-type-after-recompute', f'{t.row.dtype} / {t.globals.dtype} vs {tt}')
    for name in t.row:
        f = t[name]
        if f.dtype != tt.row_type[name]:
            raise Violation('table-field-type', f'field {name}: {f.dtype} vs {tt.row_type[name]}')
    if text_check is not None:
        text_check(t, None)


def check_matrix(mt, text_check=None):
    mtyp = mt._mir.typ
    pairs = [('row', mt.row.dtype, mtyp.row_type), ('col', mt.col.dtype, mtyp.col_type),
             ('entry', mt.entry.dtype, mtyp.entry_type), ('globals', mt.globals.dtype, mtyp.global_type),
             ('row_key', list(mt.row_key), list(mtyp.row_key)), ('col_key', list(mt.col_key), list(mtyp.col_key)),
             ('row_key_type', mt.row_key.dtype, mtyp.row_key_type), ('col_key_type', mt.col_key.dtype, mtyp.col_key_type)]
    for what, a, b in pairs:
        if a != b:
            raise Violation(f'matrix-{what}', f'{what}: front end {a} but MatrixType {b}')
    try:
        with _fresh_toplevel_refs(mt._mir):
            mt._mir.compute_type(deep_typecheck=True)
    except AssertionError as a:
        raise Violation('mir-deep-typecheck', f'deep recomputation of MatrixIR types fails ({a}) at {_site(a)}')
    mtyp = mt._mir.typ
    for what, a, b in [('row', mt.row.dtype, mtyp.row_type), ('col', mt.col.dtype, mtyp.col_type),
                       ('entry', mt.entry.dtype, mtyp.entry_type), ('globals', mt.globals.dtype, mtyp.global_type)]:
        if a != b:
            raise Violation(f'matrix-{what}-after-recompute', f'{what}: front end {a} but MatrixType {b}')
    if text_check is not None:
        text_check(mt, None)


# ---- expression programs ----------------------------------------------------------------------------------
def run_expr_program(choose, k, text_check=None):
    """Returns (trace, status) where status in 'done' | 'rejected'.  Raises Violation."""
    trace = []
    name = choose('leaf', _f('leaves', E_LEAVES))
    e = leaf(name)
    trace.append(('leaf', name, str(e.dtype)))
    check_expr(e, text_check=text_check)
    for step in range(k):
        ops = _f('expr_ops', ops_for(e) + ['stop'])
        op = choose(f'op{step}', ops)
        if op == 'stop':
            break
        sub = []

        def ch(what, opts, _sub=sub, _step=step):
            o = choose(f'{what}{_step}', opts)
            _sub.append(o if isinstance(o, (str, int)) else repr(o))
            return o
        try:
            e = apply_op(op, e, ch)
        except REJECTIONS as ex:
            trace.append((op, tuple(sub), f'rejected:{type(ex).__name__}'))
            return trace, 'rejected'
        trace.append((op, tuple(sub), str(getattr(e, 'dtype', '?'))))
        check_expr(e, text_check=text_check)
    return trace, 'done'


# ---- lookups (joins) --------------------------------------------------------------------------------------
def _values():
    r = hl.utils.range_table(10)
    return r.annotate(v=r.idx * 2, w='x')


def _int32_of(e):
    """an int32 expression with the same indices as e, whatever e's type"""
    if e.dtype == tint32:
        return e
    if is_numeric(e.dtype):
        return hl.int32(e)
    return hl.len(hl.str(e))


JTABLES = ['point', 'two', 'interval', 'interval2', 'strkey', 'mtrows', 'idxrows', 'idxcols', 'idxentries', 'globals']
JIX = ['key', 'pt', 'two', 'struct', 'tuple', 'iv', 'i64', 'str']
JPROJ = ['whole', 'field', 'len']
JOIN_TABLE_OPS = ['annotate_join', 'select_join', 'filter_join', 'annotate_globals_join']
JOIN_MATRIX_OPS = ['annotate_rows_join', 'annotate_cols_join', 'annotate_entries_join', 'filter_rows_join']


def make_lookup(choose, key_expr):
    """A lookup expression indexed like `key_expr` (a field of the table / matrix table being annotated)."""
    kind = choose('jtable', _f('jtables', JTABLES))
    base = _int32_of(key_expr)
    if kind == 'globals':
        g = _values().annotate_globals(gg=hl.literal([1, 1 << 31]), hh=1.5).index_globals()
        return g if choose('jproj', _f('jproj', JPROJ)) == 'whole' else g.gg
    ix = choose('jix', _f('jix', JIX))
    exprs = {'key': lambda: (key_expr,), 'pt': lambda: (base + 1,), 'two': lambda: (key_expr, base * 2),
             'struct': lambda: (hl.struct(a=base, b=base * 2),), 'tuple': lambda: (hl.tuple([base, base * 2]),),
             'iv': lambda: (hl.interval(base, base + 3),), 'i64': lambda: (hl.int64(base),),
             'str': lambda: (hl.str(base),)}[ix]()
    if kind in ('idxrows', 'idxcols', 'idxentries'):
        mt = hl.utils.range_matrix_table(4, 3)
        mt = mt.annotate_rows(q=mt.row_idx * 1.5).annotate_cols(c=hl.str(mt.col_idx)).annotate_entries(e=mt.row_idx + mt.col_idx)
        e = {'idxrows': mt.index_rows, 'idxcols': mt.index_cols, 'idxentries': mt.index_entries}[kind](*exprs)
    else:
        v = _values()
        if kind == 'two':
            v = v.key_by('idx', 'v')
        elif kind == 'interval':
            v = v.key_by(iv=hl.interval(v.idx, v.idx + 3)).drop('idx')
        elif kind == 'interval2':
            v = v.key_by(iv=hl.interval(v.idx, v.idx + 3), k2=v.v).drop('idx')
        elif kind == 'strkey':
            v = v.key_by(s=hl.str(v.idx))
        elif kind == 'mtrows':
            mt = hl.utils.range_matrix_table(4, 3)
            v = mt.annotate_rows(v=mt.row_idx * 2, w=[mt.row_idx]).rows()
        how = choose('jhow', _f('jhow', ['getitem', 'index', 'all']))
        if how == 'getitem':
            e = v[exprs if len(exprs) > 1 else exprs[0]]
        else:
            e = v.index(*exprs, all_matches=(how == 'all'))
    proj = choose('jproj', _f('jproj', JPROJ))
    if proj == 'field':
        return e[list(e.dtype)[0]] if isinstance(e.dtype, tstruct) else e[list(e.dtype.element_type)[0]]
    if proj == 'len':
        return hl.len(e) if isinstance(e.dtype, tarray) else hl.is_defined(e)
    return e


def apply_table_join_op(op, t, choose):
    key_expr = list(t.key.values())[0] if len(t.key) > 0 else t[list(t.row)[0]]
    look = make_lookup(choose, key_expr)
    if op == 'annotate_join':
        return t.annotate(m=look)
    if op == 'select_join':
        return t.select(m=look)
    if op == 'filter_join':
        return t.filter(hl.is_defined(look))
    if op == 'annotate_globals_join':
        # only scalar / global expressions are legal here: a row-indexed lookup must be rejected by the front end
        return t.annotate_globals(gm=look)
    raise ValueError(op)


def apply_matrix_join_op(op, mt, choose):
    rk = list(mt.row_key.values())[0] if len(mt.row_key) > 0 else mt[list(mt.row)[0]]
    ck = list(mt.col_key.values())[0] if len(mt.col_key) > 0 else mt[list(mt.col)[0]]
    if op == 'annotate_rows_join':
        return mt.annotate_rows(m=make_lookup(choose, rk))
    if op == 'annotate_cols_join':
        return mt.annotate_cols(m=make_lookup(choose, ck))
    if op == 'annotate_entries_join':
        axis = choose('jaxis', ['row', 'col'])
        return mt.annotate_entries(m=make_lookup(choose, rk if axis == 'row' else ck))
    if op == 'filter_rows_join':
        return mt.filter_rows(hl.is_defined(make_lookup(choose, rk)))
    raise ValueError(op)


# ---- re-keying, joins between tables, unions ------------------------------------------------------------------
REKEY_TABLE_OPS = ['key_by_fields', 'key_by_computed', 'rename_fields', 'join', 'semi_join', 'anti_join', 'union']
REKEY_MATRIX_OPS = ['key_rows_by_fields', 'key_cols_by_fields', 'union_cols', 'rename_rows', 'rows', 'cols', 'entries']
KEY_LISTS = [['b'], ['a'], ['b', 'idx'], ['a', 'b'], ['b', 'a', 'idx'], ['idx', 'b'], []]


def _wide_table(n=3):
    r = hl.utils.range_table(n)
    return r.annotate(a=r.idx * 2, b=hl.str(r.idx))


def _wide_matrix():
    mt = hl.utils.range_matrix_table(2, 2)
    mt = mt.annotate_rows(a=mt.row_idx * 2, b=hl.str(mt.row_idx))
    mt = mt.annotate_cols(ca=mt.col_idx * 2, cb=hl.str(mt.col_idx))
    return mt.annotate_entries(e=mt.row_idx + mt.col_idx)


def _right_for(t, variant):
    """a second table whose key has the same types as t's key (same base pipeline, one more value field)"""
    r = _wide_table(4)
    r = r.annotate(x=r.idx * 1.5)
    keys = list(t.key)
    src = {'kk': 'b', 'k': 'a'}
    r = r.key_by(*[src.get(k, k) for k in keys])      # renamed / computed keys of t map back to base fields
    if variant == 'renamed':
        r = r.rename({f: f + '_r' for f in r.row})
    elif variant == 'extra_key':
        r = r.key_by(*list(r.key), 'x')
    elif variant == 'no_value':
        r = r.select()
    return r


def apply_rekey_table_op(op, t, choose):
    names = list(t.row)
    if op == 'key_by_fields':
        ks = choose('keylist', KEY_LISTS)
        return t.key_by(*ks)
    if op == 'key_by_computed':
        how = choose('ckey', ['expr_only', 'expr_then_field', 'field_then_expr'])
        e = t[names[0]] if names else None
        if how == 'expr_only':
            return t.key_by(k=_int32_of(e) * 2)
        if how == 'expr_then_field':
            return t.key_by(k=_int32_of(e) * 2, kk=t[names[-1]])
        return t.key_by(names[-1], k=_int32_of(e) * 2)
    if op == 'rename_fields':
        which = choose('rename', ['key', 'value', 'both'])
        m = {}
        if which in ('key', 'both') and len(t.key) > 0:
            m[list(t.key)[0]] = 'kk'
        if which in ('value', 'both'):
            vals = [n for n in names if n not in t.key]
            if vals:
                m[vals[-1]] = 'vv'
        return t.rename(m)
    if op == 'join':
        return t.join(_right_for(t, choose('right', ['same', 'renamed', 'extra_key', 'no_value'])),
                      how=choose('how', ['inner', 'left', 'right', 'outer']))
    if op == 'semi_join':
        return t.semi_join(_right_for(t, choose('right', ['same', 'renamed'])))
    if op == 'anti_join':
        return t.anti_join(_right_for(t, choose('right', ['same', 'renamed'])))
    if op == 'union':
        other = choose('other', ['self', 'filtered', 'rekeyed_same', 'fresh'])
        if other == 'self':
            return t.union(t)
        if other == 'filtered':
            return t.union(t.filter(hl.is_defined(t[names[0]])))
        if other == 'rekeyed_same':
            return t.union(t.key_by(*list(t.key)))
        return t.union(_wide_table(2).key_by(*[k for k in t.key]), unify=choose('unify', [False, True]))
    raise ValueError(op)


def apply_rekey_matrix_op(op, mt, choose):
    if op == 'key_rows_by_fields':
        ks = choose('keylist', [['b'], ['b', 'row_idx'], ['a', 'b'], ['row_idx', 'b'], []])
        return mt.key_rows_by(*ks)
    if op == 'key_cols_by_fields':
        ks = choose('keylist', [['cb'], ['cb', 'col_idx'], ['ca', 'cb'], []])
        return mt.key_cols_by(*ks)
    if op == 'rename_rows':
        return mt.rename({list(mt.row_key)[0] if len(mt.row_key) else list(mt.row)[-1]: 'kk'})
    if op == 'union_cols':
        other = _wide_matrix()
        variant = choose('right', ['same', 'extra_row_field'])
        if variant == 'extra_row_field':
            other = other.annotate_rows(z=other.row_idx * 1.5)
        src = {'kk': 'b'}
        other = other.key_rows_by(*[src.get(k, k) for k in mt.row_key])
        return mt.union_cols(other, row_join_type=choose('how', ['inner', 'outer']),
                             drop_right_row_fields=choose('drop', [True, False]))
    if op in ('rows', 'cols', 'entries'):
        return getattr(mt, op)()
    raise ValueError(op)


def _table_ops():
    return _f('table_ops', TABLE_OPS) + (_f('join_ops', JOIN_TABLE_OPS) if PF.get('joins') else []) + \
        (_f('rekey_ops', REKEY_TABLE_OPS) if PF.get('rekey') else [])


def _matrix_ops():
    return _f('matrix_ops', MATRIX_OPS) + (_f('join_ops', JOIN_MATRIX_OPS) if PF.get('joins') else []) + \
        (_f('rekey_ops', REKEY_MATRIX_OPS) if PF.get('rekey') else [])


# ---- table programs ---------------------------------------------------------------------------------------
def row_exprs(t):
    """Candidate row-indexed expressions over the current table (built lazily; may be rejected)."""
    first = list(t.row)[0]
    last = list(t.row)[-1]
    return {
        'idx1': lambda: t[first] + 1 if is_numeric(t[first].dtype) else hl.len(hl.str(t[first])),
        'flt': lambda: t[last] * 1.5, 'big': lambda: t[first] + (1 << 31), 'str': lambda: hl.str(t[last]),
        'cmp': lambda: t[first] == t[first], 'st': lambda: hl.struct(a=t[last], b=[t[first]]),
        'arr': lambda: [t[first], 2], 'lit': lambda: hl.literal([1, 1 << 31]), 'py': lambda: 2.5,
        'glob': lambda: hl.len(t.globals) + 0, 'cond': lambda: hl.if_else(t[first] == t[first], t[last], t[last]),
        'map': lambda: hl.range(3).map(lambda i: i + t[first]), 'row': lambda: t.row, 'key': lambda: t.key,
    }


TABLE_OPS = ['annotate', 'annotate2', 'select', 'select_expr', 'key_by', 'key_by_expr', 'key_by_none', 'filter', 'drop',
             'annotate_globals', 'select_globals', 'transmute', 'rename', 'add_index', 'distinct', 'head', 'union',
             'explode', 'order_by', 'stop']


def apply_table_op(op, t, choose):
    if op in JOIN_TABLE_OPS:
        return apply_table_join_op(op, t, choose)
    if op in REKEY_TABLE_OPS:
        return apply_rekey_table_op(op, t, choose)
    rx = row_exprs(t)
    names = list(t.row)
    if op == 'annotate':
        nm = choose('name', _f('names', ['x', names[-1]]))
        return t.annotate(**{nm: rx[choose('expr', _f('row_exprs', rx))]()})
    if op == 'annotate2':
        return t.annotate(u=rx[choose('expr', _f('row_exprs', rx))](), v=rx[choose('expr2', ['flt', 'str', 'lit'])]())
    if op == 'select':
        return t.select(names[choose('fieldidx', _f('fieldidx', [0, -1]))])
    if op == 'select_expr':
        return t.select(w=rx[choose('expr', _f('row_exprs', rx))]())
    if op == 'key_by':
        return t.key_by(names[choose('fieldidx', _f('fieldidx', [0, -1]))])
    if op == 'key_by_expr':
        return t.key_by(k=rx[choose('expr', ['idx1', 'big', 'str', 'st', 'flt'])]())
    if op == 'key_by_none':
        return t.key_by()
    if op == 'filter':
        return t.filter(rx[choose('expr', ['cmp', 'idx1', 'str'])]())
    if op == 'drop':
        return t.drop(names[choose('fieldidx', _f('fieldidx', [0, -1]))])
    if op == 'annotate_globals':
        g = choose('gexpr', _f('gexprs', ['py_i', 'py_l', 'ai', 'st', 'f64']))
        return t.annotate_globals(**{choose('gname', _f('names', ['g', 'h'])): leaf(g)})
    if op == 'select_globals':
        return t.select_globals()
    if op == 'transmute':
        return t.transmute(tr=rx[choose('expr', ['idx1', 'flt', 'str', 'st'])]())
    if op == 'rename':
        return t.rename({names[-1]: 'renamed'})
    if op == 'add_index':
        return t.add_index('ix')
    if op == 'distinct':
        return t.distinct()
    if op == 'head':
        return t.head(2)
    if op == 'union':
        return t.union(t)
    if op == 'explode':
        return t.annotate(ex=rx['arr']()).explode('ex')
    if op == 'order_by':
        return t.order_by(names[-1])
    raise ValueError(op)


def run_table_program(choose, k, text_check=None):
    trace = []
    if PF.get('wide_start'):
        t = _wide_table(3)           # row (idx, a: int32, b: str), key idx
    else:
        t = hl.utils.range_table(choose('n', _f('ns', [0, 3])))
    trace.append(('range_table', (), str(t.row.dtype)))
    check_table(t, text_check)
    for step in range(k):
        op = choose(f'op{step}', _table_ops())
        if op == 'stop':
            break
        sub = []

        def ch(what, opts, _sub=sub, _step=step):
            o = choose(f'{what}{_step}', opts)
            _sub.append(o)
            return o
        try:
            t = apply_table_op(op, t, ch)
        except REJECTIONS as ex:
            trace.append((op, tuple(sub), f'rejected:{type(ex).__name__}'))
            return trace, 'rejected'
        trace.append((op, tuple(sub), f'{t.row.dtype} key={list(t.key)} globals={t.globals.dtype}'))
        check_table(t, text_check)
    return trace, 'done'


# ---- matrix table programs --------------------------------------------------------------------------------
MATRIX_OPS = ['annotate_rows', 'annotate_cols', 'annotate_entries', 'annotate_globals', 'select_rows', 'select_cols',
              'select_entries', 'key_rows_by', 'key_cols_by', 'filter_rows', 'filter_cols', 'filter_entries', 'drop',
              'transmute_entries', 'rows', 'cols', 'entries', 'rename', 'add_row_index', 'stop']


def mexprs(mt, axis):
    r, c = list(mt.row)[0], list(mt.col)[0]
    d = {
        'r1': lambda: mt[r] + 1, 'rbig': lambda: mt[r] + (1 << 31), 'rstr': lambda: hl.str(mt[r]),
        'c1': lambda: mt[c] * 1.5, 'cstr': lambda: hl.str(mt[c]), 'carr': lambda: [mt[c]],
        'e1': lambda: mt[r] + mt[c] * 1.5, 'est': lambda: hl.struct(a=mt[r], b=hl.str(mt[c])), 'py': lambda: 2,
        'cmp_r': lambda: mt[r] == mt[r], 'cmp_c': lambda: mt[c] == mt[c], 'cmp_e': lambda: mt[r] == mt[c],
        'lit': lambda: hl.literal([1, 1 << 31]),
    }
    allowed = {'row': ['r1', 'rbig', 'rstr', 'py', 'lit', 'c1'], 'col': ['c1', 'cstr', 'carr', 'py', 'lit', 'r1'],
               'entry': ['e1', 'est', 'r1', 'c1', 'py', 'lit']}[axis]
    return {k: d[k] for k in allowed}


def apply_matrix_op(op, mt, choose):
    if op in JOIN_MATRIX_OPS:
        return apply_matrix_join_op(op, mt, choose)
    if op in REKEY_MATRIX_OPS:
        return apply_rekey_matrix_op(op, mt, choose)
    if op == 'annotate_rows':
        ex = mexprs(mt, 'row')
        return mt.annotate_rows(**{choose('name', _f('names', ['x', list(mt.row)[-1]])): ex[choose('expr', _f('mexprs', ex))]()})
    if op == 'annotate_cols':
        ex = mexprs(mt, 'col')
        return mt.annotate_cols(**{choose('name', _f('names', ['y', list(mt.col)[-1]])): ex[choose('expr', _f('mexprs', ex))]()})
    if op == 'annotate_entries':
        ex = mexprs(mt, 'entry')
        return mt.annotate_entries(**{choose('name', _f('names', ['e', 'f'])): ex[choose('expr', _f('mexprs', ex))]()})
    if op == 'annotate_globals':
        return mt.annotate_globals(g=leaf(choose('gexpr', _f('gexprs', ['py_i', 'py_l', 'ai', 'st']))))
    if op == 'select_rows':
        return mt.select_rows(list(mt.row)[-1])
    if op == 'select_cols':
        return mt.select_cols(list(mt.col)[-1])
    if op == 'select_entries':
        ex = mexprs(mt, 'entry')
        return mt.select_entries(z=ex[choose('expr', _f('mexprs', ex))]())
    if op == 'key_rows_by':
        which = choose('how', _f('hows', ['field', 'expr', 'none']))
        if which == 'field':
            return mt.key_rows_by(list(mt.row)[-1])
        if which == 'none':
            return mt.key_rows_by()
        return mt.key_rows_by(k=mexprs(mt, 'row')[choose('expr', ['rbig', 'rstr'])]())
    if op == 'key_cols_by':
        which = choose('how', _f('hows', ['field', 'expr', 'none']))
        if which == 'field':
            return mt.key_cols_by(list(mt.col)[-1])
        if which == 'none':
            return mt.key_cols_by()
        return mt.key_cols_by(k=mexprs(mt, 'col')[choose('expr', ['c1', 'cstr'])]())
    if op == 'filter_rows':
        return mt.filter_rows(mt[list(mt.row)[0]] == mt[list(mt.row)[0]])
    if op == 'filter_cols':
        return mt.filter_cols(mt[list(mt.col)[0]] == mt[list(mt.col)[0]])
    if op == 'filter_entries':
        return mt.filter_entries(mt[list(mt.row)[0]] == mt[list(mt.col)[0]])
    if op == 'drop':
        pool = list(mt.row) + list(mt.col) + list(mt.entry) + list(mt.globals)
        return mt.drop(pool[choose('fieldidx', _f('fieldidx', [0, -1, 1]))])
    if op == 'transmute_entries':
        ex = mexprs(mt, 'entry')
        return mt.transmute_entries(t=ex[choose('expr', _f('mexprs', ex))]())
    if op == 'rename':
        return mt.rename({list(mt.row)[-1]: 'rr', list(mt.col)[-1]: 'cc'})
    if op == 'add_row_index':
        return mt.add_row_index('ri')
    if op in ('rows', 'cols', 'entries'):
        return getattr(mt, op)()
    raise ValueError(op)


def run_matrix_program(choose, k, text_check=None):
    trace = []
    mt = _wide_matrix() if PF.get('wide_start') else hl.utils.range_matrix_table(2, 2)
    trace.append(('range_matrix_table', (), str(mt.entry.dtype)))
    check_matrix(mt, text_check)
    cur = mt
    for step in range(k):
        if not isinstance(cur, hl.MatrixTable):
            ops = _table_ops()
        else:
            ops = _matrix_ops()
        op = choose(f'op{step}', ops)
        if op == 'stop':
            break
        sub = []

        def ch(what, opts, _sub=sub, _step=step):
            o = choose(f'{what}{_step}', opts)
            _sub.append(o)
            return o
        try:
            cur = apply_matrix_op(op, cur, ch) if isinstance(cur, hl.MatrixTable) else apply_table_op(op, cur, ch)
        except REJECTIONS as ex:
            trace.append((op, tuple(sub), f'rejected:{type(ex).__name__}'))
            return trace, 'rejected'
        if isinstance(cur, hl.MatrixTable):
            trace.append((op, tuple(sub), f'row={cur.row.dtype} col={cur.col.dtype} entry={cur.entry.dtype}'))
            check_matrix(cur, text_check)
        else:
            trace.append((op, tuple(sub), f'{cur.row.dtype} key={list(cur.key)}'))
            check_table(cur, text_check)
    return trace, 'done'


RUNNERS = {'expr': run_expr_program, 'table': run_table_program, 'matrix': run_matrix_program}
