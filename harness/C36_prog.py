"""C36 program builder: short programs over the real expression / Table / MatrixTable API (no backend), the shape
chosen by symbolic integers (vt/shapex.py choose), with the type-agreement checks run after every API call.

A program is a chain: start value, then up to K calls each consuming the previous result (second operands come from
a fixed leaf pool).  Calls the front end rejects (TypeError / ExpressionException / ...) end the program: the
property quantifies over programs the front end accepts.
"""
import logging
import types as _pytypes

from vt import loader

loader.install()
import hail as hl  # noqa: E402
from hail import ir  # noqa: E402
from hail.expr.expressions.base_expression import Expression, ExpressionException  # noqa: E402
from hail.expr.types import (tarray, tbool, tfloat32, tfloat64, tint32, tint64, tstr, tstruct, ttuple,  # noqa: E402
                             is_numeric)
from hail.utils import java as _J  # noqa: E402


class _Backend:
    """stub: error()/warning() log through Env.backend().logger; nothing else of a backend is used"""
    logger = logging.getLogger('C36')
    _references = {}


logging.getLogger('C36').addHandler(logging.NullHandler())
logging.getLogger('C36').propagate = False
if not _J.Env._hc:
    _J.Env._hc = _pytypes.SimpleNamespace(_backend=_Backend(), _default_ref=None, _warn_cols_order=False,
                                          _warn_entries_order=False)

# hail.expr.types.dtype('<type string>') needs parsimonious (absent): the stand-in PEG engine of harness/C31_peg.py runs the
# REAL grammar text and the REAL visitor; the aggregator/scan registry, filled at import time through the inert stub,
# is refilled through the real register_aggregators() so that aggregator result types are real HailTypes.
from harness import C31_peg  # noqa: E402

C31_peg.install()
from hail.ir import ir as _irmod  # noqa: E402
from hail.ir.register_aggregators import register_aggregators as _reg_aggs  # noqa: E402

_irmod._aggregator_registry.clear()
_reg_aggs()

REJECTIONS = (TypeError, ExpressionException, ValueError, KeyError, NotImplementedError, AttributeError, IndexError,
              hl.utils.java.FatalError, hl.utils.java.HailUserError, LookupError)


class Violation(Exception):
    def __init__(self, kind, msg):
        super().__init__(msg)
        self.kind = kind


# ---- leaf pool --------------------------------------------------------------------------------------------
def leaf(name):
    return {
        'i32': lambda: hl.literal(5), 'i64': lambda: hl.literal(1 << 31), 'f64': lambda: hl.literal(1.5),
        'f32': lambda: hl.float32(1.5), 'bool': lambda: hl.literal(True), 'str': lambda: hl.literal('a'),
        'ai': lambda: hl.literal([1, 2]), 'al': lambda: hl.literal([1, 1 << 31]), 'af': lambda: hl.literal([1, 2.5]),
        'aai': lambda: hl.literal([[1], [2, 3]]), 'st': lambda: hl.struct(a=1, b='x'),
        'st2': lambda: hl.literal(hl.utils.Struct(a=1 << 40, b=[1.5])), 'tp': lambda: hl.tuple([1, 'a']),
        'py_i': lambda: 3, 'py_l': lambda: 1 << 31, 'py_f': lambda: 1.5, 'py_b': lambda: True, 'py_s': lambda: 'z',
        'py_li': lambda: [1, 2], 'i32c': lambda: hl.int32(7), 'i64c': lambda: hl.int64(7), 'f64c': lambda: hl.float64(2),
        'ast': lambda: hl.literal([hl.utils.Struct(a=1, b='x')]),
    }[name]()


E_LEAVES = ['i32', 'i64', 'f64', 'f32', 'bool', 'str', 'ai', 'al', 'af', 'aai', 'st', 'st2', 'tp', 'i32c', 'ast']
OPERANDS = ['i32', 'i64', 'f64', 'f32', 'bool', 'str', 'ai', 'py_i', 'py_l', 'py_f', 'py_b', 'py_s', 'py_li', 'st']
NUM_OPERANDS = ['i32', 'i64', 'f64', 'f32', 'bool', 'py_i', 'py_l', 'py_f', 'py_b', 'ai', 'al']

PROFILES = {
    'wide': {},
    # the operations the property text names; up to 4 calls
    'core': dict(expr_ops=['arith', 'cmp', 'ifelse', 'array2', 'struct2', 'tuple2', 'map', 'filter', 'len', 'annotate',
                           'select', 'drop', 'cast', 'tostr', 'getfield', 'tindex', 'stop'],
                 leaves=['i32', 'i64', 'f64', 'bool', 'str', 'ai', 'st'],
                 operands=['i32', 'i64', 'f64', 'str', 'py_i', 'py_l', 'py_f'], arith=['add', 'mul', 'div', 'floordiv', 'rsub'],
                 cmps=['lt', 'eq'], lambdas=['inc', 'half', 'tostr', 'wrap', 'big'], preds=['eqself', 'lt'],
                 casts=['int32', 'int64', 'float', 'bool'],
                 table_ops=['annotate', 'select', 'select_expr', 'key_by', 'key_by_expr', 'filter', 'annotate_globals', 'drop',
                            'stop'],
                 row_exprs=['idx1', 'flt', 'big', 'str', 'st', 'cmp', 'lit'],
                 matrix_ops=['annotate_rows', 'annotate_cols', 'annotate_entries', 'annotate_globals', 'select_entries',
                             'key_rows_by', 'filter_rows', 'filter_entries', 'select_rows', 'stop'],
                 mexprs=['r1', 'rbig', 'rstr', 'c1', 'carr', 'e1', 'est', 'lit']),
    # few operations, up to 4 calls
    'mini': dict(expr_ops=['arith', 'cmp', 'ifelse', 'array2', 'struct2', 'map', 'len', 'annotate', 'getfield', 'stop'],
                 leaves=['i32', 'ai', 'st'], operands=['i32', 'i64', 'py_f'], arith=['add', 'div'], cmps=['lt'],
                 lambdas=['half', 'wrap'], preds=['lt'], casts=['int64'],
                 table_ops=['annotate', 'select', 'key_by', 'filter', 'annotate_globals', 'stop'],
                 row_exprs=['big', 'st', 'cmp'],
                 matrix_ops=['annotate_rows', 'annotate_entries', 'annotate_globals', 'select_entries',
                             'key_rows_by', 'filter_entries', 'stop'],
                 mexprs=['rbig', 'est'], names=['x', 'y', 'e', 'g'], gexprs=['py_l'], ns=[3], fieldidx=[-1],
                 hows=['field', 'expr']),
}
PF = {}


def set_profile(name):
    PF.clear()
    PF.update(PROFILES[name])


def _f(key, lst):
    """restrict a choice list to the active profile (order kept)"""
    if key not in PF:
        return list(lst)
    out = [x for x in lst if x in PF[key]]
    return out or list(lst)[:1]


ARITH = {
    'add': lambda a, b: a + b, 'sub': lambda a, b: a - b, 'mul': lambda a, b: a * b, 'div': lambda a, b: a / b,
    'floordiv': lambda a, b: a // b, 'mod': lambda a, b: a % b, 'pow': lambda a, b: a ** b,
    'radd': lambda a, b: b + a, 'rsub': lambda a, b: b - a, 'rdiv': lambda a, b: b / a, 'rfloordiv': lambda a, b: b // a,
}
CMP = {'lt': lambda a, b: a < b, 'ge': lambda a, b: a >= b, 'eq': lambda a, b: a == b, 'ne': lambda a, b: a != b}
LAMBDAS = {
    'inc': lambda x: x + 1, 'half': lambda x: x * 1.5, 'tostr': lambda x: hl.str(x), 'eqself': lambda x: x == x,
    'wrap': lambda x: hl.struct(a=x), 'pair': lambda x: [x, x], 'len': lambda x: hl.len(x), 'big': lambda x: x + (1 << 31),
    'div': lambda x: x / 2, 'tup': lambda x: hl.tuple([x, 1]), 'fld': lambda x: x.a,
}
PREDS = {'true': lambda x: hl.literal(True), 'eqself': lambda x: x == x, 'lt': lambda x: x < 2}


def ops_for(e):
    """Applicable call kinds for the current expression (by its reported dtype class)."""
    t = e.dtype
    out = ['array2', 'struct2', 'tuple2', 'ifelse', 'cmp_eq', 'coalesce', 'is_missing', 'or_missing', 'bind']
    if is_numeric(t):
        out += ['arith', 'cmp', 'neg', 'cast', 'tostr', 'abs', 'maxmin']
    if t == tbool:
        out += ['cond', 'not', 'and']
    if t == tstr:
        out += ['concat', 'strlen', 'cmp']
    if isinstance(t, tarray):
        out += ['map', 'filter', 'len', 'index', 'arith', 'extend', 'slice', 'fold', 'sum', 'any', 'flatmap', 'sorted',
                'append', 'first']
    if isinstance(t, tstruct):
        out += ['annotate', 'select', 'drop', 'getfield', 'getitem', 'rename']
    if isinstance(t, ttuple):
        out += ['tindex', 'tlen']
    return out


def apply_op(op, e, choose):
    """One API call on e; second operands / sub-kinds are further symbolic choices."""
    if op == 'arith':
        f = ARITH[choose('arith', _f('arith', ARITH))]
        return f(e, leaf(choose('operand', _f('operands', NUM_OPERANDS))))
    if op == 'cmp':
        f = CMP[choose('cmp', _f('cmps', CMP))]
        return f(e, leaf(choose('operand', _f('operands', NUM_OPERANDS + ['str', 'py_s']))))
    if op == 'cmp_eq':
        return e == leaf(choose('operand', _f('operands', OPERANDS)))
    if op == 'neg':
        return -e
    if op == 'abs':
        return hl.abs(e)
    if op == 'maxmin':
        return hl.max(e, leaf(choose('operand', NUM_OPERANDS)))
    if op == 'cast':
        return {'int32': hl.int32, 'int64': hl.int64, 'float64': hl.float64, 'float32': hl.float32, 'float': hl.float,
                'int': hl.int, 'bool': hl.bool}[choose('cast', _f('casts', ['int32', 'int64', 'float64', 'float32', 'float', 'int', 'bool']))](e)
    if op == 'tostr':
        return hl.str(e)
    if op == 'ifelse':
        return hl.if_else(leaf('bool'), e, leaf(choose('operand', _f('operands', OPERANDS))))
    if op == 'cond':
        a = leaf(choose('operand', _f('operands', OPERANDS)))
        b = leaf(choose('operand2', _f('operands', OPERANDS)))
        return hl.if_else(e, a, b)
    if op == 'not':
        return ~e
    if op == 'and':
        return e & leaf(choose('operand', ['bool', 'py_b']))
    if op == 'coalesce':
        return hl.coalesce(e, leaf(choose('operand', _f('operands', OPERANDS))))
    if op == 'is_missing':
        return hl.is_missing(e)
    if op == 'or_missing':
        return hl.or_missing(leaf('bool'), e)
    if op == 'bind':
        return hl.bind(lambda v: hl.struct(x=v, y=v), e)
    if op == 'array2':
        return hl.array([e, leaf(choose('operand', _f('operands', OPERANDS)))])
    if op == 'struct2':
        return hl.struct(a=e, b=leaf(choose('operand', _f('operands', OPERANDS))))
    if op == 'tuple2':
        return hl.tuple([e, leaf(choose('operand', _f('operands', OPERANDS)))])
    if op == 'concat':
        return e + leaf(choose('operand', ['str', 'py_s']))
    if op == 'strlen':
        return hl.len(e)
    if op == 'map':
        return e.map(LAMBDAS[choose('lambda', _f('lambdas', LAMBDAS))])
    if op == 'flatmap':
        return e.flatmap(LAMBDAS[choose('lambda', ['pair', 'wrap', 'inc'])])
    if op == 'filter':
        return e.filter(PREDS[choose('pred', _f('preds', PREDS))])
    if op == 'any':
        return hl.any(PREDS[choose('pred', list(PREDS))], e)
    if op == 'len':
        return hl.len(e)
    if op == 'index':
        return e[leaf(choose('operand', ['i32', 'py_i', 'i64']))]
    if op == 'first':
        return e.first()
    if op == 'slice':
        return e[0:1]
    if op == 'extend':
        return e.extend(leaf(choose('operand', ['ai', 'al', 'af', 'aai', 'py_li'])))
    if op == 'append':
        return e.append(leaf(choose('operand', _f('operands', OPERANDS))))
    if op == 'fold':
        return hl.fold(lambda acc, x: acc + x, leaf(choose('operand', ['i32', 'py_i', 'f64', 'i64', 'str'])), e)
    if op == 'sum':
        return hl.sum(e)
    if op == 'sorted':
        return hl.sorted(e)
    if op == 'annotate':
        which = choose('field', ['c', 'a'])
        return e.annotate(**{which: leaf(choose('operand', _f('operands', OPERANDS)))})
    if op == 'select':
        return e.select(list(e.dtype)[0])
    if op == 'drop':
        return e.drop(list(e.dtype)[0])
    if op == 'rename':
        return e.rename({list(e.dtype)[0]: 'zz'})
    if op == 'getfield':
        return getattr(e, list(e.dtype)[choose('fieldidx', _f('fieldidx', [0, -1]))])
    if op == 'getitem':
        return e[list(e.dtype)[-1]]
    if op == 'tindex':
        return e[choose('tidx', [0, 1])]
    if op == 'tlen':
        return hl.len(e)
    raise ValueError(op)


# ---- the checks ---------------------------------------------------------------------------------------------
def check_expr(e, env=None, text_check=None):
    """The front end's reported type agrees with the type implied by the IR it holds."""
    if not isinstance(e, Expression):
        raise Violation('not-an-expression', f'API returned {type(e).__name__}')
    x = e._ir
    if e.dtype != x.typ:
        raise Violation('dtype-vs-ir-typ', f'dtype {e.dtype} but _ir.typ {x.typ}: {x}')
    try:
        x.compute_type(dict(env or {}), None, deep_typecheck=True)
    except AssertionError as a:
        raise Violation('ir-deep-typecheck', f'deep recomputation of IR types fails ({a}) for {x}')
    if e.dtype != x.typ:
        raise Violation('dtype-vs-ir-typ', f'dtype {e.dtype} but recomputed _ir.typ {x.typ}: {x}')
    if text_check is not None:
        text_check(e, env)


def check_table(t, text_check=None):
    tt = t._tir.typ
    if t.row.dtype != tt.row_type:
        raise Violation('table-row-type', f'row.dtype {t.row.dtype} but TableType row {tt.row_type}')
    if t.globals.dtype != tt.global_type:
        raise Violation('table-global-type', f'globals.dtype {t.globals.dtype} but TableType global {tt.global_type}')
    if list(t.key) != list(tt.row_key):
        raise Violation('table-key', f'key fields {list(t.key)} but TableType key {list(tt.row_key)}')
    if t.key.dtype != tt.key_type:
        raise Violation('table-key-type', f'key.dtype {t.key.dtype} but TableType key_type {tt.key_type}')
    try:
        t._tir.compute_type(deep_typecheck=True)
    except AssertionError as a:
        raise Violation('tir-deep-typecheck', f'deep recomputation of TableIR types fails ({a})')
    tt = t._tir.typ
    if t.row.dtype != tt.row_type or t.globals.dtype != tt.global_type or list(t.key) != list(tt.row_key):
        raise Violation('table-type-after-recompute', f'{t.row.dtype} / {t.globals.dtype} vs {tt}')
    for name in t.row:
        f = t[name]
        if f.dtype != tt.row_type[name]:
            raise Violation('table-field-type', f'field {name}: {f.dtype} vs {tt.row_type[name]}')
    if text_check is not None:
        text_check(t, None)


def check_matrix(mt, text_check=None):
    mtyp = mt._mir.typ
    pairs = [('row', mt.row.dtype, mtyp.row_type), ('col', mt.col.dtype, mtyp.col_type),
             ('entry', mt.entry.dtype, mtyp.entry_type), ('globals', mt.globals.dtype, mtyp.global_type),
             ('row_key', list(mt.row_key), list(mtyp.row_key)), ('col_key', list(mt.col_key), list(mtyp.col_key)),
             ('row_key_type', mt.row_key.dtype, mtyp.row_key_type), ('col_key_type', mt.col_key.dtype, mtyp.col_key_type)]
    for what, a, b in pairs:
        if a != b:
            raise Violation(f'matrix-{what}', f'{what}: front end {a} but MatrixType {b}')
    try:
        mt._mir.compute_type(deep_typecheck=True)
    except AssertionError as a:
        raise Violation('mir-deep-typecheck', f'deep recomputation of MatrixIR types fails ({a})')
    mtyp = mt._mir.typ
    for what, a, b in [('row', mt.row.dtype, mtyp.row_type), ('col', mt.col.dtype, mtyp.col_type),
                       ('entry', mt.entry.dtype, mtyp.entry_type), ('globals', mt.globals.dtype, mtyp.global_type)]:
        if a != b:
            raise Violation(f'matrix-{what}-after-recompute', f'{what}: front end {a} but MatrixType {b}')
    if text_check is not None:
        text_check(mt, None)


# ---- expression programs ----------------------------------------------------------------------------------
def run_expr_program(choose, k, text_check=None):
    """Returns (trace, status) where status in 'done' | 'rejected'.  Raises Violation."""
    trace = []
    name = choose('leaf', _f('leaves', E_LEAVES))
    e = leaf(name)
    trace.append(('leaf', name, str(e.dtype)))
    check_expr(e, text_check=text_check)
    for step in range(k):
        ops = _f('expr_ops', ops_for(e) + ['stop'])
        op = choose(f'op{step}', ops)
        if op == 'stop':
            break
        sub = []

        def ch(what, opts, _sub=sub, _step=step):
            o = choose(f'{what}{_step}', opts)
            _sub.append(o if isinstance(o, (str, int)) else repr(o))
            return o
        try:
            e = apply_op(op, e, ch)
        except REJECTIONS as ex:
            trace.append((op, tuple(sub), f'rejected:{type(ex).__name__}'))
            return trace, 'rejected'
        trace.append((op, tuple(sub), str(getattr(e, 'dtype', '?'))))
        check_expr(e, text_check=text_check)
    return trace, 'done'


# ---- table programs ---------------------------------------------------------------------------------------
def row_exprs(t):
    """Candidate row-indexed expressions over the current table (built lazily; may be rejected)."""
    first = list(t.row)[0]
    last = list(t.row)[-1]
    return {
        'idx1': lambda: t[first] + 1 if is_numeric(t[first].dtype) else hl.len(hl.str(t[first])),
        'flt': lambda: t[last] * 1.5, 'big': lambda: t[first] + (1 << 31), 'str': lambda: hl.str(t[last]),
        'cmp': lambda: t[first] == t[first], 'st': lambda: hl.struct(a=t[last], b=[t[first]]),
        'arr': lambda: [t[first], 2], 'lit': lambda: hl.literal([1, 1 << 31]), 'py': lambda: 2.5,
        'glob': lambda: hl.len(t.globals) + 0, 'cond': lambda: hl.if_else(t[first] == t[first], t[last], t[last]),
        'map': lambda: hl.range(3).map(lambda i: i + t[first]), 'row': lambda: t.row, 'key': lambda: t.key,
    }


TABLE_OPS = ['annotate', 'annotate2', 'select', 'select_expr', 'key_by', 'key_by_expr', 'key_by_none', 'filter', 'drop',
             'annotate_globals', 'select_globals', 'transmute', 'rename', 'add_index', 'distinct', 'head', 'union',
             'explode', 'order_by', 'stop']


def apply_table_op(op, t, choose):
    rx = row_exprs(t)
    names = list(t.row)
    if op == 'annotate':
        nm = choose('name', _f('names', ['x', names[-1]]))
        return t.annotate(**{nm: rx[choose('expr', _f('row_exprs', rx))]()})
    if op == 'annotate2':
        return t.annotate(u=rx[choose('expr', _f('row_exprs', rx))](), v=rx[choose('expr2', ['flt', 'str', 'lit'])]())
    if op == 'select':
        return t.select(names[choose('fieldidx', _f('fieldidx', [0, -1]))])
    if op == 'select_expr':
        return t.select(w=rx[choose('expr', _f('row_exprs', rx))]())
    if op == 'key_by':
        return t.key_by(names[choose('fieldidx', _f('fieldidx', [0, -1]))])
    if op == 'key_by_expr':
        return t.key_by(k=rx[choose('expr', ['idx1', 'big', 'str', 'st', 'flt'])]())
    if op == 'key_by_none':
        return t.key_by()
    if op == 'filter':
        return t.filter(rx[choose('expr', ['cmp', 'idx1', 'str'])]())
    if op == 'drop':
        return t.drop(names[choose('fieldidx', _f('fieldidx', [0, -1]))])
    if op == 'annotate_globals':
        g = choose('gexpr', _f('gexprs', ['py_i', 'py_l', 'ai', 'st', 'f64']))
        return t.annotate_globals(**{choose('gname', _f('names', ['g', 'h'])): leaf(g)})
    if op == 'select_globals':
        return t.select_globals()
    if op == 'transmute':
        return t.transmute(tr=rx[choose('expr', ['idx1', 'flt', 'str', 'st'])]())
    if op == 'rename':
        return t.rename({names[-1]: 'renamed'})
    if op == 'add_index':
        return t.add_index('ix')
    if op == 'distinct':
        return t.distinct()
    if op == 'head':
        return t.head(2)
    if op == 'union':
        return t.union(t)
    if op == 'explode':
        return t.annotate(ex=rx['arr']()).explode('ex')
    if op == 'order_by':
        return t.order_by(names[-1])
    raise ValueError(op)


def run_table_program(choose, k, text_check=None):
    trace = []
    t = hl.utils.range_table(choose('n', _f('ns', [0, 3])))
    trace.append(('range_table', (), str(t.row.dtype)))
    check_table(t, text_check)
    for step in range(k):
        op = choose(f'op{step}', _f('table_ops', TABLE_OPS))
        if op == 'stop':
            break
        sub = []

        def ch(what, opts, _sub=sub, _step=step):
            o = choose(f'{what}{_step}', opts)
            _sub.append(o)
            return o
        try:
            t = apply_table_op(op, t, ch)
        except REJECTIONS as ex:
            trace.append((op, tuple(sub), f'rejected:{type(ex).__name__}'))
            return trace, 'rejected'
        trace.append((op, tuple(sub), f'{t.row.dtype} key={list(t.key)} globals={t.globals.dtype}'))
        check_table(t, text_check)
    return trace, 'done'


# ---- matrix table programs --------------------------------------------------------------------------------
MATRIX_OPS = ['annotate_rows', 'annotate_cols', 'annotate_entries', 'annotate_globals', 'select_rows', 'select_cols',
              'select_entries', 'key_rows_by', 'key_cols_by', 'filter_rows', 'filter_cols', 'filter_entries', 'drop',
              'transmute_entries', 'rows', 'cols', 'entries', 'rename', 'add_row_index', 'stop']


def mexprs(mt, axis):
    r, c = list(mt.row)[0], list(mt.col)[0]
    d = {
        'r1': lambda: mt[r] + 1, 'rbig': lambda: mt[r] + (1 << 31), 'rstr': lambda: hl.str(mt[r]),
        'c1': lambda: mt[c] * 1.5, 'cstr': lambda: hl.str(mt[c]), 'carr': lambda: [mt[c]],
        'e1': lambda: mt[r] + mt[c] * 1.5, 'est': lambda: hl.struct(a=mt[r], b=hl.str(mt[c])), 'py': lambda: 2,
        'cmp_r': lambda: mt[r] == mt[r], 'cmp_c': lambda: mt[c] == mt[c], 'cmp_e': lambda: mt[r] == mt[c],
        'lit': lambda: hl.literal([1, 1 << 31]),
    }
    allowed = {'row': ['r1', 'rbig', 'rstr', 'py', 'lit', 'c1'], 'col': ['c1', 'cstr', 'carr', 'py', 'lit', 'r1'],
               'entry': ['e1', 'est', 'r1', 'c1', 'py', 'lit']}[axis]
    return {k: d[k] for k in allowed}


def apply_matrix_op(op, mt, choose):
    if op == 'annotate_rows':
        ex = mexprs(mt, 'row')
        return mt.annotate_rows(**{choose('name', _f('names', ['x', list(mt.row)[-1]])): ex[choose('expr', _f('mexprs', ex))]()})
    if op == 'annotate_cols':
        ex = mexprs(mt, 'col')
        return mt.annotate_cols(**{choose('name', _f('names', ['y', list(mt.col)[-1]])): ex[choose('expr', _f('mexprs', ex))]()})
    if op == 'annotate_entries':
        ex = mexprs(mt, 'entry')
        return mt.annotate_entries(**{choose('name', _f('names', ['e', 'f'])): ex[choose('expr', _f('mexprs', ex))]()})
    if op == 'annotate_globals':
        return mt.annotate_globals(g=leaf(choose('gexpr', _f('gexprs', ['py_i', 'py_l', 'ai', 'st']))))
    if op == 'select_rows':
        return mt.select_rows(list(mt.row)[-1])
    if op == 'select_cols':
        return mt.select_cols(list(mt.col)[-1])
    if op == 'select_entries':
        ex = mexprs(mt, 'entry')
        return mt.select_entries(z=ex[choose('expr', _f('mexprs', ex))]())
    if op == 'key_rows_by':
        which = choose('how', _f('hows', ['field', 'expr', 'none']))
        if which == 'field':
            return mt.key_rows_by(list(mt.row)[-1])
        if which == 'none':
            return mt.key_rows_by()
        return mt.key_rows_by(k=mexprs(mt, 'row')[choose('expr', ['rbig', 'rstr'])]())
    if op == 'key_cols_by':
        which = choose('how', _f('hows', ['field', 'expr', 'none']))
        if which == 'field':
            return mt.key_cols_by(list(mt.col)[-1])
        if which == 'none':
            return mt.key_cols_by()
        return mt.key_cols_by(k=mexprs(mt, 'col')[choose('expr', ['c1', 'cstr'])]())
    if op == 'filter_rows':
        return mt.filter_rows(mt[list(mt.row)[0]] == mt[list(mt.row)[0]])
    if op == 'filter_cols':
        return mt.filter_cols(mt[list(mt.col)[0]] == mt[list(mt.col)[0]])
    if op == 'filter_entries':
        return mt.filter_entries(mt[list(mt.row)[0]] == mt[list(mt.col)[0]])
    if op == 'drop':
        pool = list(mt.row) + list(mt.col) + list(mt.entry) + list(mt.globals)
        return mt.drop(pool[choose('fieldidx', _f('fieldidx', [0, -1, 1]))])
    if op == 'transmute_entries':
        ex = mexprs(mt, 'entry')
        return mt.transmute_entries(t=ex[choose('expr', _f('mexprs', ex))]())
    if op == 'rename':
        return mt.rename({list(mt.row)[-1]: 'rr', list(mt.col)[-1]: 'cc'})
    if op == 'add_row_index':
        return mt.add_row_index('ri')
    if op in ('rows', 'cols', 'entries'):
        return getattr(mt, op)()
    raise ValueError(op)


def run_matrix_program(choose, k, text_check=None):
    trace = []
    mt = hl.utils.range_matrix_table(2, 2)
    trace.append(('range_matrix_table', (), str(mt.entry.dtype)))
    check_matrix(mt, text_check)
    cur = mt
    for step in range(k):
        if not isinstance(cur, hl.MatrixTable):
            ops = _f('table_ops', TABLE_OPS)
        else:
            ops = _f('matrix_ops', MATRIX_OPS)
        op = choose(f'op{step}', ops)
        if op == 'stop':
            break
        sub = []

        def ch(what, opts, _sub=sub, _step=step):
            o = choose(f'{what}{_step}', opts)
            _sub.append(o)
            return o
        try:
            cur = apply_matrix_op(op, cur, ch) if isinstance(cur, hl.MatrixTable) else apply_table_op(op, cur, ch)
        except REJECTIONS as ex:
            trace.append((op, tuple(sub), f'rejected:{type(ex).__name__}'))
            return trace, 'rejected'
        if isinstance(cur, hl.MatrixTable):
            trace.append((op, tuple(sub), f'row={cur.row.dtype} col={cur.col.dtype} entry={cur.entry.dtype}'))
            check_matrix(cur, text_check)
        else:
            trace.append((op, tuple(sub), f'{cur.row.dtype} key={list(cur.key)}'))
            check_table(cur, text_check)
    return trace, 'done'


RUNNERS = {'expr': run_expr_program, 'table': run_table_program, 'matrix': run_matrix_program}
