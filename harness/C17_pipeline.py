"""C17 harness (E5 symbolic program builder, native path exploration with vt.shapesym).

The REAL hailtop.batch front end (Batch, BashJob.command/_interpolate_command, Job.depends_on/always_run,
declare_resource_group, Batch._async_run, LocalBackend._async_run) builds and runs a pipeline of N jobs whose
shape is chosen by solver integers and whose always_run flags / command exit statuses are z3 booleans:

  e_i_j  in {0 none, 1 explicit, 2 resource, 3 both}   job j depends on job i   (all ordered pairs i != j; jobs
                                                        are created in index order, so an edge towards a
                                                        later-created job is "creation in any order")
  s_j    in {0, 1}                                      j.depends_on(j)
  fl_j   in {0 file, 1 resource group, 2 group member}  how consumer j mentions its producers' outputs
  aro    in {0, 1}                                      always_run() called after / before the commands
  ord_j_n / ordg                                         iteration order of job j's dependency set (Job._dependencies is
                                                        replaced by OrdSet: a permutation of the job-index order; every
                                                        permutation for acyclic pipelines, canonical/reversed for cyclic)
  ar_j   Bool                                           j.always_run(ar_j)      (proxy: forks only where the
  fail_j Bool                                           exit status of job j     real code branches on it)

`subprocess` in hailtop.batch.backend's namespace is a fake: check_call records which job's script is executed
(the script carries "# <job id>: j<index>") and raises CalledProcessError iff fail_j.  Nothing is executed.

The oracle below is written independently of the code under test (Kahn order, least fixed point of the skip rule).
"""
import contextlib
import io
import itertools
import os
import re
import shutil
import subprocess as _real_sp
import tempfile
import warnings

import z3

from vt import loader, shapesym
from vt.common import HarnessError

loader.install()
import hailtop.batch as hb  # noqa: E402
from hailtop.batch import backend as hb_backend  # noqa: E402
from hailtop.batch.exceptions import BatchException  # noqa: E402

KINDS = {0: 'none', 1: 'explicit', 2: 'resource', 3: 'both'}
FLAVOURS = {0: 'file', 1: 'group', 2: 'member'}
_JOB_LINE = re.compile(r'^# (\d+): j(\d+)$', re.M)


class FakeSP:
    """Stands in for the `subprocess` module inside hailtop.batch.backend."""
    CalledProcessError = _real_sp.CalledProcessError

    def __init__(self):
        self.reset(None, None)

    def reset(self, inputs, root):
        self.inputs = inputs
        self.root = root
        self.log = []        # (job index, job id) in execution order
        self.other = 0       # scripts that are not a job (input transfers)

    def check_call(self, code, shell=False):
        m = _JOB_LINE.search(code)
        if m is None:
            self.other += 1
            return 0
        idx = int(m.group(2))
        self.log.append((idx, int(m.group(1))))
        if self.inputs.fail(idx):
            raise _real_sp.CalledProcessError(1, f'job j{idx}')
        return 0

    def run(self, cmd, shell=False, check=False):
        # LocalBackend's `rm -rf <scratch dir>`
        if isinstance(cmd, str) and cmd.startswith('rm -rf ') and self.root and cmd[7:].startswith(self.root):
            shutil.rmtree(cmd[7:], ignore_errors=True)
        return None


_FSP = FakeSP()
_STATE = {}


def setup():
    if _STATE:
        return
    hb_backend.sp = _FSP
    # "always_run job has a resource file dependency" etc.: expected, and there would be millions of them
    warnings.filterwarnings('ignore', category=UserWarning, module=r'hailtop\.batch')
    root = tempfile.mkdtemp(prefix='verif_c17_')
    _STATE['root'] = root
    _STATE['backend'] = hb.LocalBackend(tmp_dir=root)


def teardown():
    if _STATE:
        shutil.rmtree(_STATE['root'], ignore_errors=True)


# ---- harness-controlled iteration order of the dependency sets ---------------------------------------------
PERMS = {n: list(itertools.permutations(range(n))) for n in range(2, 6)}


class OrdSet(set):
    """Job._dependencies is a set of Job objects hashed by address: its iteration order is an accident of memory
    layout.  The harness replaces it by this subclass whose iteration order is an INPUT: the elements in job-index
    order, permuted by a permutation the solver chooses (and a replay pins)."""

    def __init__(self, ctl, owner):
        super().__init__()
        self._ctl = ctl
        self._owner = owner
        self._perm = None

    def __iter__(self):
        items = sorted(set.__iter__(self), key=lambda job: int(job.name[1:]))
        n = len(items)
        if n < 2:
            return iter(items)
        if self._perm is None or len(self._perm) != n:
            self._perm = PERMS[n][self._ctl.order_of(self._owner, n)]
        return iter([items[k] for k in self._perm])


class OrderCtl:
    def __init__(self, N, inp, shape):
        self.N, self.inp, self.shape = N, inp, shape
        self._cyclic = None

    def order_of(self, owner, n):
        if self._cyclic is None:
            self._cyclic = kahn(self.N, parents_of(self.N, self.shape)) is None
        k = self.inp.order(owner, n, self._cyclic)
        self.shape['orders'][owner] = k
        return k


# ---- inputs ---------------------------------------------------------------------------------------------
class SymInputs:
    """Inputs drawn from the solver (inside a shapesym run)."""

    def __init__(self, N, kinds, aro_opts=(0,), global_flavour=False):
        self.N = N
        self.global_flavour = global_flavour
        self.kinds = kinds
        self.aro_opts = list(aro_opts)
        self._ar = {}
        self._fail = {}
        self.skip_acyclic = False
        self.cyclic_global_flavour = False
        self.order_mode = 'all'

    def ar_before(self):
        return shapesym.choose('aro', self.aro_opts)

    def order(self, owner, n, cyclic):
        """Iteration order of job `owner`'s dependency set of n >= 2 elements: index into PERMS[n].  Acyclic
        pipelines: every permutation; cyclic pipelines: one solver bit for the whole pipeline (canonical / reversed)."""
        if cyclic or self.order_mode == 'global2':
            return (len(PERMS[n]) - 1) if shapesym.choose('ordg', [0, 1]) else 0
        return shapesym.choose(f'ord_{owner}_{n}', list(range(len(PERMS[n]))))

    def edge(self, i, j):
        return shapesym.choose(f'e_{i}_{j}', self.kinds)

    def selfloop(self, j):
        return shapesym.choose(f's_{j}', [0, 1])

    def flavour(self, j, cyclic=False):
        # one flavour per consumer, or one for the whole pipeline (larger N; cyclic pipelines when so configured)
        one = self.global_flavour or (cyclic and self.cyclic_global_flavour)
        return shapesym.choose('fl' if one else f'fl_{j}', [0, 1, 2])

    def ar(self, j):
        if j not in self._ar:
            self._ar[j] = shapesym.sbool(f'ar_{j}')
        return self._ar[j]

    def fail(self, j):
        if j not in self._fail:
            self._fail[j] = shapesym.sbool(f'fail_{j}')
        return self._fail[j]


class ConcreteInputs:
    """The same interface over a dict (replay of a solver model)."""

    def __init__(self, d):
        self.d = d

    def ar_before(self):
        return int(self.d.get('aro', 0))

    def edge(self, i, j):
        return int(self.d.get(f'e_{i}_{j}', 0))

    def selfloop(self, j):
        return int(self.d.get(f's_{j}', 0))

    def flavour(self, j, cyclic=False):
        return int(self.d[f'fl_{j}']) if f'fl_{j}' in self.d else int(self.d.get('fl', 0))

    def order(self, owner, n, cyclic):
        if f'ord_{owner}_{n}' in self.d:
            return int(self.d[f'ord_{owner}_{n}']) % len(PERMS[n])
        return (len(PERMS[n]) - 1) if int(self.d.get('ordg', 0)) else 0

    def ar(self, j):
        return bool(self.d.get(f'ar_{j}', False))

    def fail(self, j):
        return bool(self.d.get(f'fail_{j}', False))


# ---- the builder: real front-end code ---------------------------------------------------------------------
def build_and_run(N, inp):
    """Build the pipeline with the real DSL and run it on the real LocalBackend.  Returns the observation."""
    setup()
    lb = _STATE['backend']
    shape = {'edges': {}, 'self': {}, 'fl': {}, 'orders': {}}
    obs = {'shape': shape, 'exc': None, 'build_failed': False}
    try:
        b = hb.Batch(backend=lb, name='c17')
        jobs = [b.new_job(name=f'j{i}') for i in range(N)]
        ctl = OrderCtl(N, inp, shape)
        for i, j in enumerate(jobs):
            j._dependencies = OrdSet(ctl, i)
        # phase 1: every job defines its outputs (a resource must be defined by its producer before another job's
        # command may mention it)
        for i, j in enumerate(jobs):
            j.declare_resource_group(rg={'a': '{root}.a', 'b': '{root}.b'})
            j.command(f'echo {i} > {j.ofile}; echo {i} > {j.rg.a}; echo {i} > {j.rg.b}')
        aro = inp.ar_before()
        shape['aro'] = aro
        if aro:
            # always_run set before the consuming commands: _interpolate_command then branches on the flag
            for ji in range(N):
                jobs[ji].always_run(inp.ar(ji))
        # the dependency relation: explicit and through consumed resources, in both directions (a job may depend on
        # jobs created after it: "created earlier than its dependencies")
        allk = {}
        for ji in range(N):
            for pi in range(N):
                if pi != ji:
                    allk[(pi, ji)] = inp.edge(pi, ji)
                    shape['edges'][(pi, ji)] = allk[(pi, ji)]
            shape['self'][ji] = inp.selfloop(ji)
        cyc = kahn(N, parents_of(N, shape)) is None
        # phase 2: the DSL calls
        for ji in range(N):
            j = jobs[ji]
            kinds = {pi: allk[(pi, ji)] for pi in range(N) if pi != ji}
            sl = shape['self'][ji]
            explicit = [jobs[pi] for pi, k in kinds.items() if k in (1, 3)]
            if sl:
                explicit.append(j)
            if explicit:
                j.depends_on(*explicit)
            consumed = [pi for pi, k in kinds.items() if k in (2, 3)]
            if consumed:
                fl = inp.flavour(ji, cyc)
                shape['fl'][ji] = fl
                refs = []
                for pi in consumed:
                    p = jobs[pi]
                    refs.append(str(p.ofile) if fl == 0 else (str(p.rg) if fl == 1 else str(p.rg.a)))
                j.command('cat ' + ' '.join(refs))
        if not aro:
            for ji in range(N):
                jobs[ji].always_run(inp.ar(ji))
    except HarnessError:
        raise
    except Exception as e:  # the DSL rejected a legitimate call: an observation (unless the harness itself is broken)
        if not shapesym.raised_inside(e, loader.REPO):
            raise HarnessError(f'C17 builder bug: {type(e).__name__}: {e}')
        obs.update(exc=(type(e).__name__, str(e)), build_failed=True, log=[], other_calls=0, ids=[None] * N, order=[],
                   submitted=[False] * N)
        return obs
    if getattr(inp, 'skip_acyclic', False) and kahn(N, parents_of(N, shape)) is not None:
        obs['covered_elsewhere'] = True
        return obs
    _FSP.reset(inp, _STATE['root'])
    out = io.StringIO()
    try:
        with contextlib.redirect_stdout(out), warnings.catch_warnings():
            warnings.simplefilter('ignore')
            b.run()
    except BatchException as e:
        obs['exc'] = ('BatchException', str(e))
    except _real_sp.CalledProcessError as e:
        obs['exc'] = ('CalledProcessError', str(e.cmd))
    except HarnessError:
        raise
    except Exception as e:
        if not shapesym.raised_inside(e, loader.REPO):
            raise HarnessError(f'C17 harness bug during run: {type(e).__name__}: {e}')
        obs['exc'] = (type(e).__name__, str(e))
    obs['log'] = list(_FSP.log)
    obs['other_calls'] = _FSP.other
    obs['ids'] = [jobs[i]._job_id for i in range(N)]
    obs['order'] = [int(j.name[1:]) for j in b._jobs]
    obs['submitted'] = [bool(jobs[i]._submitted) for i in range(N)]
    _FSP.reset(None, None)
    return obs


# ---- the oracle (independent of the code under test) ------------------------------------------------------
def parents_of(N, shape):
    par = [set() for _ in range(N)]
    for (pi, ji), k in shape['edges'].items():
        if k != 0:
            par[ji].add(pi)
    for ji, sl in shape['self'].items():
        if sl:
            par[ji].add(ji)
    return par


def kahn(N, par):
    """Topological order or None when the dependency relation has a cycle."""
    indeg = [len(par[j]) for j in range(N)]
    ready = [j for j in range(N) if indeg[j] == 0]
    order = []
    while ready:
        p = ready.pop()
        order.append(p)
        for j in range(N):
            if p in par[j]:
                indeg[j] -= 1
                if indeg[j] == 0:
                    ready.append(j)
    return order if len(order) == N else None


def violation(N, obs, ar, fail):
    """z3 Bool over ar_j / fail_j: "this observation contradicts C17" (+ a dict naming the failed parts).
    `ar`, `fail`: lists of z3 Bool terms (BoolVal for concrete replays)."""
    shape = obs['shape']
    parts = {}
    T, F = z3.BoolVal(True), z3.BoolVal(False)
    if obs.get('build_failed'):
        # the DSL refused a call while the pipeline was being built: there is no pipeline, nothing ran; C17 does not
        # promise that programs are accepted.  Counted and reported, not a violation.
        if obs['log'] or obs['other_calls']:
            parts['nothing_runs_when_building_fails'] = F
            return T, parts
        parts['rejected_at_build'] = T
        return F, parts
    par = parents_of(N, shape)
    order = kahn(N, par)
    if order is None:
        ok = (obs['exc'] is not None and obs['exc'][0] == 'BatchException' and not obs['log']
              and obs['other_calls'] == 0 and not any(obs['submitted']))
        parts['cycle_rejected_before_anything_runs'] = T if ok else F
        return z3.Not(parts['cycle_rejected_before_anything_runs']), parts
    ids = obs['ids']
    parts['ids_are_1_to_N'] = T if sorted(i for i in ids if i is not None) == list(range(1, N + 1)) else F
    topo = all(ids[p] is not None and ids[j] is not None and ids[p] < ids[j] for j in range(N) for p in par[j])
    parts['ids_topological'] = T if topo else F
    logged = [i for i, _ in obs['log']]
    ok_log = len(set(logged)) == len(logged) and all(ids[i] == jid for i, jid in obs['log'])
    pos = {i: k for k, i in enumerate(logged)}
    ok_log = ok_log and all(pos[p] < pos[j] for j in logged for p in par[j] if p in pos)
    ok_log = ok_log and [jid for _, jid in obs['log']] == sorted(jid for _, jid in obs['log'])
    ok_log = ok_log and obs['order'] == [i for i in sorted(range(N), key=lambda i: ids[i] or 0)]
    parts['executed_after_dependencies_in_id_order'] = T if ok_log else F
    skip = {}
    for j in order:
        causes = [z3.Or(skip[p], z3.And(z3.Not(skip[p]), fail[p])) for p in sorted(par[j])]
        skip[j] = z3.And(z3.Not(ar[j]), z3.Or(*causes)) if causes else F
    ran_ok = [(z3.Not(skip[j]) == (T if j in pos else F)) for j in range(N)]
    parts['skip_set_exact'] = z3.And(*ran_ok)
    any_fail = z3.Or(*[z3.And(z3.Not(skip[j]), fail[j]) for j in range(N)])
    raised = obs['exc'] is not None and obs['exc'][0] == 'CalledProcessError'
    parts['raises_iff_some_job_failed'] = (any_fail == (T if raised else F))
    if obs['exc'] is not None and not raised:
        parts['no_other_exception'] = F
    parts['submitted_iff_ran'] = T if obs['submitted'] == [j in pos for j in range(N)] else F
    return z3.Not(z3.And(*parts.values())), parts


def replay_any_order(N, d, part=None):
    """Replay with the pinned iteration orders; if that does not reproduce (some OTHER set of the code under test
    iterates in an accidental order), retry under every order of the dependency sets before giving up.
    -> (violated?, failed parts, observation, inputs actually used)."""
    bad, parts, obs = replay_concrete(N, d)
    if bad and (part is None or part in parts):
        return bad, parts, obs, d
    top = min(N, 3)
    names = [f'ord_{j}_{n}' for j in range(N) for n in range(2, top + 1)]
    sizes = {f'ord_{j}_{n}': len(PERMS[n]) for j in range(N) for n in range(2, top + 1)}
    tried = 0
    for combo in itertools.product(*[range(sizes[nm]) for nm in names]):
        for g in (0, 1):
            d2 = dict(d, ordg=g, **dict(zip(names, combo)))
            tried += 1
            b2, p2, o2 = replay_concrete(N, d2)
            if b2 and (part is None or part in p2):
                return b2, p2, o2, d2
        if tried > 4000:
            break
    return bad, parts, obs, d


def replay_concrete(N, d):
    """Run one concrete input (a solver model) on the real code; returns (violated?, failed parts, observation)."""
    inp = ConcreteInputs(d)
    obs = build_and_run(N, inp)
    ar = [z3.BoolVal(inp.ar(j)) for j in range(N)]
    fail = [z3.BoolVal(inp.fail(j)) for j in range(N)]
    v, parts = violation(N, obs, ar, fail)
    bad = [k for k, f in parts.items() if not z3.is_true(z3.simplify(f))]
    return z3.is_true(z3.simplify(v)), bad, obs


# ---- one shard of the exploration (runs in a worker process) ----------------------------------------------
def _vars(N):
    ev = {(i, j): z3.Int(f'e_{i}_{j}') for i in range(N) for j in range(N) if i != j}
    sv = {j: z3.Int(f's_{j}') for j in range(N)}
    return ev, sv


def model_to_inputs(N, m, global_flavour=False, kinds=(0, 1, 2, 3), aro_opts=(0, 1)):
    """Solver model -> concrete input VALUES (the solver's integers are indices into the option lists)."""
    d = {}
    if global_flavour:
        d['fl'] = shapesym.model_int(m, z3.Int('fl'))
    ev, sv = _vars(N)
    for (i, j), x in ev.items():
        k = shapesym.model_int(m, x)
        d[f'e_{i}_{j}'] = kinds[k] if 0 <= k < len(kinds) else 0
    for j, x in sv.items():
        d[f's_{j}'] = shapesym.model_int(m, x)
    a = shapesym.model_int(m, z3.Int('aro'))
    d['aro'] = aro_opts[a] if 0 <= a < len(aro_opts) else aro_opts[0]
    for j in range(N):
        d[f'fl_{j}'] = shapesym.model_int(m, z3.Int(f'fl_{j}'))
        d[f'ar_{j}'] = shapesym.model_bool(m, z3.Bool(f'ar_{j}'))
        d[f'fail_{j}'] = shapesym.model_bool(m, z3.Bool(f'fail_{j}'))
    return d


def explore_shard(args):
    """args: dict(N, kinds, max_edges, max_self, fix={var: value}, deadline_s).  Returns a JSON-able summary."""
    import time
    N = args['N']
    t0 = time.time()
    ev, sv = _vars(N)
    cons = []
    if args.get('max_edges') is not None:
        cons.append(z3.Sum([z3.If(x != 0, 1, 0) for x in ev.values()]) <= args['max_edges'])
    if args.get('max_self') is not None:
        cons.append(z3.Sum([z3.If(x != 0, 1, 0) for x in sv.values()]) <= args['max_self'])
    if args.get('max_total') is not None:
        cons.append(z3.Sum([z3.If(x != 0, 1, 0) for x in list(ev.values()) + list(sv.values())]) <= args['max_total'])
    if args.get('acyclic_only'):
        # "the dependency relation is acyclic" as a constraint: there is a position for every job such that every
        # dependency points backwards (the order variables are existential: the program never reads them)
        # propositional encoding of a strict total order: bef_i_j (i < j) says "i is placed before j"
        bef = {}
        for i in range(N):
            for j in range(i + 1, N):
                b = z3.Bool(f'bef_{i}_{j}')
                bef[(i, j)] = b
                bef[(j, i)] = z3.Not(b)
        for i in range(N):
            for j in range(N):
                for k in range(N):
                    if len({i, j, k}) == 3:
                        cons.append(z3.Implies(z3.And(bef[(i, j)], bef[(j, k)]), bef[(i, k)]))
        cons += [z3.Implies(x != 0, bef[(i, j)]) for (i, j), x in ev.items()]
        cons += [x == 0 for x in sv.values()]
    if args.get('fixed_flavour') is not None:
        cons += [z3.Int(f'fl_{j}') == args['fixed_flavour'] for j in range(N)]
        cons.append(z3.Int('fl') == args['fixed_flavour'])
    for name, val in args.get('fix', {}).items():
        cons.append(z3.Int(name) == val)
    if args.get('deadline_at') and time.time() > args['deadline_at']:
        return {'fix': args.get('fix', {}), 'paths': 0, 'cyclic_paths': 0, 'dag_paths': 0, 'queries': 0, 'twins_sat': 0,
                'violations': [], 'unknown': 0, 'covered_elsewhere': 0, 'rejected_at_build': 0, 'rejection_example': None, 'samples': [],
                'part_counts': {}, 'symbolic_parts': 0, 'complete': False, 'exhaustive': 'unknown', 'solver_calls': 0,
                'forks': 0, 'secs': 0.0}
    ex = shapesym.Explorer(cons, max_paths=args.get('max_paths', 2000000),
                           deadline=args.get('deadline_at') or ((t0 + args['deadline_s']) if args.get('deadline_s') else None))
    inputs_holder = {}
    ar = [z3.Bool(f'ar_{j}') for j in range(N)]
    fail = [z3.Bool(f'fail_{j}') for j in range(N)]
    res = {'fix': args.get('fix', {}), 'paths': 0, 'cyclic_paths': 0, 'dag_paths': 0, 'queries': 0, 'twins_sat': 0,
           'violations': [], 'unknown': 0, 'covered_elsewhere': 0, 'rejected_at_build': 0, 'rejection_example': None, 'samples': [], 'part_counts': {}, 'symbolic_parts': 0}

    def body():
        inp = SymInputs(N, args['kinds'], args.get('aro', (0,)), args.get('global_flavour', False))
        inp.skip_acyclic = bool(args.get('cyclic_only'))
        inp.cyclic_global_flavour = bool(args.get('cyclic_global_flavour'))
        inp.order_mode = args.get('order_mode', 'all')
        inputs_holder['inp'] = inp
        return build_and_run(N, inp)

    def on_path(p, query):
        if p.exc is not None:
            raise HarnessError(f'C17 harness: unexpected exception escaped the builder: {type(p.exc).__name__}: {p.exc}')
        obs = p.value
        res['paths'] += 1
        if obs.get('covered_elsewhere'):
            res['covered_elsewhere'] += 1
            return
        v, parts = violation(N, obs, ar, fail)
        cyclic = 'cycle_rejected_before_anything_runs' in parts
        if 'rejected_at_build' in parts:
            res['rejected_at_build'] += 1
            if res['rejection_example'] is None:
                res['rejection_example'] = {'choices': dict(p.choices), 'exc': list(obs['exc'])}
        else:
            res['cyclic_paths' if cyclic else 'dag_paths'] += 1
        for k in parts:
            res['part_counts'][k] = res['part_counts'].get(k, 0) + 1
        # reachability twin: the path condition itself is satisfiable
        r0, _ = query()
        res['queries'] += 1
        if r0 == 'sat':
            res['twins_sat'] += 1
        vs = z3.simplify(v)
        if not (z3.is_true(vs) or z3.is_false(vs)):
            res['symbolic_parts'] += 1
        r, m = query(v)
        res['queries'] += 1
        if r == 'sat':
            d = model_to_inputs(N, m, args.get('global_flavour', False), args['kinds'], list(args.get('aro', (0,))))
            for name, idx in p.choices.items():
                if name.startswith('ord') or name == 'fl' or name.startswith('fl_'):
                    d[name] = idx
            for name in [k for k in d if k.startswith('fl') and k not in p.choices]:
                del d[name]
            bad = [k for k, f in parts.items() if not z3.is_true(m.eval(f, model_completion=True))]
            res['violations'].append({'inputs': d, 'parts': bad})
        elif r != 'unsat':
            res['unknown'] += 1
        if len(res['samples']) < 3 and not cyclic and obs['log']:
            res['samples'].append({'choices': dict(p.choices), 'ids': obs['ids'], 'executed': [i for i, _ in obs['log']],
                                   'exc': obs['exc'][0] if obs['exc'] else None, 'pc_literals': len(p.lits)})

    paths = ex.run(body, on_path=on_path, keep_paths=False)
    res['complete'] = ex.complete
    res['exhaustive'] = ex.exhaustive(paths) if ex.complete else 'unknown'
    res['solver_calls'] = ex.solver_calls
    res['forks'] = ex.forks
    res['secs'] = round(time.time() - t0, 2)
    teardown()
    return res
