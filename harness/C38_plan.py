"""CrossHair harness for C38(b): the REAL hail.vds.combiner.VariantDatasetCombiner planning logic
(__init__, finished, save, load, to_dict, step, _write_final, _step_vdses, _step_gvcfs, _temp_out_path,
_read_variant_datasets, Encoder, Decoder) run against "ghost" datasets.

Nothing of the repository is copied: the real module is imported through vt.loader and the
engine-facing leaves are replaced IN THAT MODULE'S NAMESPACE ONLY (the global `hail` package is not
touched: the module's name `hl` is rebound to a proxy that forwards every attribute to the real package
except the listed leaves).  A ghost dataset is a Python object carrying the list (multiset) of ORIGINAL
input ids it was built from (and, for GVCF inputs, the sample name each was imported under).

Real (not stubbed) on the checked path: json (Encoder/Decoder round trip through strings in a fake
filesystem dict), os.path.join, collections.defaultdict, hl.ReferenceGenome / hl.Interval / hl.Locus /
hl.Struct / hl.tstruct / hl.tlocus / hl.tarray / hl.tinterval (one real import interval is serialised by
to_dict and parsed back by the Decoder), VDSMetadata, CombinerOutType, FatalError.

Cuts (each registered as an assumption by harness/C38_planrun.py):
  * floor(log(n, b)) -> exact integer logarithm + table of the points where the float expression differs;
  * uuid.uuid4 -> fresh deterministic values; tmatrix -> opaque tokens; hl.get_reference -> the one genome;
  * CrossHair's f-string hook builds the lazy symbolic repr of a symbolic int instead of realising it;
  * symbolic numbers are realised when save() serialises the plan; the stdlib json loops, json.load, and
    everything after the first load (when the whole state is checked to be concrete) run with CrossHair
    tracing switched off - real code, concrete values, nothing left to fork on but the resume bools.
"""
import json as _real_json
import math
import uuid as _real_uuid

from vt import loader

loader.install()
import hail as _hl  # noqa: E402
from hail.vds.combiner import variant_dataset_combiner as vdc  # noqa: E402
from hail.vds.variant_dataset import VariantDataset as _RealVariantDataset  # noqa: E402

VariantDatasetCombiner = vdc.VariantDatasetCombiner
VDSMetadata = vdc.VDSMetadata
CombinerOutType = vdc.CombinerOutType

SAVE = 'save/plan.json'
OUT = 'out/final.vds'
TMP = 'tmp'
HEADER = 'hdr.vcf'
NMAX = 1024  # largest sample count for which the integer-log cut was compared with the float expression


class GhostFailure(Exception):
    """A ghost leaf was used in a way the real engine would reject (missing dataset, length mismatch...)."""


class Interrupt(BaseException):
    """Stands for KeyboardInterrupt / SystemExit (a BaseException that `except Exception` does not catch).  The real
    ones are not used because CrossHair's own control flow also travels on BaseException."""


def _leaf(name):
    """Every ghost engine leaf that can fail in production calls this first.  In a fault run the call whose index
    equals the (possibly symbolic) fault index raises: at most one fault per run."""
    if not W.faults_on:
        return
    i = W.leaf_calls
    W.leaf_calls = i + 1
    if i > W.leaf_bound:
        raise GhostFailure('more engine calls than any terminating run of this shape makes: not terminating')
    if not W.fault_armed:
        return
    hit = kind = False
    with _resumed_tracing():
        if W.fault_at == i:
            hit = True
            if W.fault_kind:
                kind = True
    if hit:
        W.fault_armed = False
        W.fired = (i, name)
        msg = f'injected fault in engine call #{i} ({name})'
        W.injected = Interrupt(msg) if kind else OSError(msg)
        raise W.injected


class _Null:
    def __enter__(self):
        return self

    def __exit__(self, *a):
        return False


def _resumed_tracing():
    if not W.untraced:
        return _Null()
    from crosshair.tracers import ResumedTracing
    return ResumedTracing()


# ------------------------------------------------------------------------------------------------
# world: fake filesystem + ghost dataset store, reset at the start of every run
# ------------------------------------------------------------------------------------------------
class World:
    def __init__(self):
        self.files = {}        # path -> str                (save()/load() JSON text)
        self.datasets = {}     # path -> Ghost              (written variant datasets)
        self.write_log = []    # every dataset path written, in order
        self.uuid_n = 0
        self.maxlen_calls = []
        self.loads = 0
        # ---- fault injection (only used by fault_execute) ----
        self.faults_on = False   # leaves count their calls
        self.fault_armed = False
        self.fault_at = None     # index of the leaf call that raises (may be a CrossHair symbolic int)
        self.fault_kind = False  # False -> OSError, True -> Interrupt (a BaseException)
        self.leaf_calls = 0
        self.leaf_bound = 0
        self.fired = None        # (index, leaf name)
        self.injected = None     # the exception instance that was raised
        self.untraced = False    # the real code is running with CrossHair's tracer off
        self.saves = 0
        self.save_bound = None
        self.flags = {}


W = World()


class Ghost:
    """A variant dataset: `ids` = original inputs it was built from; `pairs` = (gvcf path, sample id)."""

    def __init__(self, ids, pairs):
        self.ids = list(ids)
        self.pairs = list(pairs)
        self.reference_data = _RefData()

    def write(self, path, **kwargs):
        _leaf('VariantDataset.write')  # a failing write leaves no dataset at the path
        _store(path, self)


class _RefData:
    globals = ()  # `ref_block_max_length_field not in vds.reference_data.globals` -> True


def _store(path, ghost):
    if not isinstance(path, str):
        raise GhostFailure(f'dataset path is not a str: {path!r}')
    W.datasets[path] = Ghost(ghost.ids, ghost.pairs)
    W.write_log.append(path)


# ---- leaves of hail.vds.combiner.combine imported by name into the module ----------------------
def _combine_variant_datasets(vdss, **kwargs):
    _leaf('combine_variant_datasets')
    ids, pairs = [], []
    for v in vdss:
        if not isinstance(v, Ghost):
            raise GhostFailure('combine_variant_datasets on a non-dataset')
        ids = ids + v.ids
        pairs = pairs + v.pairs
    return Ghost(ids, pairs)


def _calculate_new_intervals(ht, n, check_path):
    _leaf('calculate_new_intervals')
    if not isinstance(ht, _RefData):
        raise GhostFailure('calculate_new_intervals expects reference data')
    return ['ghost-interval'], None


def _identity_stream(stream, *a, **k):
    return stream


def _combine_table(ht, *a, **k):
    if not isinstance(ht, _Table):
        raise GhostFailure('combine on a non-table')
    return ht


def _quiet(*a, **k):
    return None


# ---- hl.vds.* -----------------------------------------------------------------------------------
def _read_vds(path, *, intervals=None, **kwargs):
    _leaf('read_vds')
    g = W.datasets.get(path)
    if g is None:
        raise GhostFailure(f'read_vds: no dataset at {path!r}')
    return Ghost(g.ids, g.pairs)


def _write_variant_datasets(vdss, paths, *, overwrite=False, codec_spec=None):
    if len(vdss) != len(paths):
        raise GhostFailure('write_variant_datasets: number of datasets and paths differ')
    for v, p in zip(vdss, paths):
        _leaf('write_variant_datasets')  # datasets before the failing one stay written, the failing one is absent
        _store(p, v)


def _store_ref_block_max_length(path):
    _leaf('store_ref_block_max_length')
    if path not in W.datasets:
        raise GhostFailure(f'store_ref_block_max_length: no dataset at {path!r}')
    W.maxlen_calls.append(path)


# ---- fake hl.current_backend().fs ---------------------------------------------------------------
def _realize(s):
    """The fake filesystem holds plain strings: a CrossHair symbolic string (json renders a symbolic int as a
    lazy symbolic str) is made concrete here, exactly as a real file write would (forks one path per value)."""
    from crosshair.core import realize
    from crosshair.tracers import NoTracing, is_tracing
    if not is_tracing():
        return s
    with NoTracing():
        concrete = type(s) is str
    return s if concrete else realize(s)


class _Writer:
    def __init__(self, path):
        self.path = path
        self.chunks = []

    def write(self, s):
        self.chunks.append(s)

    def __enter__(self):
        return self

    def __exit__(self, et, ev, tb):
        if et is None:
            W.files[self.path] = _realize(''.join(self.chunks))
        return False


class _Reader:
    def __init__(self, text):
        self.text = text

    def read(self, *a):
        t, self.text = self.text, ''
        return t

    def __enter__(self):
        return self

    def __exit__(self, et, ev, tb):
        return False


class _FS:
    def exists(self, path):
        if path in W.files:
            return True
        for suffix in ('/reference_data/_SUCCESS', '/variant_data/_SUCCESS'):
            if path.endswith(suffix) and path[: -len(suffix)] in W.datasets:
                return True
        return path in W.datasets

    def open(self, path, mode='r', *a, **k):
        if 'w' in mode:
            W.saves += 1
            if W.save_bound is not None and W.saves > W.save_bound:
                raise GhostFailure('more plan saves than any terminating run of this shape makes: not terminating')
            return _Writer(path)
        if path not in W.files:
            raise FileNotFoundError(path)
        return _Reader(W.files[path])

    def copy(self, src, dst):
        if src not in W.files:
            raise FileNotFoundError(src)
        W.files[dst] = W.files[src]

    def remove(self, path):
        if path not in W.files:
            raise FileNotFoundError(path)
        del W.files[path]


class _Backend:
    fs = _FS()


# ---- ghost expressions used by _step_gvcfs --------------------------------------------------------
class _Lit:
    """hl.literal(x) / hl.struct(**kw): a concrete Python value standing for a hail expression."""

    def __init__(self, value):
        self.value = value

    def map(self, f):
        return _Lit([f(x) for x in self.value])

    def __getitem__(self, k):
        if isinstance(k, _Col):
            return _Col([self.value[i] for i in k.vals])
        return self.value[k]


class _Col:
    """A per-row column of a ghost range table (one Python value per row)."""

    def __init__(self, vals):
        self.vals = vals

    def __getattr__(self, name):
        if name.startswith('__'):
            raise AttributeError(name)
        return _Col([getattr(v, name) for v in self.vals])

    def __getitem__(self, i):
        return _Col([v[i] for v in self.vals])


class _Header:
    def __init__(self, path):
        if not isinstance(path, str):
            raise GhostFailure('get_vcf_header_info on a non-path')
        self.sampleIDs = [sample_of(path)]


def sample_of(path):
    return 's:' + path


def _get_vcf_header_info(x):
    if isinstance(x, _Col):
        return _Col([_Header(p) for p in x.vals])
    return _Header(x)


class _RangeTable:
    def __init__(self, n):
        self.n = n
        self.idx = _Col(list(range(n)))

    def annotate(self, **kw):
        t = _RangeTable(self.n)
        for k, v in kw.items():
            setattr(t, k, v)
        return t

    def aggregate(self, agg):
        _leaf('Table.aggregate')
        return agg


def _range_table(n, n_partitions=None):
    return _RangeTable(n)


def _collect(col):
    return list(col.vals)


class _Stream:
    def __init__(self, ids):
        self.ids = ids


def _import_gvcf_interval(path, file_num, contig, start, end, header_info, **kwargs):
    if not isinstance(path, str):
        raise GhostFailure('import_gvcf_interval: path is not a str')
    return _Stream([path])


def _zip_join_producers(contexts, make_producer, key, join_f):
    ids = []
    for c in contexts.value:
        ids = ids + make_producer(c).ids
    return _Stream(ids)


def _enumerate(lit):
    return _Lit([(i, x) for i, x in enumerate(lit.value)])


class _Table:
    def __init__(self, ids, samples):
        self.ids = ids
        self.samples = samples

    def _unlocalize_entries(self, entries, cols, col_key):
        return _MT(self.ids, self.samples)


class _MT:
    def __init__(self, ids, samples):
        self.ids = ids
        self.samples = samples

    def _key_rows_by_assert_sorted(self, *keys):
        return self


def _generate(contexts, partitions, rowfn, globals):
    ctxs = contexts.value
    if len(ctxs) != len(partitions) or len(ctxs) == 0:
        raise GhostFailure('Table._generate: contexts/partitions mismatch or empty')
    ids = None
    for c in ctxs:
        s = rowfn(c, globals)
        if ids is None:
            ids = s.ids
        elif ids != s.ids:
            raise GhostFailure('Table._generate: partitions import different files')
    samples = []
    for col in globals.value['g'].value:           # hl.struct(g=[struct(__cols=[struct(s=<id>)])...])
        (cols,) = col.value.values()
        for c in cols:
            samples.append(c.value['s'])
    return _Table(ids, samples)


def _struct(**kw):
    return _Lit(kw)


class _GhostVariantDataset:
    """Stands for hail.vds.VariantDataset inside the combiner module: constructing one from the two
    matrix tables of _step_gvcfs yields a Ghost carrying exactly the imported paths."""

    ref_block_max_length_field = _RealVariantDataset.ref_block_max_length_field
    _reference_path = staticmethod(_RealVariantDataset._reference_path)
    _variants_path = staticmethod(_RealVariantDataset._variants_path)

    def __new__(cls, reference_data, variant_data):
        _leaf('gvcf import + VariantDataset(...)')
        if not isinstance(reference_data, _MT) or not isinstance(variant_data, _MT):
            raise GhostFailure('VariantDataset(...) expects two matrix tables')
        if reference_data.ids != variant_data.ids or reference_data.samples != variant_data.samples:
            raise GhostFailure('reference and variant data built from different inputs')
        if len(reference_data.ids) != len(reference_data.samples):
            raise GhostFailure('number of sample ids differs from number of gvcfs in a merge group')
        return Ghost(reference_data.ids, list(zip(reference_data.ids, reference_data.samples)))


class _GhostMatrixType:
    """Opaque matrix type token (hail's dtype parser needs `parsimonious`, absent here)."""

    def __init__(self, tag):
        self.tag = tag

    def to_dict(self):
        return {'ghost_matrix_type': self.tag}

    @staticmethod
    def _from_json(j):
        return _GhostMatrixType(j['ghost_matrix_type'])

    def __eq__(self, other):
        return isinstance(other, _GhostMatrixType) and other.tag == self.tag

    def __hash__(self):
        return hash(self.tag)


# ---- floor(log(n, b)) cut -----------------------------------------------------------------------------
def _ilog(n, b):
    """floor(log_b(n)) for integers n >= 1, b >= 2, by repeated multiplication (no floats)."""
    k = 0
    p = b
    while p <= n:
        p = p * b
        k += 1
    return k


def float_log_exceptions(nmax=NMAX, bases=(2, 3, 4)):
    """(n, b) -> math.floor(math.log(n, b)) wherever the float expression of the real code differs from the
    exact integer logarithm.  Computed with the real float expression at import (e.g. (243, 3) -> 4)."""
    out = {}
    for b in bases:
        for n in range(1, nmax + 1):
            f = math.floor(math.log(n, b))
            if f != _ilog(n, b):
                out[(n, b)] = f
    return out


LOG_EXCEPTIONS = float_log_exceptions()


class _LogValue:
    def __init__(self, v):
        self.v = v


def _log(n, b):
    if n <= 0:
        raise ValueError('math domain error')
    if n > NMAX or not (2 <= b <= 4):
        raise GhostFailure('integer-log cut used outside the range it was validated on')
    for (en, eb), ev in LOG_EXCEPTIONS.items():
        if n == en and b == eb:
            return _LogValue(ev)
    return _LogValue(_ilog(n, b))


def _floor(x):
    if isinstance(x, _LogValue):
        return x.v
    return math.floor(x)


# ---- uuid ------------------------------------------------------------------------------------------------
def _uuid4():
    W.uuid_n += 1
    return _real_uuid.UUID(int=W.uuid_n)


# ---- engine tweak: f-strings over symbolic ints ---------------------------------------------------------
def _patch_crosshair_fstrings():
    """CrossHair 0.0.110 realises a symbolic int that appears in an f-string (format(x, '') -> deep_realize),
    which would enumerate every n_samples value because the real code logs `f'... {new_n_samples} samples'`.
    format(x, '') == repr(x) for ints, and CrossHair's own SymbolicInt.__repr__ builds that string lazily
    (forking only on the number of digits), so the f-string hook is pointed at it for that one case."""
    try:
        from crosshair import opcode_intercept as oi
        from crosshair.libimpl.builtinslib import SymbolicInt
        from crosshair.tracers import NoTracing
    except Exception:  # pragma: no cover
        return
    if getattr(oi.FormatStashingValue, '_c38_patched', False):
        return
    orig = oi.FormatStashingValue.__format__

    def __format__(self, fmt):
        with NoTracing():
            lazy = type(self.value) is SymbolicInt and type(fmt) is str and fmt == ''
        if lazy:
            self.formatted = self.value.__repr__()
            return ''
        return orig(self, fmt)

    oi.FormatStashingValue.__format__ = __format__
    oi.FormatStashingValue._c38_patched = True


_patch_crosshair_fstrings()


# ---- CrossHair tracing control -----------------------------------------------------------------------------
def _tracing():
    try:
        from crosshair.tracers import is_tracing
        return is_tracing()
    except Exception:  # pragma: no cover
        return False


def _is_concrete(x, depth=0):
    """Call with tracing off: True iff x is built only from real str/int/bool/None/list/tuple/dict."""
    t = type(x)
    if t in (str, int, bool, type(None)):
        return True
    if depth > 6:
        return False
    if isinstance(x, (list, tuple)) and t.__module__ != 'crosshair.libimpl.builtinslib':
        return all(_is_concrete(y, depth + 1) for y in x)
    if isinstance(x, dict) and t.__module__ != 'crosshair.libimpl.builtinslib':
        return all(_is_concrete(k, depth + 1) and _is_concrete(v, depth + 1) for k, v in x.items())
    return False


def _realize_tree(x):
    """The same JSON-like tree with every symbolic leaf made concrete (one path per value)."""
    from crosshair.tracers import NoTracing
    with NoTracing():
        return _realize_tree_nt(x)


def _realize_tree_nt(x):
    t = type(x)
    if t in (str, int, bool, type(None)):
        return x
    if t is list:
        return [_realize_tree_nt(y) for y in x]
    if isinstance(x, tuple):
        vals = [_realize_tree_nt(y) for y in x]
        return t(*vals) if hasattr(x, '_fields') else tuple(vals)
    if t is dict:
        return {_realize_tree_nt(k): _realize_tree_nt(v) for k, v in x.items()}
    if t.__module__.startswith('crosshair.'):
        from crosshair.core import deep_realize
        return deep_realize(x)
    return x


def _state_is_concrete(c):
    """Tracing must be off.  True iff the combiner plan and the ghost store hold only concrete values."""
    slots = [getattr(c, name) for name in ('_branch_factor', '_gvcf_batch_size', '_target_records', '_gvcfs',
                                           '_gvcf_sample_names', '_gvcf_external_header', '_call_fields')]
    if not all(_is_concrete(v) for v in slots):
        return False
    if not _is_concrete({k: [tuple(md) for md in v] for k, v in c._vdses.items()}):
        return False
    return all(_is_concrete(g.ids) and _is_concrete(g.pairs) for g in W.datasets.values())


class _Json:
    """The module's `json`: the REAL json.dump/json.load with the real Encoder/Decoder classes.  Under CrossHair
    the stdlib encoder/decoder loops run with tracing off on concrete data (the tree returned by the traced
    Encoder.default/to_dict is realised first - the numbers would be realised when written as text anyway),
    while Encoder.default, to_dict, Decoder._object_hook and __init__ run traced."""

    def __getattr__(self, name):
        return getattr(_real_json, name)

    @staticmethod
    def dump(obj, fp, *, cls=None, **kw):
        if not _tracing():
            return _real_json.dump(obj, fp, cls=cls, **kw)
        from crosshair.tracers import NoTracing, ResumedTracing
        enc = (cls or _real_json.JSONEncoder)(**kw)
        real_default = enc.default

        def default(o):
            with ResumedTracing():
                return _realize_tree(real_default(o))

        enc.default = default
        top = _realize_tree(obj)
        with NoTracing():
            text = ''.join(enc.iterencode(top))
        fp.write(text)

    @staticmethod
    def load(fp, *, cls=None, **kw):
        if not _tracing():
            return _real_json.load(fp, cls=cls, **kw)
        from crosshair.tracers import NoTracing
        text = _realize(fp.read())
        with NoTracing():  # concrete text in, concrete plan out: Decoder._object_hook and __init__ run untraced
            return _real_json.loads(text, cls=cls, **kw)


def _untraced(f):
    """A real hail constructor that only ever receives concrete interval/locus/reference-genome objects: run it
    without CrossHair's tracer (hail's typecheck wrappers are very slow under tracing)."""
    def call(*a, **k):
        if not _tracing():
            return f(*a, **k)
        from crosshair.tracers import NoTracing
        with NoTracing():
            return f(*a, **k)
    return call


# ---- namespace proxies -------------------------------------------------------------------------------------
class _Proxy:
    def __init__(self, real, over):
        object.__setattr__(self, '_real', real)
        object.__setattr__(self, '_over', over)

    def __getattr__(self, name):
        over = object.__getattribute__(self, '_over')
        if name in over:
            return over[name]
        return getattr(object.__getattribute__(self, '_real'), name)


RG = _hl.ReferenceGenome('GRCh38', ['chr1'], {'chr1': 1000}, _builtin=True)


def _get_reference(name):
    if name != 'GRCh38':
        raise GhostFailure(f'unknown reference genome {name!r}')
    return RG


def _eval(x):
    _leaf('hl.eval')
    return x


def _get_flags(*names):
    return {n: W.flags[n] for n in names if n in W.flags}


def _set_flags(**kw):
    W.flags.update(kw)


HL_OVERRIDES = {
    'vds': _Proxy(_hl.vds, {
        'read_vds': _read_vds,
        'write_variant_datasets': _write_variant_datasets,
        'store_ref_block_max_length': _store_ref_block_max_length,
    }),
    'utils': _Proxy(_hl.utils, {'range_table': _range_table}),
    'agg': _Proxy(_hl.agg, {'collect': _collect}),
    'Table': _Proxy(_hl.Table, {'_generate': _generate}),
    'current_backend': lambda: _Backend,
    'Struct': _untraced(_hl.Struct),
    'Interval': _untraced(_hl.Interval),
    'tstruct': _untraced(_hl.tstruct),
    'tarray': _untraced(_hl.tarray),
    'tinterval': _untraced(_hl.tinterval),
    'get_reference': _get_reference,
    'eval': _eval,
    '_get_flags': _get_flags,
    '_set_flags': _set_flags,
    'get_vcf_header_info': _get_vcf_header_info,
    'literal': _Lit,
    'enumerate': _enumerate,
    'struct': _struct,
    'rbind': lambda x, f: f(x),
    '_zip_join_producers': _zip_join_producers,
    'import_gvcf_interval': _import_gvcf_interval,
}

MODULE_OVERRIDES = {
    'hl': _Proxy(_hl, HL_OVERRIDES),
    'json': _Json(),
    'uuid': _Proxy(_real_uuid, {'uuid4': _uuid4}),
    'VariantDataset': _GhostVariantDataset,
    'tmatrix': _GhostMatrixType,
    'combine_variant_datasets': _combine_variant_datasets,
    'calculate_new_intervals': _calculate_new_intervals,
    'combine': _combine_table,
    'combine_r': _combine_table,
    'make_reference_stream': _identity_stream,
    'make_variant_stream': _identity_stream,
    'info': _quiet,
    'warning': _quiet,
    'floor': _floor,
    'log': _log,
}
for _k, _v in MODULE_OVERRIDES.items():
    if not hasattr(vdc, _k):
        raise ImportError(f'combiner module no longer has the name {_k!r}; the C38 harness must be revised')
    setattr(vdc, _k, _v)


# ------------------------------------------------------------------------------------------------
# the oracle
# ------------------------------------------------------------------------------------------------
IMPORT_INTERVAL = _hl.Interval(_hl.Locus('chr1', 1, RG), _hl.Locus('chr1', 1000, RG), includes_end=True)


def import_interval():
    return IMPORT_INTERVAL  # immutable; built once at import


def new_combiner(n_gvcfs, vds_sizes, branch_factor, batch_size, external_header):
    gvcfs = [f'g{i}' for i in range(n_gvcfs)]
    vdses = [VDSMetadata(f'v{i}', n) for i, n in enumerate(vds_sizes)]
    for md in vdses:
        W.datasets[md.path] = Ghost([md.path], [])
    return VariantDatasetCombiner(
        save_path=SAVE,
        output_path=OUT,
        temp_path=TMP,
        reference_genome=RG,
        dataset_type=CombinerOutType(_GhostMatrixType('reference'), _GhostMatrixType('variant')),
        branch_factor=branch_factor,
        target_records=10,
        gvcf_batch_size=batch_size,
        call_fields=['PGT'],
        vdses=vdses,
        gvcfs=gvcfs,
        gvcf_sample_names=[sample_of(g) for g in gvcfs] if external_header else None,
        gvcf_external_header=HEADER if external_header else None,
        gvcf_import_intervals=[import_interval()],
    )


def execute(n_gvcfs, vds_sizes, branch_factor, batch_size, resume, external_header=True):
    """Runs the real combiner to completion on ghosts.  `resume` is a list of bools (or an int bit mask):
    entry i says "the process stops before step i and resumes from the plan saved at that moment"
    (save() then VariantDatasetCombiner.load()).  Returns (ok, reason, steps, loads)."""
    global W
    W = World()
    branch_factor = case_split(branch_factor, 2, 4)
    if n_gvcfs > 0:  # without gvcfs the batch size takes part in no arithmetic
        batch_size = case_split(batch_size, 1, 3)
    n_inputs = n_gvcfs + len(vds_sizes)
    bound = n_inputs + 8
    steps = 0
    try:
        c = new_combiner(n_gvcfs, vds_sizes, branch_factor, batch_size, external_header)
        concrete = False  # becomes True once plan and store hold no symbolic value (after the first load)
        while not c.finished:
            if steps >= bound:
                return False, f'not finished after {bound} steps', steps, W.loads
            if _bit(resume, steps):
                c = _untraced_if(concrete, _save_and_load, c)
                W.loads += 1
                if not concrete and _tracing():
                    from crosshair.tracers import NoTracing
                    with NoTracing():
                        concrete = _state_is_concrete(c)
            _untraced_if(concrete, _step, c)
            steps += 1
    except Exception as e:  # CrossHair's control exceptions derive from BaseException
        return False, f'raised {type(e).__name__}: {e}', steps, W.loads
    ok, why = check_final(n_gvcfs, len(vds_sizes))
    return ok, why, steps, W.loads


def check_final(n_gvcfs, n_vdses):
    """The oracle on the final state of the ghost world: exactly one dataset written to the output path, built from
    every given input exactly once, every gvcf under its own sample name."""
    expected = [f'g{i}' for i in range(n_gvcfs)] + [f'v{i}' for i in range(n_vdses)]
    finals = [p for p in W.write_log if p == OUT]
    if len(finals) != 1:
        return False, f'{len(finals)} datasets written to the output path'
    got = W.datasets[OUT]
    if sorted(got.ids) != sorted(expected):
        return False, f'final dataset built from {sorted(got.ids)}, expected {sorted(expected)}'
    for path, sample in got.pairs:
        if sample != sample_of(path):
            return False, f'gvcf {path} imported under sample name {sample!r}'
    if len(got.pairs) != n_gvcfs:
        return False, 'final dataset lost gvcf sample ids'
    return True, 'ok'


def _save_and_load(c):
    c.save()
    return VariantDatasetCombiner.load(SAVE)


def _step(c):
    c.step()


def _untraced_if(concrete, f, c):
    """Once every value in the plan is concrete the real code is executed without CrossHair's tracer (there is
    nothing symbolic left for it to fork on; only the remaining resume bools are consulted, traced, in execute)."""
    if not concrete:
        return f(c)
    from crosshair.tracers import NoTracing
    with NoTracing():
        return f(c)


def case_split(x, lo, hi):
    """Identity on ints; under CrossHair it forks one path per value of lo..hi so that the products
    branch_factor * batch_size and branch_factor ** k stay linear for z3.  Values outside lo..hi pass through."""
    for v in range(lo, hi + 1):
        if x == v:
            return v
    return x


def _bit(resume, i):
    if isinstance(resume, (list, tuple)):
        return i < len(resume) and bool(resume[i])
    return bool((resume >> i) & 1)


def property_holds(n_gvcfs, vds_sizes, branch_factor, batch_size, resume_mask, external_header=True):
    return execute(n_gvcfs, vds_sizes, branch_factor, batch_size, resume_mask, external_header)[0]


def unreached(n_gvcfs, vds_sizes, branch_factor, batch_size, resume, external_header, min_steps, min_loads):
    """Reachability twin body: False (=> CrossHair refutes) iff some input completes correctly in at least
    `min_steps` steps with at least `min_loads` resumptions."""
    ok, _, steps, loads = execute(n_gvcfs, vds_sizes, branch_factor, batch_size, resume, external_header)
    return not (ok and steps >= min_steps and loads >= min_loads)


# ------------------------------------------------------------------------------------------------
# fault inside a step, through the REAL run(), then resume from whatever plan is on disk
# ------------------------------------------------------------------------------------------------
def fault_execute(n_gvcfs, vds_sizes, branch_factor, batch_size, fault_index, fault_kind, external_header=True, smax=64):
    """The real `run()` (save before every step, final save) on ghosts, with ONE injected fault: the engine-leaf call
    number `fault_index` (0-based, counted over the run) raises OSError (`fault_kind` False) or Interrupt, a
    BaseException (`fault_kind` True); an index beyond the last call means no fault.  After the fault a new
    process resumes: the real `load_combiner(save_path)` on whatever plan the real code left on disk, then the real
    `run()` without further fault.  Returns (ok, reason, info) with info = {'fired', 'saves_run1', 'saves_run2'}.

    run() serialises the plan before the first step, which makes every number concrete, so all numbers are realised
    here first (one CrossHair path per value) and the real code then runs with CrossHair's tracer off; only the
    comparison "is this the failing call?" and the fault kind are evaluated symbolically (tracing resumed)."""
    global W
    W = World()
    branch_factor = case_split(branch_factor, 2, 4)
    batch_size = case_split(batch_size, 1, 3)
    vds_sizes = [case_split(s, 1, smax) for s in vds_sizes]
    tracing = _tracing()
    if not tracing:
        return _fault_body(n_gvcfs, vds_sizes, branch_factor, batch_size, fault_index, fault_kind, external_header)
    from crosshair.tracers import NoTracing
    with NoTracing():
        if not _is_concrete([branch_factor, batch_size, vds_sizes, n_gvcfs, external_header]):
            return False, 'harness: arguments outside the ranges the conditions declare', {'fired': None}
        W.untraced = True
        return _fault_body(n_gvcfs, vds_sizes, branch_factor, batch_size, fault_index, fault_kind, external_header)


def _fault_body(n_gvcfs, vds_sizes, branch_factor, batch_size, fault_index, fault_kind, external_header):
    n_inputs = n_gvcfs + len(vds_sizes)
    info = {'fired': None, 'saves_run1': 0, 'saves_run2': 0}
    W.faults_on = True
    W.fault_armed = True
    W.fault_at = fault_index
    W.fault_kind = fault_kind
    W.leaf_bound = 16 * (n_inputs + 8) + 8 * n_inputs * n_inputs
    W.save_bound = n_inputs + 10        # run() saves once per step and once at the end
    args = (n_gvcfs, vds_sizes, branch_factor, batch_size, external_header)
    try:
        c = new_combiner(*args)
        try:
            c.run()
        except (OSError, Interrupt) as e:
            if e is not W.injected:
                return False, f'raised {type(e).__name__}: {e}', info
        info['saves_run1'] = W.saves
        if W.fired is not None:
            info['fired'] = list(W.fired)
            W.fault_armed = False
            W.saves = 0
            W.leaf_calls = 0
            c2 = _resume_from_disk(args)
            c2.run()
            info['saves_run2'] = W.saves
    except Exception as e:  # CrossHair's control exceptions derive from BaseException
        return False, f'raised {type(e).__name__}: {e}', info
    ok, why = check_final(n_gvcfs, len(vds_sizes))
    return ok, why, info


def _resume_from_disk(args):
    """What a user does after a failed run: load the saved plan (the real module-level load_combiner, real Decoder).
    If no plan was ever saved, start again from the original arguments (as hl.vds.new_combiner does, including its
    _raise_if_output_exists check).  If the real code refuses because a complete output already exists, follow its
    message (move/delete the output) and try once more."""
    for attempt in (0, 1):
        try:
            if SAVE in W.files:
                return vdc.load_combiner(SAVE)
            c = new_combiner(*args)
            c._raise_if_output_exists()
            return c
        except vdc.FatalError as e:
            if attempt or 'combiner output already exists' not in str(e) or OUT not in W.datasets:
                raise
            del W.datasets[OUT]
            W.write_log = [p for p in W.write_log if p != OUT]


def fault_property_holds(n_gvcfs, vds_sizes, branch_factor, batch_size, fault_index, fault_kind, external_header=True,
                         smax=64):
    return fault_execute(n_gvcfs, vds_sizes, branch_factor, batch_size, fault_index, fault_kind, external_header, smax)[0]


def fault_unreached(n_gvcfs, vds_sizes, branch_factor, batch_size, fault_index, fault_kind, external_header=True,
                    smax=64):
    """Reachability twin body: False (=> CrossHair refutes) iff for some input a fault really fires inside a step and
    the resumed run takes at least one more step and completes correctly."""
    ok, _, info = fault_execute(n_gvcfs, vds_sizes, branch_factor, batch_size, fault_index, fault_kind, external_header, smax)
    return not (ok and info['fired'] is not None and info['saves_run2'] >= 2)
