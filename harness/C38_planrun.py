"""C38 part (b): runs the CrossHair conditions over the real VariantDatasetCombiner plan logic and records one
obligation per condition on the Run object handed in by props/C38.py.

    run(R)            -> None   (R.encode / R.assume / R.bounds.update / R.ob / R.finding)
    replay(d) -> int            (1 if the replay dict still violates the property on the real code)
"""
import ast
import importlib
import time

from vt import chrun, loader
from vt.common import HarnessError

from harness import C38_plan_template as T

WORKERS = 6
SRC = 'hail/python/hail/vds/combiner/variant_dataset_combiner.py'
ENCODED = {
    'VariantDatasetCombiner': ['__init__', 'finished', 'save', 'run', 'load', '_raise_if_output_exists', 'to_dict',
                               '_num_vdses', 'step', '_write_final', '_step_vdses', '_step_gvcfs', '_temp_out_path',
                               '_read_variant_datasets'],
    'Encoder': ['default'],
    'Decoder': ['__init__', '_object_hook'],
    'VDSMetadata': None,
    'CombinerOutType': None,
    'load_combiner': None,
}

ASSUMPTIONS = (
    'C38(b): datasets are ghosts that carry the list of original input ids they were built from; hl.vds.read_vds, '
    'combine_variant_datasets, hl.vds.write_variant_datasets, VariantDataset.write, calculate_new_intervals, '
    'hl.vds.store_ref_block_max_length, combine, combine_r, make_reference_stream, make_variant_stream, '
    'hl.Table._generate, hl._zip_join_producers, hl.import_gvcf_interval, hl.literal, hl.enumerate, hl.struct, hl.rbind, '
    'hl.eval, hl.get_vcf_header_info, hl.utils.range_table(...).annotate(...).aggregate(...), hl.agg.collect, '
    'VariantDataset(...), info and warning are replaced in the combiner module\'s namespace only by ghost leaves that '
    'propagate those ids (a read of a path nobody wrote, or a length mismatch, is a failure); the rowfn lambdas of '
    '_step_gvcfs are really executed by the ghost Table._generate, so a group\'s ghost carries exactly the paths the '
    'real lambda would import and the sample ids the real globals expression holds',
    'C38(b): hl.current_backend().fs is a dict of strings (exists/open/copy/remove); save() and load() round-trip '
    'through the real Encoder/Decoder classes and the real json module; a dataset directory reports _SUCCESS once '
    'written',
    'C38(b): floor(log(n, b)) is cut to an exact integer logarithm (repeated multiplication) plus a table of the '
    'points where the float expression differs (computed with math.floor(math.log(n, b)) for all 1 <= n <= 1024, '
    'b in {2,3,4} when the harness is imported; the only such point is n=243, b=3 where the float log is '
    '4.999999999999999 (similarly log(125, 5) = 3.0000000000000004), and it is outside the bounds checked, n <= 240); '
    'a difference would only move a dataset to a neighbouring bin, it cannot change which inputs are merged in total',
    'C38(b): uuid.uuid4 returns a fresh deterministic value on every call (distinctness of uuid4 values is assumed, '
    'so temporary paths written before and after a resume never collide)',
    'C38(b): hail matrix types are opaque tokens (tmatrix._from_json needs the parsimonious type parser, absent '
    'offline); hl.get_reference returns the one reference genome object used; the reference genome, the import '
    'interval, hl.Struct, hl.Interval, hl.tstruct, hl.tlocus, hl.tarray, hl.tinterval are the real classes',
    'C38(b): one GVCF import interval; call_fields, info/entry fields to keep, contig recoding and filters are fixed '
    'defaults (they do not occur in any plan decision)',
    'C38(b): "stopping after any step and resuming" is modelled as save() followed by VariantDatasetCombiner.load() '
    'of the saved plan immediately before a step (run() saves before every step); a crash in the middle of a step, '
    'after some writes but before the next save, is not modelled',
    'C38(b): CrossHair 0.0.110 is patched in the harness process so that an f-string over a symbolic int builds '
    'CrossHair\'s own lazy symbolic repr instead of realising the int (format(x, "") == repr(x) for ints); '
    'branch_factor (and gvcf_batch_size when there are gvcfs) are case-split into one path per value so products stay '
    'linear for z3',
    'C38(b): symbolic numbers in the plan are realised (one CrossHair path per value) when save() serialises it: the '
    'tree returned by the traced Encoder.default/to_dict is realised, then the real json encoder loop runs on it with '
    'CrossHair tracing switched off; json.load (real Decoder._object_hook and __init__) runs with tracing off on the '
    'concrete text; after the first load every value of the plan and the ghost store is checked to be a plain '
    'str/int/list/tuple/dict and from then on the real step()/save()/load() run with tracing off (concrete execution '
    'of the real code; only the remaining resume bools are still symbolic and are read with tracing on); the real '
    'constructors hl.Struct, hl.Interval, hl.tstruct, hl.tarray, hl.tinterval only ever receive concrete interval/'
    'locus objects and also run with tracing off',
    'C38(b): CrossHair path exploration is exhaustive when it reports "Confirmed over all paths"',
    'C38(b) fault family: a fault is an exception raised by ONE engine-leaf call of the run (hl.vds.read_vds, '
    'calculate_new_intervals, combine_variant_datasets, VariantDataset.write of an intermediate or of the final output, '
    'each dataset of hl.vds.write_variant_datasets, hl.vds.store_ref_block_max_length, hl.eval of the vcf header, the '
    'sample-id Table.aggregate, the gvcf import + VariantDataset(...) construction); the failing call is the symbolic '
    'index fi counted over the whole run, at most one fault per run; the exception is OSError or Interrupt, a '
    'BaseException subclass standing for KeyboardInterrupt/SystemExit (the real ones are not raised under CrossHair); a '
    'failing write leaves no dataset at its path and datasets written earlier in the same call stay; plan-file '
    'operations (save) do not fail; a partially written dataset directory is not modelled',
    'C38(b) fault family: the combiner is driven through the REAL VariantDatasetCombiner.run() (hl._get_flags / '
    'hl._set_flags are a dict); the state on disk after the fault is whatever the real code saved; the resume is the real '
    'module-level load_combiner(save_path) followed by the real run() with no further fault (if no plan file exists the '
    'combiner is constructed again from the original arguments and _raise_if_output_exists() is called, as '
    'hl.vds.new_combiner does; if load_combiner raises FatalError "combiner output '
    'already exists ... move or delete it before continuing" the output dataset is deleted, as the message says, and the '
    'plan is loaded again); non-termination = more plan saves than inputs + 10 or more engine calls than '
    '16*(inputs+8)+8*inputs^2 in one run()',
    'C38(b) fault family: run() serialises the plan before the first step, which makes every number concrete, so '
    'branch_factor, gvcf_batch_size and every n_samples are case-split up front (one CrossHair path per value), checked '
    'to be plain ints, and the real code then runs with CrossHair tracing off; the comparison "is this engine call the '
    'failing one" and the fault kind are evaluated with tracing resumed, so CrossHair forks exactly once per engine '
    'call of the run (every crash point of every realised input is a path)',
)


def cfg(n, m, hdr, resume, smax, bf=None, fault=False, bsmax=3):
    return {'N': n, 'M': m, 'hdr': hdr, 'resume': resume, 'smax': smax if m else 0, 'bf': bf, 'fault': fault,
            'bsmax': bsmax}


def fcfg(n, m, hdr, smax, bf=None, bsmax=3):
    """Fault family: real run() + one engine fault + load_combiner().run().  `bsmax` < 3 narrows gvcf_batch_size (used
    for vds-only shapes in the quick tier: the batch size takes part in no decision there, but run() serialises it, so
    every value costs a full set of paths)."""
    return cfg(n, m, hdr, False, smax, bf, fault=True, bsmax=bsmax)


def configs(tier):
    """Shapes per tier (longest first so that the 6 workers stay busy)."""
    if tier == 'quick':
        return QUICK
    return THOROUGH


# (N gvcfs, M vdses, external header?, resume?, smax, branch factor shard) - measured CPU seconds in comments
QUICK = [
    fcfg(0, 5, True, 2, 2, bsmax=1),  # 33  (the 5-vds, branch factor 2 shape: four vds steps)
    fcfg(0, 4, True, 2, 2, bsmax=1),  # 19
    fcfg(0, 3, True, 2, bsmax=1),     # 11
    cfg(1, 2, True, False, 40, 2),  # 30
    fcfg(2, 2, True, 2),           # 23
    fcfg(1, 2, False, 2),          # 22
    cfg(0, 3, True, False, 8),     # 25
    cfg(1, 1, True, True, 4),      # 21
    cfg(0, 2, True, True, 3),      # 18
    fcfg(1, 1, True, 4),           # 18
    cfg(2, 1, False, False, 40),   # 13
    cfg(1, 1, False, False, 40),   # 15
    cfg(0, 2, True, False, 40),    # 14
    cfg(2, 1, True, True, 2),      # 13
    fcfg(2, 1, False, 2),          # 13
    cfg(0, 1, True, True, 4),      # 17
    cfg(6, 0, True, True, 0),      # 13
    fcfg(4, 0, False, 0),          # 10
    fcfg(6, 0, False, 0),          # 10
    fcfg(3, 0, True, 0),           # 9
    cfg(3, 0, False, True, 0),     # 9
    cfg(4, 0, False, True, 0),     # 8
    cfg(2, 0, True, True, 0),
    cfg(1, 0, False, True, 0),
]


def _thorough():
    """(config, measured/estimated CPU seconds of the check condition) - sorted longest first below."""
    t = []
    S, R_ = False, True          # no resume / resume
    H, F = True, False           # external header / header from the files
    # ---- no resume: VDS sizes symbolic over the widest range that confirms -----------------------------------------
    t += [(cfg(0, 1, H, S, 40), 6), (cfg(0, 2, H, S, 40), 14)]
    t += [(cfg(0, 3, H, S, 40, 2), 94), (cfg(0, 3, H, S, 40, 3), 21), (cfg(0, 3, H, S, 40, 4), 12)]
    t += [(cfg(0, 4, H, S, 8, 2), 193), (cfg(0, 4, H, S, 8, 3), 21), (cfg(0, 4, H, S, 8, 4), 13)]
    t += [(cfg(0, 5, H, S, 4, 2), 171), (cfg(0, 5, H, S, 4, 3), 30), (cfg(0, 5, H, S, 4, 4), 20)]
    t += [(cfg(0, 6, H, S, 2, 2), 22), (cfg(0, 6, H, S, 2, 3), 12), (cfg(0, 6, H, S, 2, 4), 10)]
    t += [(cfg(1, 1, F, S, 40), 15), (cfg(1, 1, H, S, 40), 15), (cfg(2, 1, F, S, 40), 13), (cfg(2, 1, H, S, 40), 13)]
    t += [(cfg(1, 2, H, S, 40, 2), 30), (cfg(1, 2, H, S, 40, 3), 20), (cfg(1, 2, H, S, 40, 4), 15)]
    t += [(cfg(2, 2, F, S, 40), 60), (cfg(2, 2, H, S, 40), 60)]
    t += [(cfg(3, 1, H, S, 40), 13), (cfg(3, 1, F, S, 40), 13), (cfg(3, 2, H, S, 40), 93)]
    t += [(cfg(3, 3, H, S, 4, 2), 48), (cfg(3, 3, H, S, 4, 3), 20), (cfg(3, 3, H, S, 4, 4), 15)]
    t += [(cfg(4, 1, F, S, 40), 15), (cfg(5, 1, H, S, 40), 14), (cfg(4, 2, F, S, 40), 104)]
    for n in range(1, 7):
        t += [(cfg(n, 0, H, S, 0), 6), (cfg(n, 0, F, S, 0), 6)]
    # ---- stop/resume before any step: sizes small because the saved JSON text realises every number --------------------
    for n in range(1, 7):
        t += [(cfg(n, 0, H, R_, 0), 6 + n), (cfg(n, 0, F, R_, 0), 6 + n)]
    t += [(cfg(0, 1, H, R_, 8), 25), (cfg(0, 2, H, R_, 4), 40)]
    t += [(cfg(1, 1, H, R_, 4), 21), (cfg(1, 1, F, R_, 4), 21), (cfg(2, 1, H, R_, 2), 13), (cfg(2, 1, F, R_, 3), 25)]
    t += [(cfg(0, 3, H, R_, 2, 2), 28), (cfg(0, 3, H, R_, 3, 3), 36), (cfg(0, 3, H, R_, 3, 4), 36)]
    t += [(cfg(1, 2, F, R_, 3), 124), (cfg(2, 2, H, R_, 2), 34), (cfg(3, 1, F, R_, 3), 33), (cfg(4, 1, F, R_, 3), 38)]
    t += [(cfg(5, 1, H, R_, 2), 66), (cfg(3, 2, F, R_, 2), 114)]
    # ---- real run() + one engine fault at any call + load_combiner().run() ----------------------------------------------
    t += [(fcfg(0, 3, H, 4, 2), 88), (fcfg(0, 3, H, 4, 3), 60), (fcfg(0, 3, H, 4, 4), 60), (fcfg(0, 3, H, 2), 32)]
    t += [(fcfg(0, 4, H, 2), 86), (fcfg(0, 5, H, 2, 2), 99), (fcfg(0, 5, H, 2, 3), 70), (fcfg(0, 5, H, 2, 4), 70)]
    t += [(fcfg(0, 6, H, 2, 3), 173), (fcfg(0, 1, H, 8), 8), (fcfg(0, 2, H, 4), 15)]
    t += [(fcfg(1, 1, H, 4), 18), (fcfg(1, 1, F, 4), 18), (fcfg(1, 2, F, 2), 22), (fcfg(2, 1, F, 2), 13), (fcfg(2, 1, H, 2), 13)]
    t += [(fcfg(2, 2, H, 2), 23), (fcfg(3, 1, F, 2), 14), (fcfg(4, 1, H, 2), 16), (fcfg(5, 1, F, 2), 20), (fcfg(3, 2, H, 2), 32)]
    for n in range(1, 7):
        t += [(fcfg(n, 0, H if n % 2 else F, 0), 10)]
    t.sort(key=lambda x: -x[1])
    return [c for c, _ in t]


THOROUGH = _thorough()


def _segments():
    text = loader.read(SRC)
    tree = ast.parse(text)
    found = []
    for node in tree.body:
        if isinstance(node, ast.FunctionDef) and node.name in ENCODED:
            found.append((f'{SRC}:{node.lineno} {node.name}', ast.get_source_segment(text, node)))
        if isinstance(node, ast.ClassDef) and node.name in ENCODED:
            want = ENCODED[node.name]
            if want is None:
                found.append((f'{SRC}:{node.lineno} {node.name}', ast.get_source_segment(text, node)))
                continue
            have = {n.name: n for n in node.body if isinstance(n, (ast.FunctionDef, ast.AsyncFunctionDef))}
            for name in want:
                if name not in have:
                    raise HarnessError(f'{SRC}: {node.name}.{name} not found; the C38(b) harness must be revised')
                fn = have[name]
                found.append((f'{SRC}:{fn.lineno} {node.name}.{name}', ast.get_source_segment(text, fn)))
    if len({r.split(' ')[1].split('.')[0] for r, _ in found}) != len(ENCODED):
        raise HarnessError(f'{SRC}: expected classes {sorted(ENCODED)} not all found')
    return found


def _classify(reason, d=None):
    if d is not None and 'fault_index' in d:
        if reason.startswith('final dataset built from'):
            got, exp = (eval(x, {'__builtins__': {}}) for x in reason[len('final dataset built from '):].split(', expected '))
            missing = [x for x in exp if x not in got]
            return ('combiner-plan-loses-input-after-failed-step' if missing
                    else 'combiner-plan-duplicates-input-after-failed-step')
        if 'not terminating' in reason:
            return 'combiner-plan-does-not-terminate-after-failed-step'
        if reason.startswith('raised'):
            return 'combiner-plan-raises-after-failed-step'
        if reason.startswith('0 datasets written to the output path'):
            return 'combiner-plan-loses-input-after-failed-step'  # the plan ended with every input gone
        if 'datasets written to the output path' in reason:
            return 'combiner-plan-output-count-after-failed-step'
        return 'combiner-plan-misaligns-sample-names-after-failed-step'
    if reason.startswith('not finished after'):
        return 'combiner-plan-does-not-terminate'
    if reason.startswith('raised'):
        return 'combiner-plan-raises'
    if 'datasets written to the output path' in reason:
        return 'combiner-plan-output-count'
    if 'sample' in reason:
        return 'combiner-plan-misaligns-sample-names'
    return 'combiner-plan-loses-or-duplicates-input'


def _replay_dict(c, args):
    n, m = c['N'], c['M']
    if c.get('fault'):
        return {
            'n_gvcfs': n,
            'vds_sizes': [args[f's{i}'] for i in range(m)],
            'branch_factor': c['bf'] or args['bf'],
            'batch_size': args['bs'],
            'fault_index': args['fi'],
            'fault_kind': bool(args['kind']),
            'external_header': bool(c['hdr']),
        }
    return {
        'n_gvcfs': n,
        'vds_sizes': [args[f's{i}'] for i in range(m)],
        'branch_factor': c['bf'] or args['bf'],
        'batch_size': args['bs'],
        'resume': [bool(args[f'r{i}']) for i in range(n + m)] if c['resume'] else [],
        'external_header': bool(c['hdr']),
    }


def _execute(d):
    mod = importlib.import_module('harness.C38_plan')
    if 'fault_index' in d:
        ok, why, info = mod.fault_execute(d['n_gvcfs'], list(d['vds_sizes']), d['branch_factor'], d['batch_size'],
                                          d['fault_index'], bool(d['fault_kind']), d.get('external_header', True))
        note = ''
        if info.get('fired'):
            note = (f" [engine call #{info['fired'][0]} ({info['fired'][1]}) raised "
                    f"{'a BaseException' if d['fault_kind'] else 'OSError'} inside run(); resumed with "
                    f"load_combiner(save_path).run()]")
        return ok, why, note
    ok, why, steps, loads = mod.execute(d['n_gvcfs'], list(d['vds_sizes']), d['branch_factor'], d['batch_size'],
                                        list(d['resume']), d.get('external_header', True))
    return ok, why, ''


def run(R, cfgs=None, pct=None):
    tier = R.tier
    cfgs = cfgs if cfgs is not None else configs(tier)
    pct = pct or (100 if tier == 'quick' else 900)
    for ref, seg in _segments():
        R.encode(ref, seg)
    R.assume(*ASSUMPTIONS)
    R.bounds.update({
        'C38b_shapes': [T.cid(c) for c in cfgs],
        'C38b_inputs_total': f"1..{max(c['N'] + c['M'] for c in cfgs)}",
        'C38b_branch_factor': '2..4',
        'C38b_gvcf_batch_size': '1..3 (1..1 in shapes whose id ends in q1: vds-only fault shapes of the quick tier)',
        'C38b_vds_n_samples': 'symbolic 1..smax, smax per shape (the m<k> suffix of the shape id; 40 without resume, '
                              'small with resume because the saved JSON text realises every number)',
        'C38b_resume': 'one symbolic bool per possible step (N+M of them) in shapes whose id has "r"; none in "s" shapes',
        'C38b_step_bound': 'inputs + 8 (more steps = non-termination)',
        'C38b_fault': 'shapes whose id has "f": real run(), one fault at engine call fi (symbolic 0..999, past the last call = '
                      'no fault), kind symbolic (OSError / BaseException), then load_combiner(save_path).run()',
        'C38b_per_condition_timeout_s': pct,
    })
    tb = R.extra.setdefault('trusted_base', [])
    for x in ('CrossHair/z3', 'harness/C38_plan.py ghosts and oracle'):
        if x not in tb:
            tb.append(x)
    # the floor(log(n, b)) cut against the real float expression, over the whole range the cut accepts
    plan = importlib.import_module('harness.C38_plan')
    import math
    exc = plan.float_log_exceptions()
    for b in (2, 3, 4):
        for n in range(1, plan.NMAX + 1):
            if plan._floor(plan._log(n, b)) != math.floor(math.log(n, b)):
                raise HarnessError(f'integer-log cut disagrees with floor(log({n}, {b}))')
            R.validation_points += 1
    max_n = max(c['smax'] * c['M'] + c['N'] for c in cfgs)
    R.bounds['C38b_log_cut'] = (f'cut == math.floor(math.log(n, b)) checked for 1 <= n <= {plan.NMAX}, b in 2..4; float/integer '
                                f'log differ at {sorted(exc)}; largest n reachable in the shapes below: {max_n}')
    gm = chrun.gen_module('C38_plan_conditions', T.source(cfgs))
    targets = []
    for c in cfgs:
        targets += [f'{gm}.{x}' for x in T.targets(c)]
    t0 = time.time()
    res = chrun.run(targets, per_condition_timeout=pct, hard_factor=1.0, workers=WORKERS)
    R.log(f'[C38b] {len(targets)} CrossHair conditions in {time.time() - t0:.0f}s wall')
    for c in cfgs:
        i = T.cid(c)
        chk, twin = T.targets(c)
        rv, rmsg, rdt = res[f'{gm}.{twin}']
        reach = rv == 'refuted'
        v, msg, dt = res[f'{gm}.{chk}']
        name = f'combiner plan [{T.describe(c)}]: terminates, one output, every input exactly once'
        if v == 'confirmed':
            R.ob(name, 'discharged' if reach else 'not_discharged', dt, {'twin': rmsg[-200:], 'twin_verdict': rv},
                 nontrivial=reach)
        elif v == 'refuted':
            args = chrun.parse_counterexample(msg, T.argnames(c))
            if args is None:
                raise HarnessError(f'cannot parse CrossHair counterexample: {msg}')
            d = _replay_dict(c, args)
            ok, why, note = _execute(d)
            if ok:
                raise HarnessError(f'CrossHair counterexample does not reproduce concretely: {msg}')
            st = R.finding(_classify(why, d), f'VariantDatasetCombiner with {d}: {why}{note}', d)
            R.ob(name, st, dt, {'cex': d, 'why': why}, nontrivial=True)
        else:
            R.ob(name, 'not_discharged', dt, {'crosshair': msg[-300:]})
        R.sample({'shape': i, 'verdict': v, 'secs': round(dt, 1), 'twin': rv})


def replay(d):
    try:
        ok, why, note = _execute(d)
    except Exception as e:
        print('raised', type(e).__name__, e)
        return 1
    print('property holds' if ok else f'property violated: {why}{note}', d)
    return 0 if ok else 1
