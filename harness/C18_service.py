"""C18 harness (E5 symbolic program builder, native path exploration with vt.shapesym).

The REAL hailtop.batch front end builds a pipeline of N bash jobs with input files, an input resource group, job
outputs (plain file, file with extension, resource group written as a whole or by member), external outputs, and
submits it through the REAL ServiceBackend._async_run and the REAL hailtop.batch_client.aioclient.Batch
(create_job/_create_job/submit/_create_bunches/_create_fast).  Only the HTTP layer is fake: the client's `_post`
records the bytes that would go to /api/v1alpha/batches/create-fast and answers {id, start_job_id}.

Shape variables (solver integers, vt.shapesym.choose):
  var    global variant, one deviation from the base pipeline at a time (see VARIANTS)
  o_j    output kind of job j            (OUT_KINDS)
  r1_j   first thing job j reads         none | input file A | input file B (same basename) | input group (whole) |
  r2_j   second thing job j reads          input group member | output of an earlier job i (whole / group member)
  x_j    write_output(own output, dest)  0/1
The oracle is harness/C18_shell.py (abstract execution of the submitted specs) plus text-level checks here.
"""
import contextlib
import io
import json
import re
import shlex
import warnings

from vt import loader, shapesym
from vt.common import HarnessError

loader.install()
import hailtop.batch as hb  # noqa: E402
from hailtop.batch import backend as hb_backend  # noqa: E402
from hailtop.batch import resource as _resource  # noqa: E402
from hailtop.batch.exceptions import BatchException  # noqa: E402
from hailtop.batch_client import aioclient  # noqa: E402

from harness import C18_shell  # noqa: E402

OUT_KINDS = {
    0: 'no output',
    1: 'plain file',
    2: 'file, add_extension before the first mention',
    3: 'resource group written through the whole-group reference',
    4: 'resource group written through member references',
    5: 'file, add_extension after the first mention (order of the add_extension docstring example)',
    6: 'resource group g plus a plain file named like its member (j["g.a"])',
}
VARIANTS = {
    0: 'base: jobs named j0.., created in data-flow order',
    1: 'jobs created in reverse data-flow order (consumers first)',
    2: 'all jobs share the name "a b" (needs sanitising)',
    3: 'unnamed jobs',
    4: 'literal noise around references: --opt= prefixes, quotes, $, braces, uid-like text, double-quoted refs',
    5: 'an input file is also written to an external destination (adds the write_external_inputs job: ids shift)',
    6: 'delete_scratch_on_exit=False (no remove_tmpdir job)',
    7: 'extension / group member names that need shell quoting',
    8: 'input group whose two members have the same basename',
    9: 'a reference immediately followed by a digit: uid 1 followed by "0" while resource 10 exists',
    10: 'external outputs of resource groups are written member by member (write_output(j.g.a, ...))',
    11: 'input file A is a local file (uploaded by the client before submission, downloaded by the job)',
}
# job names around the length at which the scratch directory name is truncated (250 minus the job token): names share
# a common prefix and differ only in their LAST character, or are identical
for _k, _L in enumerate((244, 245, 246, 250, 251, 300)):
    VARIANTS[12 + _k] = f'job names of {_L} characters with a common prefix of {_L - 1} characters (differ in the last one)'
VARIANTS[18] = 'all jobs share one name of 250 characters'
VARIANTS[19] = 'all jobs share one name of 300 characters'
VARIANTS[20] = ('what follows a reference directly is a symbolic choice per mention: end of the statement, ";", '
                '"_tmp", a letter, ".bak", "/sub", a closing double quote (at most one mention deviates)')
SUFFIXES = ['', ';', '_tmp', 'x', '.bak', '/sub', '"']
NAME_LEN = {12: 244, 13: 245, 14: 246, 15: 250, 16: 251, 17: 300, 18: 250, 19: 300}
LOCAL_A = '/data/local/x.txt'

URL_A = 'gs://data/a/x.txt'
URL_B = 'gs://data/b/x.txt'
URL_GA = 'gs://data/g/x.a'
URL_GB = 'gs://data/g/y.b'
HOLE = r"\$\{BATCH_TMPDIR\}(?:'[^']*'(?:\"'\"'[^']*')*|[A-Za-z0-9_@%+=:,./-]+)"
NOISE = ": 'lit $X' \"q r\" \\$y {z} __RESOURCE_FILE__ __RESOURCE_GROUP__x it\\'s"


# ---- stubs for packages that do not exist offline (inert loader stubs would swallow the job loop) ------------
class _Orjson:
    @staticmethod
    def dumps(x, *a, **k):
        return json.dumps(x).encode()

    @staticmethod
    def loads(x):
        return json.loads(x)


class _NullBar:
    def __init__(self, *a, **k):
        pass

    def __enter__(self):
        return self

    def __exit__(self, *a):
        return False

    def update(self, n):
        pass

    @contextlib.contextmanager
    def with_task(self, *a, **k):
        yield self


async def _no_validate(uri, fs):
    return None


_CLIENT_UPLOADS = []


async def _record_copy(files=None, **kw):
    """Stands in for hailtop.aiotools.copy.copy_from_dict: the client-side upload of local input files."""
    _CLIENT_UPLOADS.extend(dict(f) for f in (files or []))


class _Resp:
    def __init__(self, d):
        self.d = d

    async def json(self):
        return self.d


class FakeClient:
    """Stands in for aioclient.BatchClient: real Batch objects, fake HTTP."""
    billing_project = 'bp'

    def __init__(self):
        self.posts = []

    def create_batch(self, **kw):
        return aioclient.Batch(self, id=None, **kw)

    async def _post(self, path, data=None, json=None):
        body = bytes(data._value) if data is not None else json
        self.posts.append((path, body))
        return _Resp({'id': 7, 'start_job_group_id': 1, 'start_job_id': 1, 'update_id': 1})

    async def close(self):
        pass


_STATE = {}


def setup():
    if _STATE:
        return
    hb_backend.orjson = _Orjson
    aioclient.orjson = _Orjson
    hb_backend.validate_file = _no_validate
    hb_backend.track = lambda seq, **kw: seq
    hb_backend.SimpleCopyToolProgressBar = _NullBar
    hb_backend.copy_from_dict = _record_copy
    aioclient.BatchProgressBar = _NullBar
    with warnings.catch_warnings():
        warnings.simplefilter('ignore')
        sb = hb.ServiceBackend(billing_project='bp', remote_tmpdir='gs://scratch/tmp', regions=['us-central1'])
    fc = FakeClient()
    sb._ServiceBackend__batch_client = fc
    _STATE['backend'] = sb
    _STATE['client'] = fc


# ---- inputs ---------------------------------------------------------------------------------------------
def read_options(cfg, j, second):
    """Static domain of r1_j / r2_j: (kind, producer index)."""
    opts = [('none', None)]
    opts += [(k, None) for k in (cfg['in_reads2'] if second else cfg['in_reads1'])]
    for i in range(j):
        opts += [('job', i)] if second else [('job', i), ('jobm', i)]
    return opts


def second_read_jobs(cfg, N):
    return cfg.get('two_reads_jobs', [])


class SymInputs:
    def __init__(self, cfg):
        self.cfg = cfg

    def variant(self):
        return shapesym.choose('var', self.cfg['variants'])

    def out(self, j):
        return shapesym.choose(f'o_{j}', self.cfg['out_kinds'])

    def read(self, j, second):
        if second and j not in self.cfg.get('two_reads_jobs', []):
            return ('none', None)
        opts = read_options(self.cfg, j, second)
        return shapesym.choose(f'r{2 if second else 1}_{j}', opts)

    def ext(self, j):
        return shapesym.choose(f'x_{j}', [0, 1])

    def suffix(self, j, slot):
        return shapesym.choose(f'sf_{j}_{slot}', SUFFIXES)


class ConcreteInputs:
    """Replays a solver model: values are option INDICES within the same configuration."""

    def __init__(self, cfg, d):
        self.cfg = cfg
        self.d = d

    def variant(self):
        return self.cfg['variants'][int(self.d.get('var', 0))]

    def out(self, j):
        return self.cfg['out_kinds'][int(self.d.get(f'o_{j}', 0))]

    def read(self, j, second):
        if second and j not in self.cfg.get('two_reads_jobs', []):
            return ('none', None)
        return read_options(self.cfg, j, second)[int(self.d.get(f'r{2 if second else 1}_{j}', 0))]

    def ext(self, j):
        return int(self.d.get(f'x_{j}', 0))

    def suffix(self, j, slot):
        return SUFFIXES[int(self.d.get(f'sf_{j}_{slot}', 0))]


# ---- the builder: real front-end code ---------------------------------------------------------------------
class Tmpl:
    """A command under construction: literal text and references to real resource objects."""

    def __init__(self):
        self.segs = []     # ('lit', text) | ('ref', resource key, uid text)

    def lit(self, s):
        if self.segs and self.segs[-1][0] == 'lit':
            self.segs[-1] = ('lit', self.segs[-1][1] + s)
        else:
            self.segs.append(('lit', s))
        return self

    def ref(self, key, res):
        self.segs.append(('ref', key, str(res)))
        return self

    def text(self):
        return ''.join(s[1] if s[0] == 'lit' else s[2] for s in self.segs)


def _emit2(t, op, args, key, res, sfx):
    """Mention-last statement `<op>2 <k> <args> <reference><what follows directly>` (variant 20)."""
    if sfx == '"':
        t.lit(f'{op}2 0 {args} "').ref(key, res).lit('"')
    elif sfx == ';':
        t.lit(f'{op}2 0 {args} ').ref(key, res).lit('; :')
    elif sfx == '':
        t.lit(f'{op}2 0 {args} ').ref(key, res)
    else:
        t.lit(f'{op}2 {len(sfx)} {args} ').ref(key, res).lit(sfx)


def _build(N, inp, var, obs, st, sb, fc):
    noise = var == 4
    ext = ".e x'y" if var == 7 else '.e'
    ma, mb = ("a c", "b'd") if var == 7 else ('a', 'b')
    b = hb.Batch(backend=sb, name='c18')
    dummies = []
    if var == 9:
        # ten more inputs first: they get uids 0..9, input file A gets uid 10
        dummies = [b.read_input(f'gs://data/d/d{k}.txt') for k in range(10)]
    url_a = LOCAL_A if var == 11 else URL_A
    inA = b.read_input(url_a)
    inB = b.read_input(URL_B)
    url_gb = 'gs://data/h/x.a' if var == 8 else URL_GB
    ig = b.read_input_group(a=URL_GA, b=url_gb)
    cloud = st['cloud']
    cloud.update({u: 'cloud:' + u for u in (URL_B, URL_GA, url_gb)})
    tok_a = ('local:' if var == 11 else 'cloud:') + url_a
    if var != 11:
        cloud[url_a] = tok_a
    names = [('a b' if var == 2 else (None if var == 3 else f'j{j}')) for j in range(N)]
    if var in NAME_LEN:
        L = NAME_LEN[var]
        names = [('n' * L if var >= 18 else 'n' * (L - 1) + str(j)) for j in range(N)]
    order = list(range(N - 1, -1, -1)) if var == 1 else list(range(N))
    jobs = {}
    for j in order:
        jobs[j] = b.new_job(name=names[j])
    kinds, mentions = {}, []
    templates, pairs, expect_ext = st['templates'], st['pairs'], st['expect_ext']
    for j in range(N):
        job = jobs[j]
        ok = inp.out(j)
        kinds[j] = ok
        rd = [inp.read(j, False), inp.read(j, True)]
        xj = inp.ext(j)
        obs['shape'][f'o_{j}'] = ok
        obs['shape'][f'r_{j}'] = rd
        obs['shape'][f'x_{j}'] = xj
        # shapes that do not denote a pipeline (reading an output the producer does not have) are not inputs
        for kind, i in rd:
            if kind == 'job' and kinds[i] == 0 or kind == 'jobm' and kinds[i] not in (3, 4, 6):
                obs['skip'] = f'job {j} cannot read {kind} of job {i} (producer kind {kinds[i]})'
                return
        if xj and ok == 0:
            obs['skip'] = f'job {j} has no output to write out'
            return
        if rd[1][0] != 'none' and rd[1] == rd[0]:
            obs['skip'] = 'second read equals the first'
            return
        pre = '--in=' if noise else ''
        t1 = Tmpl().lit(f': job{j}')
        if var == 9:
            # f'{d1}0': meant as the sibling file "<d1>0"; the text is __RESOURCE_FILE__1 + "0"
            t1.lit('; : ').ref(None, dummies[1]).lit('0')
        for kind, i in rd:
            if kind == 'none':
                continue
            q = ''
            if kind == 'inA':
                op, key, res, tail = f'R {pre}', ('in', 'A'), inA, f' {tok_a}'
            elif kind == 'inB':
                op, key, res, tail = f'R {pre}', ('in', 'B'), inB, f' {cloud[URL_B]}'
            elif kind == 'ig':
                op, key, res, tail = 'RG ', ('ig',), ig, f' a={cloud[URL_GA]} b={cloud[url_gb]}'
            elif kind == 'igm':
                op, key, res, tail = 'R ', ('ig', 'a'), ig.a, f' {cloud[URL_GA]}'
            else:
                pj, pk = jobs[i], kinds[i]
                pairs.append((j, i))
                if kind == 'jobm':
                    op, key, res, tail = f'R {pre}', ('out', i, 'g', 'a'), pj.g[ma], f' tok{i}.a'
                elif pk in (1, 2, 5):
                    op, key, res, tail = f'R {pre}', ('out', i, 'o'), pj.o, f' tok{i}'
                    if noise:
                        op, q = 'R ', '"'
                else:
                    op, key, res = 'RG ', ('out', i, 'g'), pj.g
                    tail = f' {shlex.quote(ma)}=tok{i}.a {shlex.quote(mb)}=tok{i}.b'
            t1.lit(f'\n{NOISE}\n' if noise else '; ')
            if var == 20:
                slot = 'r1' if (kind, i) == rd[0] else 'r2'
                sfx = inp.suffix(j, slot)
                obs['shape'][f'sf_{j}_{slot}'] = sfx
                _emit2(t1, op.split()[0], tail.strip(), key, res, sfx)
                continue
            t1.lit(op + q).ref(key, res).lit(q + tail)
        t2 = Tmpl()
        if var == 20 and ok in (1, 3):
            sfx = inp.suffix(j, 'w')
            obs['shape'][f'sf_{j}_w'] = sfx
            if ok == 1:
                _emit2(t2, 'W', f'tok{j}', ('out', j, 'o'), job.o, sfx)
            else:
                job.declare_resource_group(g={ma: '{root}.' + ma, mb: '{root}.' + mb})
                _emit2(t2, 'WG', f'{ma}=tok{j}.a {mb}=tok{j}.b', ('out', j, 'g'), job.g, sfx)
        elif ok in (1, 2, 5):
            if ok == 2:
                job.o.add_extension(ext)
            t2.lit(f'W {pre.replace("in", "out")}').ref(('out', j, 'o'), job.o).lit(f' tok{j}')
        elif ok in (3, 4, 6):
            job.declare_resource_group(g={ma: '{root}.' + ma, mb: '{root}.' + mb})
            if ok == 4:
                t2.lit('W ').ref(('out', j, 'g', 'a'), job.g[ma]).lit(f' tok{j}.a; W ')
                t2.ref(('out', j, 'g', 'b'), job.g[mb]).lit(f' tok{j}.b')
            else:
                t2.lit('WG ').ref(('out', j, 'g'), job.g).lit(f' {shlex.quote(ma)}=tok{j}.a {shlex.quote(mb)}=tok{j}.b')
            if ok == 6:
                t2.lit('; W ').ref(('out', j, 'g.a-file'), job['g.' + ma]).lit(f' tok{j}.other')
        templates[j] = []
        for t in (t1, t2):
            if t.segs:
                # leading/trailing white space: the backend strips commands, the oracle allows exactly that
                txt = ('  ' + t.text() + ' \n') if noise else t.text()
                try:
                    job.command(txt)
                except BatchException as e:
                    obs['exc'] = ('BatchException', str(e))
                    obs['exc_at'] = j
                    return
                templates[j].append(t.segs)
                mentions += [s[1] for s in t.segs if s[0] == 'ref']
        if ok == 5:
            job.o.add_extension(ext)
        if xj:
            if ok in (1, 2, 5):
                b.write_output(job.o, f'gs://out/j{j}.txt')
                expect_ext[f'gs://out/j{j}.txt'] = f'tok{j}'
            elif var == 10:
                b.write_output(job.g[ma], f'gs://out/j{j}-a')
                b.write_output(job.g[mb], f'gs://out/j{j}-b')
                expect_ext[f'gs://out/j{j}-a'] = f'tok{j}.a'
                expect_ext[f'gs://out/j{j}-b'] = f'tok{j}.b'
            else:
                b.write_output(job.g, f'gs://out/j{j}')
                expect_ext[f'gs://out/j{j}.{ma}'] = f'tok{j}.a'
                expect_ext[f'gs://out/j{j}.{mb}'] = f'tok{j}.b'
    if var == 5:
        b.write_output(inA, 'gs://out/inA.txt')
        expect_ext['gs://out/inA.txt'] = tok_a
    fc.posts.clear()
    obs['exc_at'] = 'run'
    with contextlib.redirect_stdout(io.StringIO()):
        b.run(wait=False, disable_progress_bar=True, delete_scratch_on_exit=(var != 6))


def build_and_submit(N, inp):
    """Returns the observation: templates, expectations (tokens), submitted specs or the exception raised."""
    setup()
    sb, fc = _STATE['backend'], _STATE['client']
    var = inp.variant()
    obs = {'var': var, 'N': N, 'exc': None, 'skip': None, 'shape': {'var': var}}
    noise = var == 4
    ext = ".e x'y" if var == 7 else '.e'
    ma, mb = ("a c", "b'd") if var == 7 else ('a', 'b')
    # a fresh interpreter: uid counters start where they start in a new process
    _resource.ResourceFile._counter = 0
    _resource.ResourceGroup._counter = 0
    st = {'templates': {}, 'pairs': [], 'cloud': {}, 'expect_ext': {}}
    del _CLIENT_UPLOADS[:]
    try:
        with warnings.catch_warnings():
            warnings.simplefilter('ignore')
            _build(N, inp, var, obs, st, sb, fc)
    except HarnessError:
        raise
    except Exception as e:  # whatever the code under test raises on a pipeline is an observation, not a harness failure
        if not shapesym.raised_inside(e, loader.REPO):
            raise HarnessError(f'C18 builder bug: {type(e).__name__}: {e}')
        obs['exc'] = (type(e).__name__, str(e))
    if obs['skip']:
        return obs
    templates, pairs, cloud, expect_ext = st['templates'], st['pairs'], st['cloud'], st['expect_ext']
    obs['templates'] = templates
    obs['pairs'] = pairs
    obs['cloud'] = cloud
    obs['expect_ext'] = expect_ext
    obs['posts'] = list(fc.posts)
    fc.posts.clear()
    # what the client itself uploaded before submitting (local input files)
    for t in _CLIENT_UPLOADS:
        cloud[t['to']] = 'local:' + t['from']
    obs['client_uploads'] = list(_CLIENT_UPLOADS)
    del _CLIENT_UPLOADS[:]
    return obs


# ---- the oracle -------------------------------------------------------------------------------------------
def evaluate(obs):
    """-> list of (kind, message): ways in which the submitted batch contradicts C18."""
    errs = []
    N = obs['N']
    if obs['exc'] is not None:
        # the front end refused the program before anything was submitted: no plumbing to be inconsistent (C18 does
        # not promise that every program is accepted); counted and reported, not a violation
        if obs['posts']:
            return [('exception-after-submission', f'{obs["exc"][0]}: {obs["exc"][1][:200]}')]
        return []
    posts = obs['posts']
    if len(posts) != 1 or not posts[0][0].endswith('/create-fast'):
        return [('nothing-submitted', f'{[p for p, _ in posts]}')]
    body = json.loads(posts[0][1])
    specs = body['bunch']
    if body['batch']['n_jobs'] != len(specs):
        errs.append(('batch-spec-inconsistent', f'n_jobs {body["batch"]["n_jobs"]} != {len(specs)}'))
    # identify the DSL jobs among the submitted specs through their marker statement
    by_idx = {}
    for s in specs:
        argv = s['process']['command']
        if len(argv) == 3 and argv[1] == '-c':
            m = re.search(r'^: job(\d+)\b', argv[2], re.M)
            if m:
                by_idx.setdefault(int(m.group(1)), []).append(s)
    for j in range(N):
        if len(by_idx.get(j, [])) != 1:
            errs.append(('job-not-submitted-exactly-once', f'job {j}: {len(by_idx.get(j, []))} specs'))
    if errs:
        return errs
    spec = {j: by_idx[j][0] for j in range(N)}
    # (1) consumer is a child of its producer
    for j, i in obs['pairs']:
        if spec[i]['job_id'] not in spec[j].get('in_update_parent_ids', []) or spec[i]['job_id'] >= spec[j]['job_id']:
            errs.append(('consumer-not-child-of-producer',
                         f'job {j} (id {spec[j]["job_id"]}, parents {spec[j].get("in_update_parent_ids")}) reads from '
                         f'job {i} (id {spec[i]["job_id"]})'))
    ids = sorted(s['job_id'] for s in specs)
    if ids != list(range(1, len(specs) + 1)):
        errs.append(('job-ids-not-contiguous', str(ids)))
    for s in specs:
        if any(not (0 < p < s['job_id']) for p in s.get('in_update_parent_ids', [])):
            errs.append(('parent-id-not-earlier', f'job {s["job_id"]} parents {s["in_update_parent_ids"]}'))
    # (2) text: every reference replaced by ${BATCH_TMPDIR}<canonically quoted path>, everything else byte-identical
    ref_paths = {}
    for j in range(N):
        script = spec[j]['process']['command'][2]
        pos = 0
        for segs in obs['templates'][j]:
            full = ''.join(s[1] if s[0] == 'lit' else '\0' for s in segs).strip()
            pat = ('(' + HOLE + ')').join(re.escape(x) for x in full.split('\0'))
            pat = r'(?<=\n)' + pat + r'(?=\n)'      # a command occupies whole lines of the submitted script
            m = re.compile(pat).search(script, pos)
            if m is None:
                errs.append(('command-text-altered', f'job {j}: submitted script does not contain the command '
                             f'{full!r} with references replaced by quoted paths; script={script!r}'))
                break
            pos = m.end()
            keys = [s[1] for s in segs if s[0] == 'ref']
            for key, hole in zip(keys, m.groups()):
                q = hole[len('${BATCH_TMPDIR}'):]
                try:
                    words = shlex.split(q)
                except ValueError:
                    words = []
                if len(words) != 1 or shlex.quote(words[0]) != q:
                    errs.append(('reference-not-shell-quoted', f'job {j}: {hole!r}'))
                    continue
                if key is not None:
                    ref_paths.setdefault(key, set()).add(words[0])
    for key, ps in ref_paths.items():
        if len(ps) != 1:
            errs.append(('resource-mentioned-under-two-paths', f'{key}: {sorted(ps)}'))
    inv = {}
    for key, ps in ref_paths.items():
        for p in ps:
            inv.setdefault(p, set()).add(key)
    for p, ks in inv.items():
        if len(ks) > 1:
            errs.append(('distinct-resources-share-path', f'{sorted(map(str, ks))} are all mentioned as {p}'))
    # (3) semantics: execute what was submitted
    w = C18_shell.simulate(specs, obs['cloud'])
    errs += w.errors
    for dest, tok in obs['expect_ext'].items():
        if w.remote.get(dest) != tok:
            errs.append(('external-output-wrong', f'{dest} holds {w.remote.get(dest)} instead of {tok}'))
    seen = set()
    out = []
    for e in errs:
        if e not in seen:
            seen.add(e)
            out.append(e)
    return out


# ---- finding classes: predicates over the shape (= over the solver's choice variables) ----------------------
CLASSES = {
    'reference-followed-by-digit': dict(
        pred=lambda sh, N: sh['var'] == 9,
        explains=None),     # the whole variant: either the command is rejected or another resource is substituted
    'extension-added-after-mention': dict(
        pred=lambda sh, N: any(sh.get(f'o_{j}') == 5 for j in range(N)),
        explains={'resource-mentioned-under-two-paths', 'upload-of-unwritten-path', 'download-of-missing-remote-file',
                  'reference-does-not-resolve-to-resource', 'external-output-wrong'}),
    'file-named-like-group-member': dict(
        pred=lambda sh, N: any(sh.get(f'o_{j}') == 6 for j in range(N)),
        explains={'distinct-resources-share-path', 'reference-does-not-resolve-to-resource', 'external-output-wrong'}),
    'input-group-members-same-basename': dict(
        pred=lambda sh, N: sh['var'] == 8 and any(k in ('ig', 'igm') for j in range(N) for k, _ in sh.get(f'r_{j}', [])),
        explains={'distinct-resources-share-path', 'reference-does-not-resolve-to-resource'}),
}


def classify(shape, N, errs):
    """-> {class name: [errors]}.  Errors explained by a class whose predicate holds on this shape go to that
    class; anything else is a class of its own, named after the oracle's error kind."""
    holding = [c for c, d in CLASSES.items() if d['pred'](shape, N)]
    out = {}
    for kind, msg in errs:
        cs = [c for c in holding if CLASSES[c]['explains'] is None or kind in CLASSES[c]['explains']]
        for c in (cs or [kind]):
            out.setdefault(c, []).append((kind, msg))
    return out


def replay_concrete(cfg, N, d):
    obs = build_and_submit(N, ConcreteInputs(cfg, d))
    if obs['skip']:
        return {}, obs
    return classify(obs['shape'], N, evaluate(obs)), obs


# ---- one shard of the exploration (worker process) -----------------------------------------------------------
def _constraints(cfg, N):
    import z3
    V = z3.Int
    cons = []
    ok_idx = {k: i for i, k in enumerate(cfg['out_kinds'])}
    var_idx = {k: i for i, k in enumerate(cfg['variants'])}
    small = [ok_idx[k] for k in cfg.get('small_kinds', []) if k in ok_idx]
    defect = [ok_idx[k] for k in (5, 6) if k in ok_idx]
    base = V('var') == var_idx[0]
    if cfg.get('variants_on_small_space') and small:
        cons.append(z3.Or(base, z3.And(*[z3.Or(*[V(f'o_{j}') == k for k in small]) for j in range(N)])))
        if not cfg.get('variants_keep_second_read'):
            for j in cfg.get('two_reads_jobs', []):
                cons.append(z3.Or(base, V(f'r2_{j}') == 0))
    if defect and small:
        isdef = [z3.Or(*[V(f'o_{j}') == k for k in defect]) for j in range(N)]
        cons.append(z3.Sum([z3.If(x, 1, 0) for x in isdef]) <= 1)
        anydef = z3.Or(*isdef)
        cons.append(z3.Implies(anydef, base))
        for j in range(N):
            cons.append(z3.Implies(z3.And(anydef, z3.Not(isdef[j])), z3.Or(*[V(f'o_{j}') == k for k in small])))
    if cfg.get('special_fix_x'):
        # outside the base space (variants, defect kinds) every job with an output also writes it out
        special = z3.Or(z3.Not(base), anydef) if (defect and small) else z3.Not(base)
        for j in range(N):
            cons.append(z3.Implies(special, V(f'x_{j}') == 1))
    if 20 in var_idx:
        sf = [V(f'sf_{j}_{slot}') for j in range(N) for slot in ('w', 'r1', 'r2')]
        cons.append(z3.Sum([z3.If(x != 0, 1, 0) for x in sf]) <= cfg.get('max_suffixed_mentions', 1))
    if cfg.get('x_free_jobs') is not None:
        plain = z3.And(base, z3.Not(anydef)) if (defect and small) else base
        for j in range(N):
            if j not in cfg['x_free_jobs']:
                cons.append(z3.Implies(plain, V(f'x_{j}') == 0))
    if cfg.get('fix_x_all'):
        for j in range(N):
            cons.append(V(f'x_{j}') == 1)
    for name, val in cfg.get('fix', {}).items():
        cons.append(V(name) == val)
    return cons


def explore_shard(cfg):
    import time
    import z3
    N = cfg['N']
    t0 = time.time()
    late = bool(cfg.get('deadline_at')) and t0 > cfg['deadline_at']
    ex = shapesym.Explorer(_constraints(cfg, N), deadline=cfg.get('deadline_at'))
    res = {'fix': cfg.get('fix', {}), 'paths': 0, 'pipelines': 0, 'not_a_pipeline': 0, 'queries': 0, 'twins_sat': 0,
           'violating_paths': 0, 'classes': {}, 'rejected': 0, 'submitted': 0, 'rejections': {}, 'samples': [], 'unknown': 0, 'kinds_seen': {}, 'variants_seen': {}}

    def body():
        return build_and_submit(N, SymInputs(cfg))

    def on_path(p, query):
        if p.exc is not None:
            raise HarnessError(f'C18 harness: exception escaped the builder: {type(p.exc).__name__}: {p.exc}')
        obs = p.value
        res['paths'] += 1
        if obs['skip']:
            res['not_a_pipeline'] += 1
            return
        res['pipelines'] += 1
        if obs['exc'] is not None and not obs['posts']:
            res['rejected'] += 1
            k = f'var={obs["var"]} {obs["exc"][0]}: {obs["exc"][1][:90]}'.split('__RESOURCE')[0]
            e = res['rejections'].setdefault(k, {'count': 0, 'shape': _jsonable(obs['shape'])})
            e['count'] += 1
        else:
            res['submitted'] += 1
        res['variants_seen'][str(obs['var'])] = res['variants_seen'].get(str(obs['var']), 0) + 1
        errs = evaluate(obs)
        viol = z3.BoolVal(bool(errs))
        r0, _ = query()
        res['queries'] += 1
        if r0 == 'sat':
            res['twins_sat'] += 1
        r, m = query(viol)
        res['queries'] += 1
        if r == 'sat':
            res['violating_paths'] += 1
            d = {name: shapesym.model_int(m, x) for name, (x, n, _) in ex.domains.items() if name in p.choices}
            for c, es in classify(obs['shape'], N, errs).items():
                e = res['classes'].setdefault(c, {'count': 0, 'first': None})
                e['count'] += 1
                if e['first'] is None:
                    e['first'] = {'inputs': d, 'errors': [list(x) for x in es[:3]], 'shape': _jsonable(obs['shape'])}
        elif r != 'unsat':
            res['unknown'] += 1
        if len(res['samples']) < 2 and not errs and obs['pairs']:
            res['samples'].append({'choices': dict(p.choices), 'shape': _jsonable(obs['shape'])})

    paths = [] if late else ex.run(body, on_path=on_path, keep_paths=False)
    res['complete'] = ex.complete
    res['exhaustive'] = ex.exhaustive(paths) if ex.complete else 'unknown'
    res['solver_calls'] = ex.solver_calls
    res['secs'] = round(time.time() - t0, 2)
    return res


def _jsonable(shape):
    return {k: ([list(x) for x in v] if isinstance(v, list) else v) for k, v in shape.items()}
