"""Generates the CrossHair condition functions for C15's spec part, one per (format version, secrets shape)."""
TEMPLATE = '''
def check_v{V}_s{S}(a0: int, a1: int, a2: int, a3: int, a4: int, a5: int, a6: int, a7: int, mic0: int, mic1: int,
                  sa_mode: int, in_mode: int, out_mode: int, mt_mode: int, preemptible: bool, storage: int) -> bool:
    """
    pre: 0 <= mic0 <= 2 and 0 <= mic1 <= 2 and 0 <= sa_mode <= 2 and 0 <= in_mode <= 2 and 0 <= out_mode <= 2
    pre: 0 <= mt_mode <= 3 and 0 <= storage < 2**40
    pre: {MICPRE}
    post: _
    """
    return H.roundtrip_ok({V}, {S}, (a0, a1, a2, a3, a4, a5, a6, a7), mic0, mic1, sa_mode, in_mode, out_mode, mt_mode,
                          preemptible, storage)


def reach_v{V}_s{S}(a0: int, a1: int, a2: int, a3: int, a4: int, a5: int, a6: int, a7: int, mic0: int, mic1: int,
                  sa_mode: int, in_mode: int, out_mode: int, mt_mode: int, preemptible: bool, storage: int) -> bool:
    """
    pre: 0 <= mic0 <= 2 and 0 <= mic1 <= 2 and 0 <= sa_mode <= 2 and 0 <= in_mode <= 2 and 0 <= out_mode <= 2
    pre: 0 <= mt_mode <= 3 and 0 <= storage < 2**40
    pre: {MICPRE}
    post: _
    """
    # reachability twin: must be REFUTED (a spec with a service account, files and a machine type reaches the end)
    return not (H.roundtrip_ok({V}, {S}, (a0, a1, a2, a3, a4, a5, a6, a7), mic0, mic1, sa_mode, in_mode, out_mode, mt_mode,
                               preemptible, storage) and sa_mode == 2 and in_mode == 2 and mt_mode >= 2)
'''


def source(versions, sec_modes):
    out = ['import harness.C15_spec as H\n']
    names = []
    for v in versions:
        for s in sec_modes:
            # selectors that the shape does not use are pinned (they would only duplicate paths)
            micpre = {0: 'mic0 == 0 and mic1 == 0', 1: 'mic0 == 0 and mic1 == 0', 2: 'mic0 == 0 and mic1 == 0',
                      3: 'mic1 == 0', 4: 'True'}[s]
            out.append(TEMPLATE.format(V=v, S=s, MICPRE=micpre))
            names.append((v, s))
    return '\n'.join(out), names


ARGNAMES = ['a0', 'a1', 'a2', 'a3', 'a4', 'a5', 'a6', 'a7', 'mic0', 'mic1', 'sa_mode', 'in_mode', 'out_mode', 'mt_mode',
            'preemptible', 'storage']
