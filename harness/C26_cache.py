"""C26 scenario: the real gear.time_limited_max_size_cache.TimeLimitedMaxSizeCache looked up concurrently by up
to NT tasks on a real asyncio loop, with a director-controlled `load`, clock, cancellations and load failures.

Stubs (in the loaded module's namespace only; the class text is the repository's):
  time.monotonic_ns()           -> the director's integer clock
  CACHE_HITS/MISSES/EVICTIONS/LOAD_LATENCY -> inert metrics (labels(...).inc()/observe() do nothing)
  prom_async_time(metric, fut)  -> `async def measure(): try: return await fut; finally: metric.observe(..)`, i.e.
                                   what prometheus_async.aio.time does when given a future: a coroutine that awaits
                                   it (the package is not installed in the sandbox; its behaviour here is an assumption)
  load(k)                       -> suspends on a future the director completes with a value or with LoadError; the
                                   value records the clock at which the load finished
Schedule (all CrossHair-symbolic): num_slots (1..2), lifetime (1..LMAX); per step an action a_s, a key key_s
(0..NK-1; step 0 looks up key 0: keys are interchangeable), a clock increment dt_s and a drain bit d_s.
  action 0      LOOKUP key_s in a new task
  action 1/2    complete the oldest / newest pending load with a value
  action 3/4    fail the oldest / newest pending load with LoadError
  action 5      advance the clock by dt_s (the loop is drained first: time moves only at quiescent points, i.e.
                callback latency is taken as zero clock ticks)
  action 6+i    cancel lookup task i
  drain bit     run the loop until quiescent before the next action (the last step always drains)
`mode` selects sub-families of schedules by what cancel() hits, so that distinct mechanisms get their own obligations:
LOADER = the earliest lookup task blocked on a pending load of its key (in the repository's code that is the task
whose lookup created the load), FOLLOWER = a later task blocked on the same key.  mode 0: every schedule (the claim);
mode 1: >= 1 cancel and every cancel hits a LOADER; mode 2: >= 1 cancel and every cancel hits a FOLLOWER (both are
sub-families of mode 0, run at small k so that each mechanism is reported under its own name); mode 4: no cancel hits a
LOADER or a FOLLOWER (the schedules in which the two known finding classes cannot occur: a shard of mode 0 that is refuted
by a known class is excused as a whole, so without mode 4 a new defect in the same shard would be masked).
Oracle (what C26 states):
  bounded   the cache never holds more than num_slots entries (len of its entry dict, at every step)
  fresh     a returned value finished loading less than `lifetime` ago, and is a value for the key asked
  single    at most one load per key is in flight at any time
  errors    a lookup raises only CancelledError if the director cancelled that very task, or LoadError if a load
            of its key ended with LoadError during its life; in particular cancelling one caller must not fail another
  live      once every pending load is completed every lookup has finished
"""
import asyncio

import sys
import types

from vt import sched


def _stub_missing(name, **attrs):
    """prometheus_client / prometheus_async are not installed in the sandbox; the module under test only needs the
    names to exist at import time (every use is replaced below).  Real packages, when present, are left alone."""
    try:
        __import__(name)
    except ImportError:
        m = types.ModuleType(name)
        m.__dict__.update(attrs)
        sys.modules[name] = m


_stub_missing('prometheus_client', Counter=lambda *a, **k: None, Summary=lambda *a, **k: None)
_stub_missing('prometheus_async')
_stub_missing('prometheus_async.aio', time=None)
SRC = 'gear/gear/time_limited_max_size_cache.py'
cache_mod = sched.load_file('c26_cache_real', SRC)
NK = 2
LMAX = 4
DTMAX = 6


class Bad(Exception):
    pass


class LoadError(Exception):
    pass


class _Metric:
    def labels(self, **kw):
        return self

    def inc(self):
        pass

    def observe(self, x):
        pass


def _prom_async_time(metric, future):
    async def measure():
        try:
            return await future
        finally:
            metric.observe(0)

    return measure()


class _TimeShim:
    def __init__(self, clock):
        self.monotonic_ns = lambda: clock[0]


class Value:
    def __init__(self, k, born):
        self.k = k
        self.born = born


for _n in ('CACHE_HITS', 'CACHE_MISSES', 'CACHE_EVICTIONS', 'CACHE_LOAD_LATENCY'):
    if not hasattr(cache_mod, _n):
        raise ImportError(f'{SRC} no longer defines {_n}')
    setattr(cache_mod, _n, _Metric())
if not hasattr(cache_mod, 'prom_async_time'):
    raise ImportError(f'{SRC} no longer uses prom_async_time')
cache_mod.prom_async_time = _prom_async_time


async def scenario(nt, slots, lifetime, acts, keys, dts, drains, mode, trace=None, stats=None, auto=None):
    """auto = None: the director completes loads only through actions 1-4.  auto = list of bools (sequential family):
    after every LOOKUP step the loop is drained and, if that lookup started a load, the load is ended at once - with
    LoadError when auto[s] - and the loop drained again, so the history is a sequence of finished lookups and clock
    advances (cache hits included: nothing is pruned when there is no pending load)."""
    stats = {} if stats is None else stats
    stats.update({'complete': False, 'loader_cancels': 0, 'follower_cancels': 0, 'shared': False, 'bad': None})
    clock = [0]
    slots = sched.concretize(slots, 1, 2)
    cache_mod.time = _TimeShim(clock)
    loads = []                   # [key, future] of load coroutines that have not ended yet
    inflight = [0] * NK
    failed_at = [[] for _ in range(NK)]   # per key: steps during which a load of it ended with LoadError
    flags = {'bad': None, 'step': 0}

    async def load(k):
        inflight[k] += 1
        if inflight[k] > 1:
            note('single: two loads of the same key in flight')
        fut = asyncio.get_running_loop().create_future()
        rec = [k, fut]
        loads.append(rec)
        try:
            await fut
        except LoadError:
            failed_at[k].append(flags['step'])
            raise
        finally:
            inflight[k] -= 1
            loads.remove(rec)
        return Value(k, clock[0])

    def note(msg):
        """Violations are recorded, not raised: the schedule runs to its end so that the mode it belongs to (a
        property of the whole schedule) is known before the verdict is given."""
        if flags['bad'] is None:
            flags['bad'] = msg
            stats['bad'] = msg

    cache = cache_mod.TimeLimitedMaxSizeCache(load, lifetime, slots, 'c26')
    tasks, tkey, tstart = [], [], []
    cancelled = []
    outcome = []

    async def runner(i, k):
        try:
            v = await cache.lookup(k)
        except asyncio.CancelledError:
            outcome[i] = 'cancelled'
            raise
        except LoadError:
            outcome[i] = 'loaderror'
            return
        except Exception as e:
            outcome[i] = 'raised ' + type(e).__name__
            return
        outcome[i] = 'ok'
        if not isinstance(v, Value) or v.k != k:
            note('fresh: lookup returned a value that is not a value of the key asked')
        elif not clock[0] - v.born < lifetime:
            note('fresh: lookup returned a value older than the lifetime')

    def waiting(i):
        """Task i has run, has no outcome yet and a load of its key is pending: it is blocked in lookup."""
        if tasks[i].done() or outcome[i] is not None or getattr(tasks[i], '_fut_waiter', None) is None:
            return False
        for r in loads:
            if r[0] == tkey[i]:
                return True
        return False

    def kind(i):
        """LEADER = the earliest lookup task blocked on its key's pending load (in the repository's code: the
        task that created the load), FOLLOWER = a later task blocked on the same key.  Used for the partition
        into modes and for naming findings only."""
        if tasks[i].done():
            return 'done'
        if not waiting(i):
            return 'other'
        for j in range(i):
            if tkey[j] == tkey[i] and waiting(j):
                return 'follower'
        return 'loader'

    def check():
        if flags['bad']:
            return
        if len(cache._cache) > slots:
            return note('bounded: cache holds more entries than num_slots')
        for i in range(len(tasks)):
            o = outcome[i]
            if o is None or o == 'ok':
                continue
            if o == 'cancelled':
                if not cancelled[i]:
                    return note(f'errors: lookup task {i} raised CancelledError but was never cancelled')
            elif o == 'loaderror':
                ok = False
                for s in failed_at[tkey[i]]:
                    if s >= tstart[i]:
                        ok = True
                if not ok:
                    return note(f'errors: lookup task {i} raised LoadError but no load of its key failed during its life')
            else:
                return note(f'errors: lookup task {i} {o}')

    def finish_load(which, fail, s):
        pending = [r for r in loads if not r[1].done()]
        if not pending or (which == 1 and len(pending) < 2):
            raise sched.Prune()
        rec = pending[0] if which == 0 else pending[len(pending) - 1]
        if fail:
            rec[1].set_exception(LoadError())
        else:
            rec[1].set_result(None)

    try:
        for s in range(len(acts)):
            flags['step'] = s
            a = sched.concretize(acts[s], 0, 5 + nt)
            what = None
            if a == 0:
                if len(tasks) >= nt:
                    raise sched.Prune()
                k = 0 if s == 0 else sched.concretize(keys[s], 0, NK - 1)
                i = len(tasks)
                tkey.append(k)
                tstart.append(s)
                cancelled.append(False)
                outcome.append(None)
                for r in loads:
                    if r[0] == k:
                        stats['shared'] = True
                tasks.append(asyncio.ensure_future(runner(i, k)))
                what = f'lookup{i}(key{k})'
                if auto is not None:
                    await sched.settle()
                    for rec in list(loads):
                        if not rec[1].done():
                            if auto[s]:
                                rec[1].set_exception(LoadError())
                                what += '!fail'
                            else:
                                rec[1].set_result(None)
                    await sched.settle()
            elif a <= 4:
                finish_load((a - 1) % 2, a >= 3, s)
                what = ('fail' if a >= 3 else 'complete') + ('-oldest' if (a - 1) % 2 == 0 else '-newest')
            elif a == 5:
                await sched.settle()
                check()
                clock[0] = clock[0] + dts[s]
                what = 'advance'
            else:
                i = a - 6
                if i >= len(tasks) or cancelled[i] or tasks[i].done():
                    raise sched.Prune()
                kd = kind(i)
                if kd == 'follower':
                    if mode == 1 or mode == 4:
                        raise sched.Prune()
                    stats['follower_cancels'] += 1
                elif kd == 'loader':
                    if mode == 2 or mode == 4:
                        raise sched.Prune()
                    stats['loader_cancels'] += 1
                elif mode in (1, 2):
                    raise sched.Prune()
                cancelled[i] = True
                tasks[i].cancel()
                what = f'cancel{i}:{kd}'
            if drains[s]:
                await sched.settle()
            if trace is not None:
                trace.append((what, bool(drains[s]), int(clock[0]), list(outcome), sorted(int(x) for x in cache._cache)))
            check()
        if mode == 1 and stats['loader_cancels'] == 0:
            raise sched.Prune()
        if mode == 2 and stats['follower_cancels'] == 0:
            raise sched.Prune()
        stats['complete'] = True
        await sched.settle()
        check()
        for _ in range(nt + 1):
            if not loads:
                break
            for rec in list(loads):
                if not rec[1].done():
                    rec[1].set_result(None)
            await sched.settle()
            check()
        for i in range(len(tasks)):
            if not tasks[i].done():
                note(f'live: lookup task {i} never finished although every load was completed')
        if trace is not None:
            trace.append(('end', True, int(clock[0]), list(outcome), sorted(int(x) for x in cache._cache)))
        if flags['bad']:
            raise Bad(flags['bad'])
        return stats
    finally:
        for rec in list(loads):
            if not rec[1].done():
                rec[1].cancel()
        await sched.cleanup(tasks)


def split(k, args):
    """positional layout: slots, lifetime, a1..a_{k-1}, key1..key_{k-1}, dt1..dt_{k-1}, d0..d_{k-2}, mode"""
    n = k - 1
    return (args[0], args[1], [0] + list(args[2:2 + n]), [0] + list(args[2 + n:2 + 2 * n]), [0] + list(args[2 + 2 * n:2 + 3 * n]),
            list(args[2 + 3 * n:2 + 4 * n]) + [True], args[2 + 4 * n])


def _mk(nt, k):
    def check(*args):
        slots, lifetime, acts, keys, dts, drains, mode = split(k, args)
        try:
            sched.run_det(scenario(nt, slots, lifetime, acts, keys, dts, drains, mode))
        except sched.Prune:
            return True
        except Bad:
            return False
        return True

    def reach(*args):
        """Twin: False iff a well-formed schedule of this mode ran to the end (final oracle evaluated)."""
        slots, lifetime, acts, keys, dts, drains, mode = split(k, args)
        st = {}
        try:
            sched.run_det(scenario(nt, slots, lifetime, acts, keys, dts, drains, mode, None, st))
        except sched.Prune:
            return True
        except Bad:
            pass
        return not st.get('complete')

    return check, reach


def split_seq(k, args):
    """positional layout: slots, lifetime, a1..a_{k-1} (bool: True = advance, False = lookup), key1.., dt1.., fail0..fail_{k-1}"""
    n = k - 1
    acts = [0] + [5 if x else 0 for x in args[2:2 + n]]
    return (args[0], args[1], acts, [0] + list(args[2 + n:2 + 2 * n]), [0] + list(args[2 + 2 * n:2 + 3 * n]),
            [True] * k, list(args[2 + 3 * n:2 + 3 * n + k]))


def _mk_seq(k):
    def check(*args):
        slots, lifetime, acts, keys, dts, drains, fails = split_seq(k, args)
        try:
            sched.run_det(scenario(k, slots, lifetime, acts, keys, dts, drains, 0, auto=fails))
        except sched.Prune:
            return True
        except Bad:
            return False
        return True

    def reach(*args):
        slots, lifetime, acts, keys, dts, drains, fails = split_seq(k, args)
        st = {}
        try:
            sched.run_det(scenario(k, slots, lifetime, acts, keys, dts, drains, 0, None, st, auto=fails))
        except sched.Prune:
            return True
        except Bad:
            pass
        return not st.get('complete')

    return check, reach


checkseq_5, reachseq_5 = _mk_seq(5)
checkseq_6, reachseq_6 = _mk_seq(6)
checkseq_7, reachseq_7 = _mk_seq(7)
check_2_3, reach_2_3 = _mk(2, 3)
check_2_4, reach_2_4 = _mk(2, 4)
check_2_5, reach_2_5 = _mk(2, 5)
check_3_3, reach_3_3 = _mk(3, 3)
check_3_4, reach_3_4 = _mk(3, 4)
check_3_5, reach_3_5 = _mk(3, 5)
check_3_6, reach_3_6 = _mk(3, 6)


def replay_seq(args, meta):
    k = meta['k']
    pos = ([args['slots'], args['lifetime']] + [args[f'a{i}'] for i in range(1, k)] + [args[f'key{i}'] for i in range(1, k)]
           + [args[f'dt{i}'] for i in range(1, k)] + [args[f'f{i}'] for i in range(k)])
    slots, lifetime, acts, keys, dts, drains, fails = split_seq(k, pos)
    ok, why, trace = run_concrete(k, slots, lifetime, acts, keys, dts, drains, auto=fails)
    if ok:
        return True, None, why
    return False, classify(trace, why), f'{why}; sequential schedule (action, drain, clock, lookup outcomes, cached keys) = {trace}'


def run_concrete(nt, slots, lifetime, acts, keys, dts, drains, auto=None):
    trace = []
    try:
        sched.run_plain(scenario(nt, slots, lifetime, acts, keys, dts, drains, -1, trace, auto=auto))
    except sched.Prune:
        return True, 'schedule not well-formed', trace
    except Bad as e:
        return False, str(e), trace
    return True, 'held', trace


def _kinds(trace):
    return {w.split(':')[1] for (w, *_r) in trace if w and w.startswith('cancel')}


def classify(trace, why):
    head = why.split(':')[0]
    if head != 'errors' or 'CancelledError' not in why:
        return 'service-cache-' + head
    kinds = _kinds(trace)
    if 'loader' in kinds:
        return 'cancelled-loader-caller-fails-other-waiters'
    if 'follower' in kinds:
        return 'cancelled-waiter-cancels-shared-load'
    return 'uncancelled-lookup-raises-cancellederror'


def replay(args, meta):
    """Plain asyncio (stock loop), no CrossHair; the failing schedule is first shrunk by deleting steps while it
    still fails on the real class with no new kind of cancel (only to name the mechanism).  -> (ok, class, why)"""
    if meta.get('seq'):
        return replay_seq(args, meta)
    nt, k = meta['nt'], meta['k']
    pos = ([args['slots'], args['lifetime']] + [args[f'a{i}'] for i in range(1, k)] + [args[f'key{i}'] for i in range(1, k)]
           + [args[f'dt{i}'] for i in range(1, k)] + [args[f'd{i}'] for i in range(k - 1)] + [args['mode']])
    slots, lifetime, acts, keys, dts, drains, _mode = split(k, pos)
    ok, why, trace = run_concrete(nt, slots, lifetime, acts, keys, dts, drains)
    if ok:
        return True, None, why
    changed = True
    while changed:
        changed = False
        for j in range(len(acts) - 1, 0, -1):
            cut = lambda l: l[:j] + l[j + 1:]
            ok2, why2, tr2 = run_concrete(nt, slots, lifetime, cut(acts), cut(keys), cut(dts), cut(drains))
            if not ok2 and why2.split(':')[0] == why.split(':')[0] and _kinds(tr2) <= _kinds(trace):
                acts, keys, dts, drains, why, trace, changed = cut(acts), cut(keys), cut(dts), cut(drains), why2, tr2, True
                break
    return False, classify(trace, why), (f'{why}; minimal schedule (action, drain, clock, lookup outcomes, cached keys) = {trace}')


sched.freeze()
