"""C36 text-level oracle: the type *implied by the IR text the front end sends*, inferred by rules written here
from the engine's side (Scala), independently of hail.ir's Python `_compute_type`:

* primitive operator result types are read at run time from the Scala sources (BinaryOp.scala / UnaryOp.scala
  `returnType` tables, `fromString` name tables);
* structural nodes follow the engine's typing (InferType.scala): MakeArray/MakeStruct/MakeTuple/InsertFields/
  SelectFields/GetField/GetTupleElement/If/Coalesce/Let/stream nodes/Apply (declared return type)/literals;
* TableRange/TableMapRows/TableMapGlobals/TableKeyBy/TableFilter for tables.

A node outside this table makes the inference return None ("not inferred"): counted, never a pass or a failure.
Types are nested tuples, printed in the engine's parsable syntax for comparison with `dtype._parsable_string()`.
"""
import re

from vt import irsem, loader
from vt.common import HarnessError

BINOP_SRC = 'hail/hail/src/is/hail/expr/ir/BinaryOp.scala'
UNOP_SRC = 'hail/hail/src/is/hail/expr/ir/UnaryOp.scala'

PRIMS = {'Int32', 'Int64', 'Float32', 'Float64', 'Boolean', 'String', 'Call', 'Void'}
_SCALA_T = {'TInt32': 'Int32', 'TInt64': 'Int64', 'TFloat32': 'Float32', 'TFloat64': 'Float64', 'TBoolean': 'Boolean'}


class NotInferred(Exception):
    pass


class IllTyped(Exception):
    """the text is not well-typed by the engine's rules; `tag` names the rule (part of the finding class)"""

    def __init__(self, msg, tag='value-ir'):
        super().__init__(msg)
        self.tag = tag


# ---- parsable type strings ------------------------------------------------------------------------------
_TT = re.compile(r'`(?:[^`\\]|\\.)*`|[A-Za-z_][A-Za-z_0-9]*|[\[\]{}(),:+]|\d+')


def parse_type(s):
    toks = _TT.findall(s)
    if ''.join(toks) != s.replace(' ', ''):
        raise NotInferred(f'type syntax {s}')
    pos = [0]

    def peek():
        return toks[pos[0]] if pos[0] < len(toks) else None

    def eat(t=None):
        x = peek()
        if x is None or (t is not None and x != t):
            raise NotInferred(f'type syntax {s}')
        pos[0] += 1
        return x

    def ty():
        if peek() == '+':
            eat()
        h = eat()
        if h in PRIMS:
            return h
        if h in ('Array', 'Set', 'Stream', 'Interval'):
            eat('[')
            e = ty()
            eat(']')
            return (h, e)
        if h == 'Dict':
            eat('[')
            k = ty()
            eat(',')
            v = ty()
            eat(']')
            return ('Dict', k, v)
        if h == 'Tuple':
            eat('[')
            xs = []
            while peek() != ']':
                xs.append(ty())
                if peek() == ',':
                    eat()
            eat(']')
            return ('Tuple', tuple(xs))
        if h == 'Struct':
            eat('{')
            fs = []
            while peek() != '}':
                n = irsem.unescape_id(eat())
                eat(':')
                fs.append((n, ty()))
                if peek() == ',':
                    eat()
            eat('}')
            return ('Struct', tuple(fs))
        raise NotInferred(f'type {h}')
    t = ty()
    if pos[0] != len(toks):
        raise NotInferred(f'type syntax {s}')
    return t


def show(t):
    if isinstance(t, str):
        return t
    if t[0] in ('Array', 'Set', 'Stream', 'Interval'):
        return f'{t[0]}[{show(t[1])}]'
    if t[0] == 'Dict':
        return f'Dict[{show(t[1])},{show(t[2])}]'
    if t[0] == 'Tuple':
        return 'Tuple[' + ','.join(show(x) for x in t[1]) + ']'
    if t[0] == 'Struct':
        return 'Struct{' + ','.join(f'{_esc(n)}:{show(x)}' for n, x in t[1]) + '}'
    raise HarnessError(f'show {t!r}')


def _esc(n):
    return n if re.fullmatch(r'[A-Za-z_][A-Za-z_0-9]*', n) else '`' + n.replace('`', '\\`') + '`'


def of_hail(t):
    """front-end HailType -> the same nested-tuple form, through its parsable string"""
    return parse_type(t._parsable_string())


# ---- operator tables from the Scala sources -----------------------------------------------------------------
_TABLES = {}


def _scala_tables():
    if _TABLES:
        return _TABLES
    btxt = loader.read(BINOP_SRC)
    m = re.search(r'private val returnType.*?=\s*lift\s*\{(.*?)\n  \}', btxt, re.S)
    if not m:
        raise HarnessError('BinaryOp.scala: returnType table not found')
    body = re.sub(r'\s+', ' ', m.group(1))
    rules = []
    for cm in re.finditer(r'case \((.*?)\) => (\w+)', body):
        lhs, res = cm.group(1), cm.group(2)
        parts = _split_top(lhs)
        if len(parts) != 3:
            raise HarnessError(f'BinaryOp.scala: cannot read case ({lhs})')
        ops = [o.strip().rstrip('()').rstrip('(') for o in parts[0].split('|')]
        ops = [re.sub(r'\(\)$', '', o.strip()) for o in parts[0].split('|')]
        lt, lbind = _alts(parts[1])
        rt, _ = _alts(parts[2])
        rules.append((set(ops), lt, rt, res, lbind))
    if len(rules) < 5:
        raise HarnessError('BinaryOp.scala: too few typing cases read')
    names = {}
    fm = re.search(r'val fromString: PartialFunction\[String, BinaryOp\] = \{(.*?)\}', btxt, re.S)
    for cm in re.finditer(r'case (.*?) => (\w+)\(\)', fm.group(1)):
        for a in cm.group(1).split('|'):
            names[a.strip().strip('"')] = cm.group(2)
    utxt = loader.read(UNOP_SRC)
    um = re.search(r'private val returnType.*?=\s*lift\s*\{(.*?)\n  \}', utxt, re.S)
    urules = []
    for cm in re.finditer(r'case \((\w+), (.*?)\) => (\w+)', re.sub(r'\s+', ' ', um.group(1))):
        ts, bind = _alts(cm.group(2))
        urules.append((cm.group(1), ts, cm.group(3), bind))
    unames = {}
    fm = re.search(r'val fromString: PartialFunction\[String, UnaryOp\] = \{(.*?)\}', utxt, re.S)
    for cm in re.finditer(r'case (.*?) => (\w+)', fm.group(1)):
        for a in cm.group(1).split('|'):
            unames[a.strip().strip('"')] = cm.group(2)
    if not names or not urules or not unames:
        raise HarnessError('Scala operator tables could not be read')
    _TABLES.update(bin=rules, binnames=names, un=urules, unnames=unames, src=(btxt, utxt))
    return _TABLES


def _split_top(s):
    out, depth, cur = [], 0, ''
    for ch in s:
        if ch == '(':
            depth += 1
        elif ch == ')':
            depth -= 1
        if ch == ',' and depth == 0:
            out.append(cur.strip())
            cur = ''
        else:
            cur += ch
    if cur.strip():
        out.append(cur.strip())
    return out


def _alts(s):
    """'TInt32' | 't @ (TInt32 | TInt64)' -> ({types}, binder or None)"""
    s = s.strip()
    bind = None
    m = re.match(r'(\w+) @ \((.*)\)$', s)
    if m:
        bind, s = m.group(1), m.group(2)
    ts = set()
    for a in s.split('|'):
        a = a.strip()
        if a not in _SCALA_T:
            raise HarnessError(f'Scala type pattern {a}')
        ts.add(_SCALA_T[a])
    return ts, bind


def binop_type(op, l, r):
    T = _scala_tables()
    name = T['binnames'].get(irsem.unescape_id(op))
    if name is None:
        raise NotInferred(f'binary op {op}')
    for ops, lt, rt, res, lbind in T['bin']:
        if name in ops and l in lt and r in rt:
            return l if res == lbind else _SCALA_T[res]
    raise IllTyped(f'the engine cannot apply {name} to {show(l)} and {show(r)}')


def unop_type(op, t):
    T = _scala_tables()
    name = T['unnames'].get(irsem.unescape_id(op))
    if name is None:
        raise NotInferred(f'unary op {op}')
    for nm, ts, res, bind in T['un']:
        if nm == name and t in ts:
            return t if res == bind else _SCALA_T[res]
    raise IllTyped(f'the engine cannot apply {name} to {show(t)}')


# ---- value IR -------------------------------------------------------------------------------------------
def elt(t, what):
    if isinstance(t, tuple) and t[0] in ('Array', 'Set', 'Stream'):
        return t[1]
    if isinstance(t, tuple) and t[0] == 'Dict':
        return ('Struct', (('key', t[1]), ('value', t[2])))
    raise IllTyped(f'{what}: container expected, got {show(t)}')


def fields(t, what):
    if isinstance(t, tuple) and t[0] == 'Struct':
        return list(t[1])
    raise IllTyped(f'{what}: struct expected, got {show(t)}')


def names_list(x):
    if not isinstance(x, list) or any(isinstance(a, list) for a in x):
        raise NotInferred('name list')
    return [irsem.unescape_id(a) for a in x]


def infer(t, env, aenv=None, senv=None):
    """env: eval scope; aenv / senv: the aggregation / scan scope (None when the node is not inside one)"""
    if not isinstance(t, list) or not t or not isinstance(t[0], str):
        raise NotInferred(f'node {t!r}')
    k, a = t[0], t[1:]
    I = lambda x, e=env: infer(x, e, aenv, senv)  # noqa: E731
    if k == 'I32':
        return 'Int32'
    if k == 'I64':
        return 'Int64'
    if k == 'F32':
        return 'Float32'
    if k == 'F64':
        return 'Float64'
    if k == 'Str':
        return 'String'
    if k in ('True', 'False'):
        return 'Boolean'
    if k in ('NA', 'Literal', 'EncodedLiteral'):
        return parse_type(a[0])
    if k == 'Ref':
        n = irsem.unescape_id(a[0])
        if n not in env:
            raise IllTyped(f'unbound {n}')
        return env[n]
    if k == 'Let':
        i, binds = 0, []
        while i + 1 < len(a) and isinstance(a[i], str):
            binds.append((a[i], irsem.unescape_id(a[i + 1])))
            i += 2
        rest = a[i:]
        if len(rest) != len(binds) + 1:
            raise NotInferred('Let layout')
        e = dict(env)
        for (scope, n), v in zip(binds, rest):
            if scope != 'eval':
                raise NotInferred('agg Let')
            e[n] = infer(v, e, aenv, senv)
        return infer(rest[-1], e, aenv, senv)
    if k == 'If':
        c, x, y = I(a[0]), I(a[1]), I(a[2])
        if c != 'Boolean' or x != y:
            raise IllTyped(f'If: cond {show(c)}, branches {show(x)} / {show(y)}')
        return x
    if k == 'Coalesce':
        ts = [I(x) for x in a]
        if any(x != ts[0] for x in ts):
            raise IllTyped('Coalesce: ' + ' / '.join(show(x) for x in ts))
        return ts[0]
    if k == 'IsNA':
        I(a[0])
        return 'Boolean'
    if k == 'Cast':
        I(a[1])
        return parse_type(a[0])
    if k == 'ApplyBinaryPrimOp':
        return binop_type(a[0], I(a[1]), I(a[2]))
    if k == 'ApplyUnaryPrimOp':
        return unop_type(a[0], I(a[1]))
    if k == 'ApplyComparisonOp':
        l, r = I(a[1]), I(a[2])
        if l != r:
            raise IllTyped(f'comparison {a[0]} of {show(l)} and {show(r)}')
        return 'Int32' if irsem.unescape_id(a[0]) == 'Compare' else 'Boolean'
    if k == 'MakeArray':
        ts = [I(x) for x in a[1:]]
        if a[0] != 'None':
            d = parse_type(a[0])
            if any(x != elt(d, 'MakeArray') for x in ts):
                raise IllTyped(f'MakeArray {a[0]} with elements ' + ', '.join(show(x) for x in ts))
            return d
        if not ts or any(x != ts[0] for x in ts):
            raise IllTyped('MakeArray with elements ' + ', '.join(show(x) for x in ts))
        return ('Array', ts[0])
    if k == 'MakeStruct':
        return ('Struct', tuple((irsem.unescape_id(f[0]), I(f[1])) for f in a))
    if k == 'MakeTuple':
        return ('Tuple', tuple(I(x) for x in a[1:]))
    if k == 'GetField':
        fs = dict(fields(I(a[1]), 'GetField'))
        n = irsem.unescape_id(a[0])
        if n not in fs:
            raise IllTyped(f'GetField {n}')
        return fs[n]
    if k == 'GetTupleElement':
        t0 = I(a[1])
        if not (isinstance(t0, tuple) and t0[0] == 'Tuple') or int(a[0]) >= len(t0[1]):
            raise IllTyped('GetTupleElement')
        return t0[1][int(a[0])]
    if k == 'SelectFields':
        fs = dict(fields(I(a[1]), 'SelectFields'))
        out = []
        for n in names_list(a[0]):
            if n not in fs:
                raise IllTyped(f'SelectFields {n}')
            out.append((n, fs[n]))
        return ('Struct', tuple(out))
    if k == 'InsertFields':
        old = fields(I(a[0]), 'InsertFields')
        order = a[1]
        new = [(irsem.unescape_id(f[0]), I(f[1])) for f in a[2:]]
        res = [(n, dict(new).get(n, t_)) for n, t_ in old] + [(n, t_) for n, t_ in new if n not in dict(old)]
        if order != 'None':
            want = names_list(order)
            d = dict(res)
            if sorted(want) != sorted(d):
                raise IllTyped('InsertFields field order list')
            res = [(n, d[n]) for n in want]
        return ('Struct', tuple(res))
    if k == 'ArrayRef':
        at, it = I(a[1]), I(a[2])
        if it != 'Int32':
            raise IllTyped(f'ArrayRef index {show(it)}')
        return elt(at, 'ArrayRef')
    if k == 'ArrayLen':
        elt(I(a[0]), 'ArrayLen')
        return 'Int32'
    if k == 'ToArray':
        return ('Array', elt(I(a[0]), 'ToArray'))
    if k == 'ToStream':
        return ('Stream', elt(I(a[1]), 'ToStream'))
    if k == 'StreamRange':
        return ('Stream', 'Int32')
    if k in ('StreamMap', 'StreamFilter', 'StreamFlatMap'):
        n = irsem.unescape_id(a[0])
        st = I(a[1])
        e = dict(env)
        e[n] = elt(st, k)
        bt = infer(a[2], e, aenv, senv)
        if k == 'StreamMap':
            return ('Stream', bt)
        if k == 'StreamFilter':
            if bt != 'Boolean':
                raise IllTyped('StreamFilter body')
            return st
        return ('Stream', elt(bt, 'StreamFlatMap'))
    if k == 'StreamFold':
        acc, val = irsem.unescape_id(a[0]), irsem.unescape_id(a[1])
        st, z = I(a[2]), I(a[3])
        e = dict(env)
        e[acc] = z
        e[val] = elt(st, 'StreamFold')
        bt = infer(a[4], e, aenv, senv)
        if bt != z:
            raise IllTyped(f'StreamFold: zero {show(z)} but body {show(bt)}')
        return z
    if k == 'TableGetGlobals':
        return infer_table(a[0])['glob']
    if k in ('ApplyAggOp', 'ApplyScanOp'):
        # (ApplyAggOp op (init args) (seq args)): seq args live in the aggregation scope
        scope = aenv if k == 'ApplyAggOp' else senv
        if scope is None:
            raise IllTyped(f'{k} outside an aggregation / scan scope', 'agg-outside-scope')
        if len(a) != 3 or not isinstance(a[1], list) or not isinstance(a[2], list):
            raise NotInferred(f'{k} layout')
        for x in a[1]:
            infer(x, env, aenv, senv)
        seq = [infer(x, scope, None, None) for x in a[2]]
        if a[0] == 'Collect' and len(seq) == 1:
            return ('Array', seq[0])
        if a[0] == 'Count' and not seq:
            return 'Int64'
        if a[0] == 'Sum' and len(seq) == 1 and seq[0] in ('Int64', 'Float64'):
            return seq[0]
        raise NotInferred(f'{k} {a[0]}')
    if k in ('Apply', 'ApplySpecial'):
        # (Apply errorID name (typeArgs) returnType args...): the declared return type is what the engine uses
        for x in a[4:]:
            I(x)
        return parse_type(a[3])
    raise NotInferred(k)


# ---- table IR -------------------------------------------------------------------------------------------
def infer_table(t):
    """-> dict(row=Struct, glob=Struct, key=[names])"""
    k, a = t[0], t[1:]
    if k == 'TableRange':
        return {'row': ('Struct', (('idx', 'Int32'),)), 'glob': ('Struct', ()), 'key': ['idx']}
    if k == 'TableMapRows':
        c = infer_table(a[0])
        rt = infer(a[1], {'row': c['row'], 'global': c['glob']}, None, {'row': c['row'], 'global': c['glob']})
        fs = dict(fields(rt, 'TableMapRows'))
        if any(kf not in fs or fs[kf] != dict(c['row'][1])[kf] for kf in c['key']):
            raise IllTyped('TableMapRows changes a key field')
        return {'row': rt, 'glob': c['glob'], 'key': c['key']}
    if k == 'TableMapGlobals':
        c = infer_table(a[0])
        g = infer(a[1], {'global': c['glob']})
        fields(g, 'TableMapGlobals')
        return {'row': c['row'], 'glob': g, 'key': c['key']}
    if k == 'TableKeyBy':
        c = infer_table(a[3])
        ks = names_list(a[0])
        if any(x not in dict(c['row'][1]) for x in ks):
            raise IllTyped('TableKeyBy: unknown key field')
        return {'row': c['row'], 'glob': c['glob'], 'key': ks}
    if k == 'TableFilter':
        c = infer_table(a[0])
        p = infer(a[1], {'row': c['row'], 'global': c['glob']})
        if p != 'Boolean':
            raise IllTyped('TableFilter predicate')
        return c
    if k in ('TableHead', 'TableTail'):
        return infer_table(a[1])
    if k == 'TableDistinct':
        return infer_table(a[0])
    if k == 'TableUnion':
        cs = [infer_table(x) for x in a]
        if any(c['row'] != cs[0]['row'] or c['key'] != cs[0]['key'] for c in cs):
            raise IllTyped('TableUnion of different row types / keys (engine TypeCheck: all children have the row type and key of '
                           'the first): ' + ' | '.join(show(c['row']) + ' key=' + str(c['key']) for c in cs),
                           'table-union-children-row-types-differ')
        return cs[0]
    if k == 'TableLeftJoinRightDistinct':
        rule = _join_rules()['TableLeftJoinRightDistinct']
        root = irsem.unescape_id(a[0])
        l, r = infer_table(a[1]), infer_table(a[2])
        _check_join_keys(l, r, k)
        return {'row': _insert(l['row'], root, _value_type(r), rule['mode']), 'glob': l['glob'], 'key': l['key']}
    if k == 'TableIntervalJoin':
        rule = _join_rules()['TableIntervalJoin']
        root, product = irsem.unescape_id(a[0]), irsem._bool_lit(a[1])
        l, r = infer_table(a[2]), infer_table(a[3])
        rk = [dict(r['row'][1])[x] for x in r['key']]
        lk = [dict(l['row'][1])[x] for x in l['key']]
        if not rk or not lk or not (isinstance(rk[0], tuple) and rk[0][0] == 'Interval' and rk[0][1] == lk[0]):
            raise IllTyped(f'TableIntervalJoin: left key {[show(x) for x in lk]} vs right key {[show(x) for x in rk]}')
        vt = _value_type(r)
        if product and rule['product_array']:
            vt = ('Array', vt)
        return {'row': _insert(l['row'], root, vt, rule['mode']), 'glob': l['glob'], 'key': l['key']}
    if k == 'TableAggregateByKey':
        c = infer_table(a[0])
        e = infer(a[1], {'global': c['glob']}, {'global': c['glob'], 'row': c['row']})
        kt = [(n, dict(c['row'][1])[n]) for n in c['key']]
        return {'row': ('Struct', tuple(kt + fields(e, k))), 'glob': c['glob'], 'key': c['key']}
    if k == 'TableKeyByAndAggregate':
        # (TableKeyByAndAggregate nPartitions bufferSize child expr newKey)
        c = infer_table(a[2])
        scope = {'global': c['glob'], 'row': c['row']}
        e = infer(a[3], {'global': c['glob']}, scope)
        nk = infer(a[4], scope)
        return {'row': ('Struct', tuple(fields(nk, k) + fields(e, k))), 'glob': c['glob'], 'key': [n for n, _ in fields(nk, k)]}
    if k == 'TableJoin':
        # (TableJoin type joinKey left right); row field ORDER and key as TableJoin.typ in TableIR.scala defines them
        rule = _join_rules()['TableJoin']
        jk = int(a[1])
        l, r = infer_table(a[2]), infer_table(a[3])
        lrow, rrow = dict(l['row'][1]), dict(r['row'][1])
        lkey, rkey = l['key'][:jk], r['key'][:jk]
        if len(lkey) != jk or len(rkey) != jk or [lrow[x] for x in lkey] != [rrow[x] for x in rkey]:
            raise IllTyped('TableJoin: join key types differ', 'table-join-key')
        parts = {'leftKeyType': [(n, lrow[n]) for n in lkey],
                 'leftValueType': [(n, t_) for n, t_ in l['row'][1] if n not in lkey],
                 'rightValueType': [(n, t_) for n, t_ in r['row'][1] if n not in rkey],
                 'left.typ.globalType': fields(l['glob'], k), 'right.typ.globalType': fields(r['glob'], k),
                 'left.typ.key': list(l['key']), 'right.typ.key.drop(joinKey)': list(r['key'][jk:])}
        if set(n for n, _ in parts['leftValueType']) & set(n for n, _ in parts['rightValueType']):
            raise IllTyped('TableJoin: left and right value fields clash', 'table-join-name-clash')
        row = [f for nm in rule['row'] for f in parts[nm]]
        if len(set(n for n, _ in row)) != len(row):
            raise IllTyped('TableJoin: duplicate field', 'table-join-name-clash')
        return {'row': ('Struct', tuple(row)), 'glob': ('Struct', tuple(f for nm in rule['glob'] for f in parts[nm])),
                'key': [x for nm in rule['key'] for x in parts[nm]]}
    if k == 'TableRename':
        # (TableRename (old row names) (new row names) (old global names) (new global names) child)
        import json as _json
        c = infer_table(a[4])
        rm = dict(zip([_json.loads(x) for x in a[0]], [_json.loads(x) for x in a[1]]))
        gm = dict(zip([_json.loads(x) for x in a[2]], [_json.loads(x) for x in a[3]]))
        if any(x not in dict(c['row'][1]) for x in rm) or any(x not in dict(c['glob'][1]) for x in gm):
            raise IllTyped('TableRename: unknown field', 'rename-unknown-field')
        row = [(rm.get(n, n), t_) for n, t_ in c['row'][1]]
        glob = [(gm.get(n, n), t_) for n, t_ in c['glob'][1]]
        if len(set(n for n, _ in row)) != len(row) or len(set(n for n, _ in glob)) != len(glob):
            raise IllTyped('TableRename: duplicate field name', 'rename-duplicate')
        return {'row': ('Struct', tuple(row)), 'glob': ('Struct', tuple(glob)), 'key': [rm.get(n, n) for n in c['key']]}
    if k == 'MatrixRowsTable':
        m = infer_matrix(a[0])
        return {'row': m['row'], 'glob': m['glob'], 'key': m['rkey']}
    if k == 'MatrixColsTable':
        m = infer_matrix(a[0])
        return {'row': m['col'], 'glob': m['glob'], 'key': m['ckey']}
    if k == 'MatrixEntriesTable':
        m = infer_matrix(a[0])
        names = [n for n, _ in m['row'][1]] + [n for n, _ in m['col'][1]] + [n for n, _ in m['entry'][1]]
        if len(set(names)) != len(names):
            raise IllTyped('MatrixEntriesTable: field name clash')
        return {'row': ('Struct', tuple(m['row'][1] + m['col'][1] + m['entry'][1])), 'glob': m['glob'],
                'key': m['rkey'] + m['ckey']}
    raise NotInferred(k)


def _value_type(tt):
    return ('Struct', tuple((n, t_) for n, t_ in tt['row'][1] if n not in tt['key']))


def _insert(struct, name, typ, mode):
    """structInsert (replace or append) / appendKey (must be new)"""
    fs = list(struct[1])
    if name in dict(fs):
        if mode == 'appendKey':
            raise IllTyped(f'join root {name} already is a field')
        return ('Struct', tuple((n, typ if n == name else t_) for n, t_ in fs))
    return ('Struct', tuple(fs + [(name, typ)]))


def _check_join_keys(l, r, what):
    lk = [dict(l['row'][1])[x] for x in l['key']]
    rk = [dict(r['row'][1])[x] for x in r['key']]
    if len(rk) > len(lk) or lk[:len(rk)] != rk:
        raise IllTyped(f'{what}: right key {[show(x) for x in rk]} is not a prefix of left key {[show(x) for x in lk]}',
                       'left-join-right-key-not-prefix')


TABLE_SRC = 'hail/hail/src/is/hail/expr/ir/TableIR.scala'
MATRIX_SRC = 'hail/hail/src/is/hail/expr/ir/MatrixIR.scala'
_JOIN = {}


def _join_rules():
    """How the engine types the join nodes, read from the `typ` definitions in TableIR.scala / MatrixIR.scala."""
    if _JOIN:
        return _JOIN
    ttxt, mtxt = loader.read(TABLE_SRC), loader.read(MATRIX_SRC)

    def block(txt, cls):
        m = re.search(r'case class %s\((.*?)\n}\n' % cls, txt, re.S)
        if not m:
            raise HarnessError(f'{cls}: case class not found in the Scala sources')
        return re.sub(r'\s+', ' ', m.group(1))
    b = block(ttxt, 'TableLeftJoinRightDistinct')
    m = re.search(r'rowType = left\.typ\.rowType\.(structInsert|appendKey)\((.*?)\)', b)
    if not m or 'right.typ.valueType' not in m.group(2) or 'TArray' in m.group(2):
        raise HarnessError('TableLeftJoinRightDistinct.typ no longer inserts right.typ.valueType at root')
    _JOIN['TableLeftJoinRightDistinct'] = {'mode': m.group(1)}
    b = block(ttxt, 'TableIntervalJoin')
    pm = re.search(r'if \(product\) (TArray\()?right\.typ\.valueType\)? else (TArray\()?right\.typ\.valueType', b)
    m = re.search(r'left\.typ\.rowType\.(structInsert|appendKey)\(root, rightType\)', b)
    if not pm or not m or pm.group(2):
        raise HarnessError('TableIntervalJoin.typ: unexpected definition')
    _JOIN['TableIntervalJoin'] = {'mode': m.group(1), 'product_array': bool(pm.group(1))}
    b = block(mtxt, 'MatrixAnnotateRowsTable')
    pm = re.search(r'if \(product\) (TArray\()?table\.typ\.valueType\)? else (TArray\()?table\.typ\.valueType', b)
    m = re.search(r'child\.typ\.rowType\.(structInsert|appendKey)\(root, annotationType\)', b)
    if not pm or not m or pm.group(2):
        raise HarnessError('MatrixAnnotateRowsTable.typ: unexpected definition')
    _JOIN['MatrixAnnotateRowsTable'] = {'mode': m.group(1), 'product_array': bool(pm.group(1))}
    b = block(mtxt, 'MatrixAnnotateColsTable')
    m = re.search(r'colType = child\.typ\.colType\.(structInsert|appendKey)\((.*?)\)', b)
    if not m or 'table.typ.valueType' not in m.group(2):
        raise HarnessError('MatrixAnnotateColsTable.typ: unexpected definition')
    _JOIN['MatrixAnnotateColsTable'] = {'mode': m.group(1)}
    # TableJoin.typ: order of the row / global / key concatenations
    b = block(ttxt, 'TableJoin')
    for pat in (r'val leftKey = left\.typ\.key\.take\(joinKey\)', r'val rightKey = right\.typ\.key\.take\(joinKey\)',
                r'val leftKeyType = TableType\.keyType\(leftRowType, leftKey\)',
                r'val leftValueType = TableType\.valueType\(leftRowType, leftKey\)',
                r'val rightValueType = TableType\.valueType\(rightRowType, rightKey\)',
                r'TableType\(newRowType, newKey, newGlobalType\)'):
        if not re.search(pat, b):
            raise HarnessError(f'TableJoin.typ: definition changed ({pat})')

    def concat(txt, var):
        m_ = re.search(r'val %s = (.*?)(?= val | TableType\(| if \(|$)' % var, txt)
        if not m_:
            raise HarnessError(f'{var}: definition not found')
        return [x.strip() for x in m_.group(1).split('++')]
    _JOIN['TableJoin'] = {'row': concat(b, 'newRowType'), 'glob': concat(b, 'newGlobalType'), 'key': concat(b, 'newKey')}
    known = {'leftKeyType', 'leftValueType', 'rightValueType', 'left.typ.globalType', 'right.typ.globalType', 'left.typ.key',
             'right.typ.key.drop(joinKey)'}
    if any(x not in known for v in _JOIN['TableJoin'].values() for x in v):
        raise HarnessError(f'TableJoin.typ: unexpected concatenation {_JOIN["TableJoin"]}')
    ktxt = loader.read('hail/hail/src/is/hail/types/virtual/TableType.scala')
    if not re.search(r'def keyType\(ts: TStruct, key: IndexedSeq\[String\]\): TStruct =\s*ts\.typeAfterSelect\(key\.map\(ts\.fieldIdx\)\)', ktxt) \
            or not re.search(r'def valueType\(ts: TStruct, key: IndexedSeq\[String\]\): TStruct =\s*ts\.filterSet\(key\.toSet, include = false\)\._1', ktxt):
        raise HarnessError('TableType.keyType / valueType: definition changed')
    # MatrixUnionCols.typ: row = concatenation order of newRowType; everything else from the left child
    b = block(mtxt, 'MatrixUnionCols')
    for pat in (r'val leftKeyType = left\.typ\.rowKeyStruct', r'val leftValueType = left\.typ\.rowValueStruct',
                r'val rightValueType = right\.typ\.rowValueStruct', r'left\.typ\.copy\(rowType = newRowType\)'):
        if not re.search(pat, b):
            raise HarnessError(f'MatrixUnionCols.typ: definition changed ({pat})')
    m_ = re.search(r'\) (\w+(?: \+\+ \w+)+) \}', b)
    if not m_:
        raise HarnessError('MatrixUnionCols.newRowType: concatenation not found')
    _JOIN['MatrixUnionCols'] = {'row': [x.strip() for x in m_.group(1).split('++')]}
    if any(x not in ('leftKeyType', 'leftValueType', 'rightValueType') for x in _JOIN['MatrixUnionCols']['row']):
        raise HarnessError(f'MatrixUnionCols.newRowType: unexpected concatenation {_JOIN["MatrixUnionCols"]}')
    _JOIN['src'] = (ttxt, mtxt)
    return _JOIN


# ---- matrix IR ------------------------------------------------------------------------------------------
def infer_matrix(t):
    """-> dict(row, col, entry, glob: Struct; rkey, ckey: [names])"""
    import json as _json
    k, a = t[0], t[1:]
    if k == 'MatrixRead':
        try:
            rd = _json.loads(_json.loads(a[-1]))
        except Exception:
            raise NotInferred('MatrixRead reader')
        if rd.get('name') != 'MatrixRangeReader' or a[0] != 'DropRowColUIDs':
            raise NotInferred('MatrixRead reader')
        return {'row': ('Struct', (('row_idx', 'Int32'),)), 'col': ('Struct', (('col_idx', 'Int32'),)),
                'entry': ('Struct', ()), 'glob': ('Struct', ()), 'rkey': ['row_idx'], 'ckey': ['col_idx']}
    if k == 'MatrixMapRows':
        c = infer_matrix(a[0])
        scope = {'global': c['glob'], 'va': c['row']}
        r = infer(a[1], scope, {'global': c['glob'], 'va': c['row'], 'sa': c['col'], 'g': c['entry']}, scope)
        fs = dict(fields(r, k))
        if any(x not in fs or fs[x] != dict(c['row'][1])[x] for x in c['rkey']):
            raise IllTyped('MatrixMapRows changes a row key field')
        return dict(c, row=r)
    if k == 'MatrixMapCols':
        c = infer_matrix(a[1])
        scope = {'global': c['glob'], 'sa': c['col']}
        r = infer(a[2], scope, {'global': c['glob'], 'va': c['row'], 'sa': c['col'], 'g': c['entry']}, scope)
        ck = c['ckey'] if a[0] == 'None' else [_json.loads(x) if x.startswith('"') else irsem.unescape_id(x) for x in a[0]]
        if any(x not in dict(fields(r, k)) for x in ck):
            raise IllTyped('MatrixMapCols: unknown col key field')
        return dict(c, col=r, ckey=ck)
    if k == 'MatrixMapEntries':
        c = infer_matrix(a[0])
        r = infer(a[1], {'global': c['glob'], 'va': c['row'], 'sa': c['col'], 'g': c['entry']})
        fields(r, k)
        return dict(c, entry=r)
    if k == 'MatrixMapGlobals':
        c = infer_matrix(a[0])
        r = infer(a[1], {'global': c['glob']})
        fields(r, k)
        return dict(c, glob=r)
    if k in ('MatrixFilterRows', 'MatrixFilterCols', 'MatrixFilterEntries'):
        c = infer_matrix(a[0])
        scope = {'global': c['glob']}
        if k != 'MatrixFilterCols':
            scope['va'] = c['row']
        if k != 'MatrixFilterRows':
            scope['sa'] = c['col']
        if k == 'MatrixFilterEntries':
            scope['g'] = c['entry']
        if infer(a[1], scope) != 'Boolean':
            raise IllTyped(f'{k} predicate')
        return c
    if k == 'MatrixKeyRowsBy':
        c = infer_matrix(a[2])
        ks = names_list(a[0])
        if any(x not in dict(c['row'][1]) for x in ks):
            raise IllTyped('MatrixKeyRowsBy: unknown key field')
        return dict(c, rkey=ks)
    if k == 'MatrixAnnotateRowsTable':
        rule = _join_rules()[k]
        root, product = _json.loads(a[0]), irsem._bool_lit(a[1])
        c, tb = infer_matrix(a[2]), infer_table(a[3])
        lk = [dict(c['row'][1])[x] for x in c['rkey']]
        rk = [dict(tb['row'][1])[x] for x in tb['key']]
        # TypeCheck.scala: (!product && table key isPrefixOf row key) || (one interval key over the first row key type)
        interval = len(rk) == 1 and bool(lk) and isinstance(rk[0], tuple) and rk[0][0] == 'Interval' and rk[0][1] == lk[0]
        prefix = len(rk) <= len(lk) and lk[:len(rk)] == rk
        if not interval and prefix and product:
            raise IllTyped(f'{k}: product=True needs a single interval key over the first row key type',
                           'annotate-rows-table-product-without-interval-key')
        if not interval and not prefix:
            raise IllTyped(f'{k}: table key {[show(x) for x in rk]} does not match row key {[show(x) for x in lk]} '
                           f'(engine TypeCheck: (!product && key isPrefixOf rowKey) || single interval key)',
                           'annotate-rows-table-key-not-prefix-nor-single-interval')
        vt = _value_type(tb)
        if product and rule['product_array']:
            vt = ('Array', vt)
        return dict(c, row=_insert(c['row'], root, vt, rule['mode']))
    if k == 'MatrixUnionCols':
        rule = _join_rules()[k]
        l, r = infer_matrix(a[1]), infer_matrix(a[2])
        lrow, rrow = dict(l['row'][1]), dict(r['row'][1])
        if [lrow[x] for x in l['rkey']] != [rrow[x] for x in r['rkey']]:
            raise IllTyped('MatrixUnionCols: row key types differ', 'union-cols-key')
        parts = {'leftKeyType': [(n, lrow[n]) for n in l['rkey']],
                 'leftValueType': [(n, t_) for n, t_ in l['row'][1] if n not in l['rkey']],
                 'rightValueType': [(n, t_) for n, t_ in r['row'][1] if n not in r['rkey']]}
        row = [f for nm in rule['row'] for f in parts[nm]]
        if len(set(n for n, _ in row)) != len(row):
            raise IllTyped('MatrixUnionCols: left and right row value fields clash', 'union-cols-name-clash')
        return dict(l, row=('Struct', tuple(row)))
    if k == 'MatrixUnionRows':
        cs = [infer_matrix(x) for x in a]
        if any(c != cs[0] for c in cs):
            raise IllTyped('MatrixUnionRows of different matrix types', 'union-rows-types')
        return cs[0]
    if k == 'MatrixAnnotateColsTable':
        rule = _join_rules()[k]
        root = _json.loads(a[0])
        c, tb = infer_matrix(a[1]), infer_table(a[2])
        # TypeCheck.scala asserts only that root is not yet a column field (no key compatibility is checked by the
        # engine's type checker; an incompatible key fails later, in lowering)
        if root in dict(c['col'][1]):
            raise IllTyped(f'{k}: root {root} already is a column field')
        return dict(c, col=_insert(c['col'], root, _value_type(tb), rule['mode']))
    raise NotInferred(k)


def _has_scan(t):
    if isinstance(t, list):
        return (bool(t) and t[0] == 'ApplyScanOp') or any(_has_scan(x) for x in t)
    return False


STATS = {'expr_inferred': 0, 'expr_not_inferred': 0, 'table_inferred': 0, 'table_not_inferred': 0, 'matrix_inferred': 0,
         'matrix_not_inferred': 0, 'join_nodes_inferred': 0, 'not_inferred_nodes': {}}


_JOIN_RE = re.compile(r'\((?:TableLeftJoinRightDistinct|TableIntervalJoin|MatrixAnnotateRowsTable|MatrixAnnotateColsTable|TableJoin|MatrixUnionCols) ')


def text_check(obj, env):
    """Called by the program harness after every accepted API call."""
    from harness.C36_prog import Violation
    import hail as hl
    if isinstance(obj, hl.Table):
        text = str(obj._tir)
        try:
            tt = infer_table(irsem.read(text))
        except NotInferred as n:
            STATS['table_not_inferred'] += 1
            STATS['not_inferred_nodes'][str(n)] = STATS['not_inferred_nodes'].get(str(n), 0) + 1
            return
        except IllTyped as e:
            raise Violation('ir-text-ill-typed:' + e.tag, f'{e}: {text[:600]}')
        STATS['table_inferred'] += 1
        STATS['join_nodes_inferred'] += len(_JOIN_RE.findall(text))
        front = (of_hail(obj.row.dtype), of_hail(obj.globals.dtype), list(obj.key))
        if front != (tt['row'], tt['glob'], tt['key']):
            raise Violation('table-type-vs-ir-text', f'front end row={show(front[0])} globals={show(front[1])} key={front[2]} '
                            f'but the IR text implies row={show(tt["row"])} globals={show(tt["glob"])} key={tt["key"]}: '
                            f'{text[:600]}')
        return
    if isinstance(obj, hl.MatrixTable):
        text = str(obj._mir)
        try:
            mt = infer_matrix(irsem.read(text))
        except NotInferred as n:
            STATS['matrix_not_inferred'] += 1
            STATS['not_inferred_nodes'][str(n)] = STATS['not_inferred_nodes'].get(str(n), 0) + 1
            return
        except IllTyped as e:
            raise Violation('ir-text-ill-typed:' + e.tag, f'{e}: {text[:900]}')
        STATS['matrix_inferred'] += 1
        STATS['join_nodes_inferred'] += len(_JOIN_RE.findall(text))
        front = {'row': of_hail(obj.row.dtype), 'col': of_hail(obj.col.dtype), 'entry': of_hail(obj.entry.dtype),
                 'glob': of_hail(obj.globals.dtype), 'rkey': list(obj.row_key), 'ckey': list(obj.col_key)}
        for what in front:
            if front[what] != mt[what]:
                sh = (lambda x: x if isinstance(x, list) else show(x))
                kind = 'matrix-type-vs-ir-text'
                if what == 'row' and '(MatrixUnionCols ' in text and sorted(front['row'][1]) == sorted(mt['row'][1]):
                    # same fields, different ORDER, below a MatrixUnionCols: its own finding class
                    kind = 'matrix-row-field-order-after-union-cols'
                raise Violation(kind, f'{what}: front end {sh(front[what])} but the IR text implies '
                                f'{sh(mt[what])}: {text[:900]}')
        return
    text = str(obj._ir)
    try:
        e = {n: of_hail(t) for n, t in (env or {}).items()}
        it = infer(irsem.read(text), e)
    except NotInferred as n:
        STATS['expr_not_inferred'] += 1
        STATS['not_inferred_nodes'][str(n)] = STATS['not_inferred_nodes'].get(str(n), 0) + 1
        return
    except IllTyped as ex:
        raise Violation('ir-text-ill-typed:' + ex.tag, f'{ex}: {text[:600]}')
    STATS['expr_inferred'] += 1
    if it != of_hail(obj.dtype):
        raise Violation('dtype-vs-ir-text', f'front end says {obj.dtype._parsable_string()} but the IR text implies {show(it)}: '
                        f'{text[:600]}')
