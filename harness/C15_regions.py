"""E3 kernel for C15: regions_to_bits_rep / regions_bits_rep_to_regions translated from their AST (parsed from
/repo at run time) to z3 terms over (_ BitVec 64).

Symbolic model: N region names (concrete distinct strings r0..r(N-1)); `all_regions_mapping` maps region j to a
symbolic index idx_j (BitVec 64); a symbolic list is a sequence of (guard, element) pairs - iterating it runs
the loop body once per pair under the guard (assignments become ite, asserts become guarded obligations).
Python ints are modelled by 64-bit vectors; the side obligations `no_wrap` (every left shift amount is in
[0, 63) so 1 << k < 2^63, every right shift amount is in [0, 64)) make that model exact, and `fits_bigint`
says the stored value fits MySQL's signed BIGINT column.

Only the statement/expression forms that occur in the two functions are supported; anything else raises
HarnessError (exit 2), i.e. an edit that the translator does not understand is never silently accepted."""
import ast

import z3

from vt import loader
from vt.common import HarnessError

SRC = 'batch/batch/utils.py'
W = 64


def bv(v):
    return z3.BitVecVal(v, W)


class SymList:
    def __init__(self, items=None):
        self.items = list(items or [])      # [(guard: z3 Bool, element)]


class SymMapping:
    """region name (concrete) -> symbolic index; iteration order = list order."""

    def __init__(self, names, idxs):
        self.names = names
        self.idxs = idxs

    def lookup(self, region):
        if isinstance(region, str):
            return self.idxs[self.names.index(region)]
        # symbolic pick: region is a z3 BitVec holding a position in `names`
        e = self.idxs[-1]
        for j in range(len(self.names) - 2, -1, -1):
            e = z3.If(region == bv(j), self.idxs[j], e)
        return e


class Interp:
    def __init__(self):
        self.asserts = []       # (guard, cond, text): `assert` statements of the code
        self.no_wrap = []       # (guard, cond, text): conditions under which BV64 == Python int semantics
        self.raises = []        # (guard, cond, text): conditions that make Python raise (negative shift count)
        self.loops = []         # innermost-last loop frames: {'brk': condition under which the loop was left by `break`}
        self.returns = []       # (condition, value)

    # ---- expressions ---------------------------------------------------------------------------
    @staticmethod
    def _truth(v):
        if z3.is_bool(v):
            return v
        if isinstance(v, bool):
            return z3.BoolVal(v)
        if z3.is_bv(v):
            return v != bv(0)
        if v is None:
            return z3.BoolVal(False)
        raise HarnessError('truth value of a non-scalar')

    def _comp(self, gens, k, env, guard, emit):
        """Nested comprehension generators over guarded lists: calls emit(env, guard) once per element combination."""
        if k == len(gens):
            emit(env, guard)
            return
        gen = gens[k]
        if gen.is_async:
            raise HarnessError('async comprehension')
        seq = self.ev(gen.iter, env, guard)
        if not isinstance(seq, SymList):
            raise HarnessError(f'cannot iterate {ast.unparse(gen.iter)}')
        for g, el in seq.items:
            e2 = dict(env)
            if isinstance(gen.target, ast.Name):
                e2[gen.target.id] = el
            elif isinstance(gen.target, ast.Tuple) and all(isinstance(t, ast.Name) for t in gen.target.elts):
                for t, v in zip(gen.target.elts, el):
                    e2[t.id] = v
            else:
                raise HarnessError('untranslatable comprehension target')
            g2 = z3.And(guard, g) if not z3.is_true(g) else guard
            for cond in gen.ifs:
                g2 = z3.And(g2, self._truth(self.ev(cond, e2, g2)))
            self._comp(gens, k + 1, e2, g2, emit)

    @staticmethod
    def _same(a, b):
        """Equality of two list elements as a z3 Bool."""
        if isinstance(a, str) and isinstance(b, str):
            return z3.BoolVal(a == b)
        if z3.is_bv(a) and z3.is_bv(b):
            return a == b
        if (z3.is_bool(a) or isinstance(a, bool)) and (z3.is_bool(b) or isinstance(b, bool)):
            return a == b
        raise HarnessError('comparison of list elements of different kinds')

    def _dedup(self, lst):
        """set(lst): an element stays iff no earlier present element equals it (order of first occurrence)."""
        out = SymList()
        for i, (g, el) in enumerate(lst.items):
            dup = [z3.And(gj, self._same(ej, el)) for gj, ej in lst.items[:i]]
            out.items.append((z3.And(g, z3.Not(z3.Or(*dup))) if dup else g, el))
        return out

    def ev(self, n, env, guard):
        if isinstance(n, ast.Constant):
            if n.value is None or isinstance(n.value, bool):
                return n.value
            if isinstance(n.value, int):
                return bv(n.value)
            raise HarnessError(f'untranslatable constant {n.value!r}')
        if isinstance(n, ast.Name):
            if n.id not in env:
                raise HarnessError(f'unbound name {n.id}')
            return env[n.id]
        if isinstance(n, ast.List) and not n.elts:
            return SymList()
        if isinstance(n, ast.BinOp):
            a = self.ev(n.left, env, guard)
            b = self.ev(n.right, env, guard)
            if not (z3.is_bv(a) and z3.is_bv(b)):
                raise HarnessError(f'non-integer operands in {ast.unparse(n)}')
            if isinstance(n.op, ast.Sub):
                return a - b
            if isinstance(n.op, ast.Add):
                return a + b
            if isinstance(n.op, ast.BitAnd):
                return a & b
            if isinstance(n.op, ast.BitOr):
                return a | b
            if isinstance(n.op, ast.BitXor):
                return a ^ b
            if isinstance(n.op, ast.Mult):
                # exact while the mathematical product stays below 2^63 (checked as a side obligation)
                self.no_wrap.append((guard, z3.And(z3.BVMulNoOverflow(a, b, True), z3.BVMulNoUnderflow(a, b)),
                                     f'{ast.unparse(n)} may overflow 64 bits'))
                return a * b
            if isinstance(n.op, (ast.FloorDiv, ast.Mod)) and z3.is_bv_value(b) and b.as_signed_long() > 0:
                self.no_wrap.append((guard, a >= 0, f'{ast.unparse(n)} on a negative value'))
                return z3.UDiv(a, b) if isinstance(n.op, ast.FloorDiv) else z3.URem(a, b)
            if isinstance(n.op, ast.LShift):
                self.raises.append((guard, b < 0, f'negative shift count in {ast.unparse(n)}'))
                # a << b stays below 2^63 when a < 2^(63-b); the code only shifts the constant 1
                self.no_wrap.append((guard, z3.And(b >= 0, b < 63, z3.ULE(a, bv(1))), f'{ast.unparse(n)} may exceed 63 bits'))
                return a << b
            if isinstance(n.op, ast.RShift):
                self.raises.append((guard, b < 0, f'negative shift count in {ast.unparse(n)}'))
                self.no_wrap.append((guard, z3.And(b >= 0, b < 64, a >= 0), f'{ast.unparse(n)} outside the 64-bit model'))
                return z3.LShR(a, b)
            raise HarnessError(f'untranslatable operator in {ast.unparse(n)}')
        if isinstance(n, ast.Compare) and len(n.ops) == 1:
            a = self.ev(n.left, env, guard)
            b = self.ev(n.comparators[0], env, guard)
            op = n.ops[0]
            if isinstance(op, (ast.In, ast.NotIn)):
                if isinstance(b, SymMapping):
                    b = SymList([(z3.BoolVal(True), nm) for nm in b.names])
                if not isinstance(b, SymList):
                    raise HarnessError(f'untranslatable membership test {ast.unparse(n)}')
                r = z3.Or(z3.BoolVal(False), *[z3.And(g, self._same(el, a)) for g, el in b.items])
                return r if isinstance(op, ast.In) else z3.Not(r)
            if isinstance(op, (ast.Is, ast.IsNot)):
                if b is None:
                    return (a is None) == isinstance(op, ast.Is)
                raise HarnessError(f'untranslatable `is` in {ast.unparse(n)}')
            if z3.is_bv(a) and z3.is_bv(b):
                if isinstance(op, ast.Lt):
                    return a < b
                if isinstance(op, ast.LtE):
                    return a <= b
                if isinstance(op, ast.Gt):
                    return a > b
                if isinstance(op, ast.GtE):
                    return a >= b
                if isinstance(op, ast.Eq):
                    return a == b
                if isinstance(op, ast.NotEq):
                    return a != b
            raise HarnessError(f'untranslatable comparison {ast.unparse(n)}')
        if isinstance(n, (ast.ListComp, ast.GeneratorExp, ast.SetComp)):
            out = SymList()
            self._comp(n.generators, 0, dict(env), guard, lambda e2, g2: out.items.append((g2, self.ev(n.elt, e2, g2))))
            return self._dedup(out) if isinstance(n, ast.SetComp) else out
        if isinstance(n, ast.BoolOp):
            vals = [self._truth(self.ev(v, env, guard)) for v in n.values]
            return (z3.And if isinstance(n.op, ast.And) else z3.Or)(*vals)
        if isinstance(n, ast.UnaryOp):
            v = self.ev(n.operand, env, guard)
            if isinstance(n.op, ast.Not):
                return z3.Not(self._truth(v))
            if isinstance(n.op, ast.USub) and z3.is_bv(v):
                return -v
            if isinstance(n.op, ast.Invert) and z3.is_bv(v):
                return ~v
            raise HarnessError(f'untranslatable unary operator in {ast.unparse(n)}')
        if isinstance(n, ast.IfExp):
            c = self._truth(self.ev(n.test, env, guard))
            a = self.ev(n.body, env, guard)
            b = self.ev(n.orelse, env, guard)
            if (z3.is_bv(a) and z3.is_bv(b)) or (z3.is_bool(a) and z3.is_bool(b)):
                return z3.If(c, a, b)
            raise HarnessError(f'untranslatable conditional expression {ast.unparse(n)}')
        if isinstance(n, ast.Subscript):
            m = self.ev(n.value, env, guard)
            k = self.ev(n.slice, env, guard)
            if isinstance(m, SymMapping):
                return m.lookup(k)
            raise HarnessError(f'untranslatable subscript {ast.unparse(n)}')
        if isinstance(n, ast.Call):
            f = n.func
            if isinstance(f, ast.Name) and f.id == 'bool' and len(n.args) == 1:
                v = self.ev(n.args[0], env, guard)
                return v != bv(0) if z3.is_bv(v) else bool(v)
            if isinstance(f, ast.Name) and f.id == 'str':
                return '<str>'
            if isinstance(f, ast.Name) and f.id in ('sum', 'any', 'all', 'len', 'list', 'tuple', 'set', 'frozenset', 'sorted') \
                    and 1 <= len(n.args) <= 2 and not n.keywords:
                lst = self.ev(n.args[0], env, guard)
                if isinstance(lst, SymMapping):
                    lst = SymList([(z3.BoolVal(True), nm) for nm in lst.names])
                if isinstance(lst, SymList):
                    if f.id in ('list', 'tuple') and len(n.args) == 1:
                        return SymList(lst.items)
                    if f.id in ('set', 'frozenset') and len(n.args) == 1:
                        return self._dedup(lst)
                    if f.id == 'sorted' and len(n.args) == 1:
                        if all(isinstance(el, str) for _, el in lst.items):
                            return SymList(sorted(lst.items, key=lambda it: it[1]))
                        raise HarnessError('sorted() over symbolic integers is not supported')
                    if f.id == 'len' and len(n.args) == 1:
                        r = bv(0)
                        for g, _ in lst.items:
                            r = r + z3.If(g, bv(1), bv(0))
                        return r
                    if f.id in ('any', 'all') and len(n.args) == 1:
                        vals = [(g, self._truth(el)) for g, el in lst.items]
                        if f.id == 'any':
                            return z3.Or(z3.BoolVal(False), *[z3.And(g, v) for g, v in vals])
                        return z3.And(z3.BoolVal(True), *[z3.Implies(g, v) for g, v in vals])
                    if f.id == 'sum':
                        start = self.ev(n.args[1], env, guard) if len(n.args) == 2 else bv(0)
                        if not z3.is_bv(start) or not all(z3.is_bv(el) for _, el in lst.items):
                            raise HarnessError(f'sum of non-integers in {ast.unparse(n)}')
                        # Python ints do not wrap: add in 80 bits and require the total to fit the signed 64-bit model
                        wide = z3.SignExt(16, start)
                        for g, el in lst.items:
                            wide = wide + z3.If(g, z3.SignExt(16, el), z3.BitVecVal(0, W + 16))
                        r = z3.Extract(W - 1, 0, wide)
                        self.no_wrap.append((guard, z3.SignExt(16, r) == wide, f'{ast.unparse(n)} exceeds 64 bits'))
                        return r
            if isinstance(f, ast.Attribute) and f.attr == 'bit_length' and not n.args:
                v = self.ev(f.value, env, guard)
                if not z3.is_bv(v):
                    raise HarnessError(f'bit_length of a non-integer in {ast.unparse(n)}')
                self.no_wrap.append((guard, v >= 0, f'{ast.unparse(n)} of a negative value'))
                r = bv(0)
                for k in range(W):                      # the highest set bit wins
                    r = z3.If(z3.Extract(k, k, v) == 1, bv(k + 1), r)
                return r
            if isinstance(f, ast.Name) and f.id == 'range' and 1 <= len(n.args) <= 3:
                a = [self.ev(x, env, guard) for x in n.args]
                if not all(z3.is_bv_value(x) for x in a):
                    raise HarnessError(f'range with symbolic bounds in {ast.unparse(n)}')
                return SymList([(z3.BoolVal(True), bv(i)) for i in range(*[x.as_signed_long() for x in a])])
            if isinstance(f, ast.Name) and f.id == 'int' and len(n.args) == 1:
                v = self.ev(n.args[0], env, guard)
                if z3.is_bv(v):
                    return v
                if z3.is_bool(v):
                    return z3.If(v, bv(1), bv(0))
                if isinstance(v, bool):
                    return bv(int(v))
            if isinstance(f, ast.Name) and f.id in ('min', 'max') and len(n.args) == 2:
                a, b = (self.ev(x, env, guard) for x in n.args)
                if z3.is_bv(a) and z3.is_bv(b):
                    return z3.If((a < b) if f.id == 'min' else (a > b), a, b)
            if isinstance(f, ast.Attribute) and f.attr in ('keys', 'values') and not n.args:
                m = self.ev(f.value, env, guard)
                if isinstance(m, SymMapping):
                    return SymList([(z3.BoolVal(True), x) for x in (m.names if f.attr == 'keys' else m.idxs)])
            if isinstance(f, ast.Attribute) and f.attr == 'items' and not n.args:
                m = self.ev(f.value, env, guard)
                if isinstance(m, SymMapping):
                    return SymList([(z3.BoolVal(True), (name, idx)) for name, idx in zip(m.names, m.idxs)])
            raise HarnessError(f'untranslatable call {ast.unparse(n)}')
        raise HarnessError(f'untranslatable expression {ast.unparse(n)}')

    # ---- statements ----------------------------------------------------------------------------
    def assign(self, env, name, val, guard):
        old = env.get(name)
        if not z3.is_true(guard):
            if z3.is_bv(val) and z3.is_bv(old):
                val = z3.If(guard, val, old)
            elif (z3.is_bool(val) or isinstance(val, bool)) and (z3.is_bool(old) or isinstance(old, bool)):
                val = z3.If(guard, val, old)
            elif old is not None and val is not old:
                raise HarnessError(f'conditional assignment of a non-scalar to {name}')
        env[name] = val

    def run(self, body, env, live):
        """Executes `body` under the path condition `live` (z3 Bool).  Returns the condition under which control
        reaches the end of the block.  `break` / `continue` move their condition into the innermost loop frame;
        `return` records (condition, value) in self.returns."""
        for st in body:
            live = z3.simplify(live) if z3.is_expr(live) else z3.BoolVal(bool(live))
            if z3.is_false(live):
                break
            if isinstance(st, ast.Expr) and isinstance(st.value, ast.Constant):
                continue
            if isinstance(st, ast.Pass):
                continue
            if isinstance(st, (ast.Assign, ast.AnnAssign)) and isinstance(getattr(st, 'target', None) or st.targets[0], ast.Name) \
                    and (isinstance(st, ast.AnnAssign) or len(st.targets) == 1):
                tgt = st.target if isinstance(st, ast.AnnAssign) else st.targets[0]
                if st.value is not None:
                    self.assign(env, tgt.id, self.ev(st.value, env, live), live)
            elif isinstance(st, ast.AugAssign) and isinstance(st.target, ast.Name):
                cur = ast.BinOp(left=ast.Name(id=st.target.id, ctx=ast.Load()), op=st.op, right=st.value)
                self.assign(env, st.target.id, self.ev(ast.copy_location(cur, st), env, live), live)
            elif isinstance(st, ast.Assert):
                c = self.ev(st.test, env, live)
                self.asserts.append((live, c, ast.unparse(st.test)))
                if not isinstance(c, bool):
                    live = z3.And(live, c)
            elif isinstance(st, ast.For) and not st.orelse:
                seq = self.ev(st.iter, env, live)
                if not isinstance(seq, SymList):
                    raise HarnessError(f'cannot iterate {ast.unparse(st.iter)}')
                frame = {'brk': z3.BoolVal(False)}
                self.loops.append(frame)
                for g, el in list(seq.items):
                    if isinstance(st.target, ast.Name):
                        env[st.target.id] = el
                    elif isinstance(st.target, ast.Tuple) and all(isinstance(t, ast.Name) for t in st.target.elts):
                        for t, v in zip(st.target.elts, el):
                            env[t.id] = v
                    else:
                        raise HarnessError('untranslatable loop target')
                    frame['cont'] = z3.BoolVal(False)
                    self.run(st.body, env, z3.And(live, z3.Not(frame['brk']), g))
                self.loops.pop()
            elif isinstance(st, ast.If):
                c = self.ev(st.test, env, live)
                if isinstance(c, SymList):
                    raise HarnessError('truth value of a symbolic list')
                if z3.is_bv(c):
                    c = c != bv(0)
                if isinstance(c, bool) or c is None:
                    live = self.run(st.body if c else st.orelse, env, live)
                else:
                    a = self.run(st.body, env, z3.And(live, c))
                    b = self.run(st.orelse, env, z3.And(live, z3.Not(c)))
                    live = z3.Or(a, b)
            elif (isinstance(st, ast.Expr) and isinstance(st.value, ast.Call) and isinstance(st.value.func, ast.Attribute)
                  and st.value.func.attr == 'append' and isinstance(st.value.func.value, ast.Name)):
                lst = env[st.value.func.value.id]
                if not isinstance(lst, SymList):
                    raise HarnessError('append on a non-list')
                lst.items.append((live, self.ev(st.value.args[0], env, live)))
            elif isinstance(st, ast.Break):
                if not self.loops:
                    raise HarnessError('break outside a loop')
                self.loops[-1]['brk'] = z3.Or(self.loops[-1]['brk'], live)
                live = z3.BoolVal(False)
            elif isinstance(st, ast.Continue):
                if not self.loops:
                    raise HarnessError('continue outside a loop')
                live = z3.BoolVal(False)
            elif isinstance(st, ast.Return):
                if self.loops:
                    raise HarnessError('return inside a loop not supported')
                self.returns.append((live, self.ev(st.value, env, live) if st.value is not None else None))
                live = z3.BoolVal(False)
            else:
                raise HarnessError(f'untranslatable statement {ast.unparse(st)[:80]}')
        return live


def load(name):
    text = loader.read(SRC)
    node = None
    for n in ast.parse(text).body:          # the last definition wins (the @overload stubs come first)
        if isinstance(n, ast.FunctionDef) and n.name == name:
            node = n
    if node is None:
        raise HarnessError(f'{name} not found in {SRC}')
    return node, ast.get_source_segment(text, node)


def call(interp, node, args):
    """Run a function body; returns its value.  Several `return`s are merged with ite when the values are bit-vectors
    or booleans; otherwise exactly one return may be reachable."""
    env = {a.arg: v for a, v in zip(node.args.args, args)}
    interp.loops, interp.returns = [], []
    interp.run(node.body, env, z3.BoolVal(True))
    rets = [(g, v) for g, v in interp.returns if not z3.is_false(z3.simplify(g))]
    interp.returns = []
    if not rets:
        return None
    if len(rets) == 1:
        return rets[0][1]
    val = rets[-1][1]
    for g, v in reversed(rets[:-1]):
        if not ((z3.is_bv(v) and z3.is_bv(val)) or (z3.is_bool(v) and z3.is_bool(val))):
            raise HarnessError('returns of different non-scalar values on symbolic conditions')
        val = z3.If(g, v, val)
    return val


# ------------------------------------------------------------------------------------------------
# the round-trip query, built per (N, picks) and decided per goal in worker processes
# ------------------------------------------------------------------------------------------------
class Problem:
    """N region names r0..r(N-1); idx_j = ZeroExt(58, 6-bit symbolic) != 0, pairwise distinct (every injective map into
    1..63).  picks is None: the selected list is the sub-list of the names chosen by N symbolic bits (mapping order);
    picks = k: the selected list is an arbitrary sequence of k symbolic positions (duplicates, any order)."""

    def __init__(self, n, picks=None):
        self.n = n
        self.picks = picks
        self.names = [f'r{j}' for j in range(n)]
        self.small = [z3.BitVec(f'idx{j}', 6) for j in range(n)]
        self.idxs = [z3.ZeroExt(W - 6, s) for s in self.small]
        self.pre = [s != 0 for s in self.small] + [z3.Distinct(*self.small)]
        mapping = SymMapping(self.names, self.idxs)
        if picks is None:
            self.sel = [z3.Bool(f'sel{j}') for j in range(n)]
            selected = SymList([(self.sel[j], self.names[j]) for j in range(n)])
            self.want = self.sel
        else:
            self.pk = [z3.BitVec(f'pick{i}', W) for i in range(picks)]
            self.pre += [z3.And(p >= 0, p < n) for p in self.pk]
            selected = SymList([(z3.BoolVal(True), p) for p in self.pk])
            self.want = [z3.Or(*[p == j for p in self.pk]) for j in range(n)]
        enc_node, _ = load('regions_to_bits_rep')
        dec_node, _ = load('regions_bits_rep_to_regions')
        it = Interp()
        self.bits = call(it, enc_node, [selected, mapping])
        if not z3.is_bv(self.bits):
            raise HarnessError('regions_to_bits_rep did not translate to a bit-vector')
        back = call(it, dec_node, [self.bits, mapping])
        if not isinstance(back, SymList):
            raise HarnessError('regions_bits_rep_to_regions did not translate to a list')
        self.got = {nm: z3.BoolVal(False) for nm in self.names}
        count = {nm: 0 for nm in self.names}
        for g, el in back.items:
            if not isinstance(el, str):
                raise HarnessError('decoder appends something that is not a region name')
            self.got[el] = z3.Or(self.got[el], g)
            count[el] += 1
        if any(c > 1 for c in count.values()):
            raise HarnessError('decoder may append a region twice')
        true = z3.BoolVal(True)
        self.goals = {f'region r{j} decoded iff selected': self.got[nm] == self.want[j] for j, nm in enumerate(self.names)}
        self.goals.update({
            'asserts of the code hold': z3.And(true, *[z3.Implies(g, c) for g, c, _ in it.asserts]),
            'no negative shift count (Python would raise)': z3.And(true, *[z3.Implies(g, z3.Not(c)) for g, c, _ in it.raises]),
            'BitVec-64 model is exact (shifts stay in range)': z3.And(true, *[z3.Implies(g, c) for g, c, _ in it.no_wrap]),
            'stored value fits signed BIGINT': self.bits >= 0,
        })
        self.n_asserts = len(it.asserts)

    def concretise(self, m):
        ci = [m.eval(i, model_completion=True).as_long() for i in self.idxs]
        if self.picks is None:
            sel = [self.names[j] for j in range(self.n) if z3.is_true(m.eval(self.sel[j], model_completion=True))]
        else:
            sel = [self.names[m.eval(p, model_completion=True).as_signed_long()] for p in self.pk]
        return ci, sel


def solve_goals(args):
    """Worker: (n, picks, [goal names], timeout_ms) -> [(goal, result, secs, (idxs, selected) | None)]."""
    import time
    n, picks, keys, timeout_ms = args
    p = Problem(n, picks)
    out = []
    for k in keys:
        s = z3.Solver()
        s.set('timeout', timeout_ms)
        s.add(*p.pre)
        s.add(z3.Not(p.goals[k]))
        t = time.time()
        r = str(s.check())
        out.append((k, r, time.time() - t, p.concretise(s.model()) if r == 'sat' else None))
    return out
