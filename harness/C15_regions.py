"""E3 kernel for C15: regions_to_bits_rep / regions_bits_rep_to_regions translated from their AST (parsed from
/repo at run time) to z3 terms over (_ BitVec 64).

Symbolic model: N region names (concrete distinct strings r0..r(N-1)); `all_regions_mapping` maps region j to a
symbolic index idx_j (BitVec 64); a symbolic list is a sequence of (guard, element) pairs - iterating it runs
the loop body once per pair under the guard (assignments become ite, asserts become guarded obligations).
Python ints are modelled by 64-bit vectors; the side obligations `no_wrap` (every left shift amount is in
[0, 63) so 1 << k < 2^63, every right shift amount is in [0, 64)) make that model exact, and `fits_bigint`
says the stored value fits MySQL's signed BIGINT column.

Only the statement/expression forms that occur in the two functions are supported; anything else raises
HarnessError (exit 2), i.e. an edit that the translator does not understand is never silently accepted."""
import ast

import z3

from vt import loader
from vt.common import HarnessError

SRC = 'batch/batch/utils.py'
W = 64


def bv(v):
    return z3.BitVecVal(v, W)


class SymList:
    def __init__(self, items=None):
        self.items = list(items or [])      # [(guard: z3 Bool, element)]


class SymMapping:
    """region name (concrete) -> symbolic index; iteration order = list order."""

    def __init__(self, names, idxs):
        self.names = names
        self.idxs = idxs

    def lookup(self, region):
        if isinstance(region, str):
            return self.idxs[self.names.index(region)]
        # symbolic pick: region is a z3 BitVec holding a position in `names`
        e = self.idxs[-1]
        for j in range(len(self.names) - 2, -1, -1):
            e = z3.If(region == bv(j), self.idxs[j], e)
        return e


class Interp:
    def __init__(self):
        self.asserts = []       # (guard, cond, text): `assert` statements of the code
        self.no_wrap = []       # (guard, cond, text): conditions under which BV64 == Python int semantics
        self.raises = []        # (guard, cond, text): conditions that make Python raise (negative shift count)

    # ---- expressions ---------------------------------------------------------------------------
    def ev(self, n, env, guard):
        if isinstance(n, ast.Constant):
            if n.value is None or isinstance(n.value, bool):
                return n.value
            if isinstance(n.value, int):
                return bv(n.value)
            raise HarnessError(f'untranslatable constant {n.value!r}')
        if isinstance(n, ast.Name):
            if n.id not in env:
                raise HarnessError(f'unbound name {n.id}')
            return env[n.id]
        if isinstance(n, ast.List) and not n.elts:
            return SymList()
        if isinstance(n, ast.BinOp):
            a = self.ev(n.left, env, guard)
            b = self.ev(n.right, env, guard)
            if not (z3.is_bv(a) and z3.is_bv(b)):
                raise HarnessError(f'non-integer operands in {ast.unparse(n)}')
            if isinstance(n.op, ast.Sub):
                return a - b
            if isinstance(n.op, ast.Add):
                return a + b
            if isinstance(n.op, ast.BitAnd):
                return a & b
            if isinstance(n.op, ast.BitOr):
                return a | b
            if isinstance(n.op, ast.LShift):
                self.raises.append((guard, b < 0, f'negative shift count in {ast.unparse(n)}'))
                # a << b stays below 2^63 when a < 2^(63-b); the code only shifts the constant 1
                self.no_wrap.append((guard, z3.And(b >= 0, b < 63, z3.ULE(a, bv(1))), f'{ast.unparse(n)} may exceed 63 bits'))
                return a << b
            if isinstance(n.op, ast.RShift):
                self.raises.append((guard, b < 0, f'negative shift count in {ast.unparse(n)}'))
                self.no_wrap.append((guard, z3.And(b >= 0, b < 64, a >= 0), f'{ast.unparse(n)} outside the 64-bit model'))
                return z3.LShR(a, b)
            raise HarnessError(f'untranslatable operator in {ast.unparse(n)}')
        if isinstance(n, ast.Compare) and len(n.ops) == 1:
            a = self.ev(n.left, env, guard)
            b = self.ev(n.comparators[0], env, guard)
            op = n.ops[0]
            if isinstance(op, ast.Is):
                if b is None:
                    return a is None
                raise HarnessError(f'untranslatable `is` in {ast.unparse(n)}')
            if z3.is_bv(a) and z3.is_bv(b):
                if isinstance(op, ast.Lt):
                    return a < b
                if isinstance(op, ast.LtE):
                    return a <= b
                if isinstance(op, ast.Gt):
                    return a > b
                if isinstance(op, ast.GtE):
                    return a >= b
                if isinstance(op, ast.Eq):
                    return a == b
            raise HarnessError(f'untranslatable comparison {ast.unparse(n)}')
        if isinstance(n, ast.Subscript):
            m = self.ev(n.value, env, guard)
            k = self.ev(n.slice, env, guard)
            if isinstance(m, SymMapping):
                return m.lookup(k)
            raise HarnessError(f'untranslatable subscript {ast.unparse(n)}')
        if isinstance(n, ast.Call):
            f = n.func
            if isinstance(f, ast.Name) and f.id == 'bool' and len(n.args) == 1:
                v = self.ev(n.args[0], env, guard)
                return v != bv(0) if z3.is_bv(v) else bool(v)
            if isinstance(f, ast.Name) and f.id == 'str':
                return '<str>'
            if isinstance(f, ast.Attribute) and f.attr == 'items' and not n.args:
                m = self.ev(f.value, env, guard)
                if isinstance(m, SymMapping):
                    return SymList([(z3.BoolVal(True), (name, idx)) for name, idx in zip(m.names, m.idxs)])
            raise HarnessError(f'untranslatable call {ast.unparse(n)}')
        raise HarnessError(f'untranslatable expression {ast.unparse(n)}')

    # ---- statements ----------------------------------------------------------------------------
    def assign(self, env, name, val, guard):
        old = env.get(name)
        if z3.is_bv(val) and z3.is_bv(old) and not z3.is_true(guard):
            val = z3.If(guard, val, old)
        elif z3.is_bool(val) and z3.is_bool(old) and not z3.is_true(guard):
            val = z3.If(guard, val, old)
        env[name] = val

    def run(self, body, env, guard):
        """Returns the returned value (functions here return once, at the end or in a leading `if ... is None`)."""
        for st in body:
            if isinstance(st, ast.Expr) and isinstance(st.value, ast.Constant):
                continue
            if isinstance(st, ast.Assign) and len(st.targets) == 1 and isinstance(st.targets[0], ast.Name):
                self.assign(env, st.targets[0].id, self.ev(st.value, env, guard), guard)
            elif isinstance(st, ast.AugAssign) and isinstance(st.target, ast.Name):
                cur = ast.BinOp(left=ast.Name(id=st.target.id, ctx=ast.Load()), op=st.op, right=st.value)
                self.assign(env, st.target.id, self.ev(ast.copy_location(cur, st), env, guard), guard)
            elif isinstance(st, ast.Assert):
                c = self.ev(st.test, env, guard)
                self.asserts.append((guard, c, ast.unparse(st.test)))
                guard = z3.And(guard, c) if not isinstance(c, bool) else guard
            elif isinstance(st, ast.For) and not st.orelse:
                seq = self.ev(st.iter, env, guard)
                if not isinstance(seq, SymList):
                    raise HarnessError(f'cannot iterate {ast.unparse(st.iter)}')
                for g, el in seq.items:
                    if isinstance(st.target, ast.Name):
                        env[st.target.id] = el
                    elif isinstance(st.target, ast.Tuple) and all(isinstance(t, ast.Name) for t in st.target.elts):
                        for t, v in zip(st.target.elts, el):
                            env[t.id] = v
                    else:
                        raise HarnessError('untranslatable loop target')
                    r = self.run(st.body, env, z3.And(guard, g))
                    if r is not None:
                        raise HarnessError('return inside loop not supported')
            elif isinstance(st, ast.If) and not st.orelse:
                c = self.ev(st.test, env, guard)
                if isinstance(c, bool):
                    if c:
                        r = self.run(st.body, env, guard)
                        if r is not None:
                            return r
                else:
                    r = self.run(st.body, env, z3.And(guard, c))
                    if r is not None:
                        raise HarnessError('conditional return on a symbolic condition not supported')
            elif (isinstance(st, ast.Expr) and isinstance(st.value, ast.Call) and isinstance(st.value.func, ast.Attribute)
                  and st.value.func.attr == 'append' and isinstance(st.value.func.value, ast.Name)):
                lst = env[st.value.func.value.id]
                if not isinstance(lst, SymList):
                    raise HarnessError('append on a non-list')
                lst.items.append((guard, self.ev(st.value.args[0], env, guard)))
            elif isinstance(st, ast.Return):
                return ('ret', self.ev(st.value, env, guard) if st.value is not None else None)
            else:
                raise HarnessError(f'untranslatable statement {ast.unparse(st)[:80]}')
        return None


def load(name):
    text = loader.read(SRC)
    node = None
    for n in ast.parse(text).body:          # the last definition wins (the @overload stubs come first)
        if isinstance(n, ast.FunctionDef) and n.name == name:
            node = n
    if node is None:
        raise HarnessError(f'{name} not found in {SRC}')
    return node, ast.get_source_segment(text, node)


def call(interp, node, args):
    env = {a.arg: v for a, v in zip(node.args.args, args)}
    r = interp.run(node.body, env, z3.BoolVal(True))
    if r is None:
        return None
    return r[1]


# ------------------------------------------------------------------------------------------------
# the round-trip query, built per (N, picks) and decided per goal in worker processes
# ------------------------------------------------------------------------------------------------
class Problem:
    """N region names r0..r(N-1); idx_j = ZeroExt(58, 6-bit symbolic) != 0, pairwise distinct (every injective map into
    1..63).  picks is None: the selected list is the sub-list of the names chosen by N symbolic bits (mapping order);
    picks = k: the selected list is an arbitrary sequence of k symbolic positions (duplicates, any order)."""

    def __init__(self, n, picks=None):
        self.n = n
        self.picks = picks
        self.names = [f'r{j}' for j in range(n)]
        self.small = [z3.BitVec(f'idx{j}', 6) for j in range(n)]
        self.idxs = [z3.ZeroExt(W - 6, s) for s in self.small]
        self.pre = [s != 0 for s in self.small] + [z3.Distinct(*self.small)]
        mapping = SymMapping(self.names, self.idxs)
        if picks is None:
            self.sel = [z3.Bool(f'sel{j}') for j in range(n)]
            selected = SymList([(self.sel[j], self.names[j]) for j in range(n)])
            self.want = self.sel
        else:
            self.pk = [z3.BitVec(f'pick{i}', W) for i in range(picks)]
            self.pre += [z3.And(p >= 0, p < n) for p in self.pk]
            selected = SymList([(z3.BoolVal(True), p) for p in self.pk])
            self.want = [z3.Or(*[p == j for p in self.pk]) for j in range(n)]
        enc_node, _ = load('regions_to_bits_rep')
        dec_node, _ = load('regions_bits_rep_to_regions')
        it = Interp()
        self.bits = call(it, enc_node, [selected, mapping])
        if not z3.is_bv(self.bits):
            raise HarnessError('regions_to_bits_rep did not translate to a bit-vector')
        back = call(it, dec_node, [self.bits, mapping])
        if not isinstance(back, SymList):
            raise HarnessError('regions_bits_rep_to_regions did not translate to a list')
        self.got = {nm: z3.BoolVal(False) for nm in self.names}
        count = {nm: 0 for nm in self.names}
        for g, el in back.items:
            if not isinstance(el, str):
                raise HarnessError('decoder appends something that is not a region name')
            self.got[el] = z3.Or(self.got[el], g)
            count[el] += 1
        if any(c > 1 for c in count.values()):
            raise HarnessError('decoder may append a region twice')
        true = z3.BoolVal(True)
        self.goals = {f'region r{j} decoded iff selected': self.got[nm] == self.want[j] for j, nm in enumerate(self.names)}
        self.goals.update({
            'asserts of the code hold': z3.And(true, *[z3.Implies(g, c) for g, c, _ in it.asserts]),
            'no negative shift count (Python would raise)': z3.And(true, *[z3.Implies(g, z3.Not(c)) for g, c, _ in it.raises]),
            'BitVec-64 model is exact (shifts stay in range)': z3.And(true, *[z3.Implies(g, c) for g, c, _ in it.no_wrap]),
            'stored value fits signed BIGINT': self.bits >= 0,
        })
        self.n_asserts = len(it.asserts)

    def concretise(self, m):
        ci = [m.eval(i, model_completion=True).as_long() for i in self.idxs]
        if self.picks is None:
            sel = [self.names[j] for j in range(self.n) if z3.is_true(m.eval(self.sel[j], model_completion=True))]
        else:
            sel = [self.names[m.eval(p, model_completion=True).as_signed_long()] for p in self.pk]
        return ci, sel


def solve_goals(args):
    """Worker: (n, picks, [goal names], timeout_ms) -> [(goal, result, secs, (idxs, selected) | None)]."""
    import time
    n, picks, keys, timeout_ms = args
    p = Problem(n, picks)
    out = []
    for k in keys:
        s = z3.Solver()
        s.set('timeout', timeout_ms)
        s.add(*p.pre)
        s.add(z3.Not(p.goals[k]))
        t = time.time()
        r = str(s.check())
        out.append((k, r, time.time() - t, p.concretise(s.model()) if r == 'sat' else None))
    return out
