"""CrossHair harness for C32: the REAL HailType._convert_to_json_na / _convert_from_json_na on values built
from symbolic scalars, for a catalogue of Hail types to depth 2.

Symbolic scalars of one condition (a pool; positions of a value draw from it in order and wrap around, so distant
positions may share a variable): i0,i1 64-bit ints, j0,j1 32-bit ints, p0 locus position, f0,f1 floats (CrossHair
reals) with g0,g1 selecting real / NaN / +inf / -inf, s0,s1 string choice (3 fixed strings: they pass through the
conversion untouched and only matter as dict keys / set members), c0 call shape (10 fixed calls covering ploidy 0..2, phasing, allele order; str()/int() of a
symbolic integer is intractable for CrossHair; a0,a1 unused), q0 the permutation of struct VALUE fields relative
to the type, b0,b1 booleans (phasing, contig,
interval bounds), m0..m2 missingness flags, n0,n1 collection lengths 0..2 (n1 <= 1 in the quick tier).
ndarrays need real numpy (C level): the symbolic part is the choice among concrete arrays (C and F order).

The JSON *text* step (json.dumps / json.loads are C functions) is replaced by `wire`, a pure-Python
normaliser with the same observable effect on the converted value: tuples become lists, only JSON types with
str keys are allowed, non-finite floats are rejected (they would be emitted as the non-JSON tokens NaN/Infinity).
"""
import math
from collections.abc import Mapping

import numpy as np

from harness import C31_peg

_m = C31_peg.install()
T = _m.T

from hail.genetics import Call, Locus  # noqa: E402
from hail.genetics.reference_genome import ReferenceGenome  # noqa: E402
from hail.utils import Interval, Struct  # noqa: E402
from hailtop.frozendict import frozendict  # noqa: E402
from hailtop.hail_frozenlist import frozenlist  # noqa: E402



def _type_hash(self):
    """stub for HailType.__hash__ (43 + hash(str(self))): CrossHair makes hash(str) a symbolic integer, which the real
    code then trips over (`element_type in _numeric_types`); a deterministic checksum of the same string keeps the
    hash/eq contract"""
    h = 43
    for ch in str(self):
        h = (h * 31 + ord(ch)) % (2 ** 61 - 1)
    return h


T.HailType.__hash__ = _type_hash

try:
    RG = _m.J.Env.backend().get_reference('C32rg')
except KeyError:
    RG = ReferenceGenome('C32rg', ['1', 'X'], {'1': 1000, 'X': 500})

STRS = ['', 'nan', 'é\n"b c']
CALLS = [((), False), ((), True), ((0,), False), ((999,), True), ((0, 1), False), ((1, 0), True), ((999, 999), False), ((2, 10), True),
         ((999,), False), ((10,), True)]
CALLS_OVERRIDE = None     # C33 uses a longer list reaching the allele_pair_sqrt branch of the binary decoder
ALLELES = [0, 1, 999]     # str()/int() of symbolic integers is intractable for CrossHair: alleles are chosen, not symbolic
NDARRAYS = {
    'int32': [np.array([], dtype=np.int32), np.array([1, -2, 3], dtype=np.int32),
              np.array([[1, 2, 3], [4, 5, 6]], dtype=np.int32), np.asfortranarray(np.array([[1, 2, 3], [4, 5, 6]], dtype=np.int32)),
              np.array([[1, 2], [3, 4]], dtype=np.int32).T, np.zeros((0, 2), dtype=np.int32)],
    'int64': [np.array([2 ** 40, -1], dtype=np.int64), np.asfortranarray(np.array([[1, 2], [3, 4]], dtype=np.int64))],
    'float32': [np.array([1.5, -0.0], dtype=np.float32), np.asfortranarray(np.array([[1.5, 2.5], [3.5, 4.5]], dtype=np.float32))],
    'float64': [np.array([0.1, 1e300], dtype=np.float64), np.asfortranarray(np.array([[0.1, 0.2, 0.3], [0.4, 0.5, 0.6]])),
                np.array([[[1.0, 2.0], [3.0, 4.0]], [[5.0, 6.0], [7.0, 8.0]]]).transpose(2, 0, 1)],
}


PERMS = {2: [[0, 1], [1, 0]], 3: [[0, 1, 2], [1, 0, 2], [0, 2, 1], [2, 1, 0], [1, 2, 0], [2, 0, 1]]}
FLOAT_HOOK = None      # C33 replaces float values by opaque bit patterns


class Pool:
    """cursor over the symbolic scalars of one condition"""

    def __init__(self, ints, floats, ks, bools, miss, lens, dict_missing=False):
        self.dict_missing = dict_missing
        # ints = [i0, i1 (64-bit), j0, j1 (32-bit), p0 (1..500)];  ks = [g0, g1 (float kind), s0, s1 (string), c0 (ploidy), a0, a1 (allele)]
        self.v = {'i': ints[0:2], 'j': ints[2:4], 'p': ints[4:5], 'f': floats, 'g': ks[0:2], 's': ks[2:4], 'c': ks[4:5],
                  'a': ks[5:7], 'q': ks[7:8], 'b': bools, 'm': miss, 'n': lens}
        self.c = {k: 0 for k in self.v}

    def nx(self, k):
        xs = self.v[k]
        x = xs[self.c[k] % len(xs)]
        self.c[k] += 1
        return x


def mk(t, P, allow_missing=True):
    """a value of type t from the pool (None = missing)"""
    if allow_missing and P.nx('m'):
        return None
    if t == T.tint32:
        return P.nx('j')
    if t == T.tint64:
        return P.nx('i')
    if t == T.tfloat32 or t == T.tfloat64:
        if FLOAT_HOOK is not None:
            return FLOAT_HOOK(t, P)
        k = P.nx('g')
        if k == 1:
            return float('nan')
        if k == 2:
            return float('inf')
        if k == 3:
            return float('-inf')
        return P.nx('f')
    if t == T.tstr:
        return STRS[P.nx('s')]
    if t == T.tbool:
        return P.nx('b')
    if t == T.tcall:
        # one symbolic selector for all call positions of a value (k-th position is rotated by 3k): 10 shapes covering every
        # ploidy / phasing and allele order; per-position independent selectors made call composites explode (3888 paths)
        k = P.c['c']
        calls = CALLS_OVERRIDE or CALLS
        al, ph = calls[(P.nx('c') + 3 * k) % len(calls)]
        return Call(list(al), phased=ph)
    if isinstance(t, T.tlocus):
        return Locus('X' if P.nx('b') else '1', P.nx('p'), RG)
    if isinstance(t, T.tarray):
        return [mk(t.element_type, P) for _ in range(P.nx('n'))]
    if isinstance(t, T.tset):
        return {freeze(mk(t.element_type, P)) for _ in range(P.nx('n'))}
    if isinstance(t, T.tdict):
        return {freeze(mk(t.key_type, P, allow_missing=False)): mk(t.value_type, P, allow_missing=P.dict_missing)
                for _ in range(P.nx('n'))}
    if isinstance(t, T.tstruct):
        # the VALUE's field order is a symbolic permutation of the type's (Struct.__eq__ and typecheck ignore order)
        vals = [(f, mk(ft, P)) for f, ft in t.items()]
        perms = PERMS[len(vals)] if len(vals) in PERMS else [list(range(len(vals)))]
        order = perms[P.nx('q') % len(perms)] if len(perms) > 1 else perms[0]
        return Struct(**{vals[i][0]: vals[i][1] for i in order})
    if isinstance(t, T.ttuple):
        return tuple(mk(x, P) for x in t.types)
    if isinstance(t, T.tinterval):
        return Interval(mk(t.point_type, P), mk(t.point_type, P), P.nx('b'), P.nx('b'), point_type=t.point_type)
    if isinstance(t, T.tndarray):
        xs = NDARRAYS[str(t.element_type)]
        xs = [x for x in xs if x.ndim == t.ndim]
        return xs[(P.nx('g') + 4 * P.nx('s')) % len(xs)]
    raise TypeError(f'harness cannot build values of {t}')


def freeze(v):
    """hashable form of a value (what Hail itself uses for set members and dict keys)"""
    if isinstance(v, list):
        return frozenlist([freeze(x) for x in v])
    if isinstance(v, set):
        return frozenset(freeze(x) for x in v)
    if isinstance(v, dict) and not isinstance(v, frozendict):
        return frozendict({k: freeze(x) for k, x in v.items()})
    return v


def wire(x):
    """what json.loads(json.dumps(x)) gives for the converted value, in pure Python; raises if x is not JSON"""
    if x is None or isinstance(x, (bool, str)):
        return x
    if isinstance(x, int):
        return x
    if isinstance(x, float):
        if x != x or x == float('inf') or x == float('-inf'):
            raise ValueError('non-finite float reaches the JSON text')
        return x
    if isinstance(x, (list, tuple)):
        return [wire(e) for e in x]
    if isinstance(x, dict):
        out = {}
        for k, v in x.items():
            if not isinstance(k, str):
                raise ValueError('non-string JSON object key')
            out[k] = wire(v)
        return out
    raise ValueError(f'not a JSON value: {type(x).__name__}')


def feq(a, b):
    if a != a:
        return b != b
    return a == b


def eq(t, a, b):
    """equality of two values of type t with NaN == NaN and missing == missing"""
    if a is None or b is None:
        return a is None and b is None
    if a is b and not isinstance(a, (list, set, dict, tuple)):
        return True                 # the very same (well-typed by construction) object came back
    if not hasattr(b, 'pattern'):
        t._typecheck_one_level(b)       # the type's own (one-level, None-safe) check of the value that came back
    if t == T.tfloat32 or t == T.tfloat64:
        if hasattr(a, 'pattern'):
            return hasattr(b, 'pattern') and a.width == b.width and a.pattern == b.pattern
        return isinstance(b, float) and feq(a, b)
    if t == T.tbool:
        return isinstance(b, bool) and a == b
    if t == T.tint32 or t == T.tint64:
        return isinstance(b, int) and not isinstance(b, bool) and a == b
    if t == T.tstr:
        return isinstance(b, str) and a == b
    if t == T.tcall:
        return isinstance(b, Call) and a.phased == b.phased and list(a.alleles) == list(b.alleles)
    if isinstance(t, T.tlocus):
        return isinstance(b, Locus) and a == b
    if isinstance(t, T.tarray):
        return len(a) == len(b) and all(eq(t.element_type, x, y) for x, y in zip(a, b))
    if isinstance(t, T.tset):
        return isinstance(b, (set, frozenset)) and _match(list(a), list(b), lambda x, y: eq(t.element_type, x, y))
    if isinstance(t, T.tdict):
        return isinstance(b, Mapping) and _match(list(a.items()), list(b.items()), lambda x, y: eq(
            t.key_type, x[0], y[0]) and eq(t.value_type, x[1], y[1]))
    if isinstance(t, T.tstruct):
        return isinstance(b, Struct) and list(b.keys()) == list(t.keys()) and all(eq(ft, a[f], b[f]) for f, ft in t.items())
    if isinstance(t, T.ttuple):
        return isinstance(b, tuple) and len(a) == len(b) and all(eq(x, y, z) for x, y, z in zip(t.types, a, b))
    if isinstance(t, T.tinterval):
        return (isinstance(b, Interval) and eq(t.point_type, a.start, b.start) and eq(t.point_type, a.end, b.end)
                and a.includes_start == b.includes_start and a.includes_end == b.includes_end)
    if isinstance(t, T.tndarray):
        return isinstance(b, np.ndarray) and a.shape == b.shape and a.dtype == b.dtype and bool(np.array_equal(a, b))
    raise TypeError(str(t))


def _match(xs, ys, f):
    if len(xs) != len(ys):
        return False
    ys = list(ys)
    for x in xs:
        for j, y in enumerate(ys):
            if f(x, y):
                del ys[j]
                break
        else:
            return False
    return True


def roundtrip_ok(t, v):
    j = t._convert_to_json_na(v)
    w = wire(j)
    v2 = t._convert_from_json_na(w)
    return eq(t, v, v2)


# ---- catalogue ---------------------------------------------------------------------------------------------
def catalogue(tier):
    L = T.tlocus(RG)
    prims = [T.tint32, T.tint64, T.tfloat32, T.tfloat64, T.tstr, T.tbool, T.tcall, L]
    nd = [T.tndarray(T.tint32, 1), T.tndarray(T.tint32, 2), T.tndarray(T.tint64, 1), T.tndarray(T.tint64, 2),
          T.tndarray(T.tfloat32, 1), T.tndarray(T.tfloat32, 2), T.tndarray(T.tfloat64, 1), T.tndarray(T.tfloat64, 2),
          T.tndarray(T.tfloat64, 3)]
    d2 = [T.tarray(T.tarray(T.tint32)), T.tarray(T.tstruct(a=T.tint32, b=T.tstr)), T.tarray(T.tdict(T.tstr, T.tfloat64)),
          T.tset(T.ttuple(T.tint32, T.tstr)), T.tdict(T.tstr, T.tarray(T.tint32)), T.tdict(T.tint32, T.tstruct(a=T.tfloat64)),
          T.tstruct(a=T.tarray(T.tfloat64), b=T.tstruct(c=T.tcall)), T.ttuple(T.tset(T.tstr), T.tinterval(T.tint32)),
          T.tarray(T.tinterval(L)), T.tdict(T.ttuple(T.tint32, T.tstr), T.tint32), T.tset(T.tarray(T.tint32)),
          T.tarray(T.tset(T.tint32)), T.tinterval(T.tstruct(a=T.tint32)), T.tstruct(a=T.tdict(T.tstr, T.tint32), b=T.ttuple(T.tbool, T.tfloat32)),
          T.tarray(T.tndarray(T.tfloat64, 1)), T.tdict(T.tstr, T.tdict(T.tstr, T.tcall)),
          T.tinterval(T.tstruct(a=T.tint32, b=T.tstr)), T.tdict(T.tstr, T.tstruct(a=T.tint32, b=T.tbool, c=T.tstr)),
          T.ttuple(T.tstruct(a=T.tstr, b=T.tint64), T.tbool)]
    if tier == 'quick':
        out = list(prims)
        out += [T.tarray(T.tfloat64), T.tarray(T.tcall), T.tset(T.tstr), T.tdict(T.tstr, T.tint32), T.tdict(T.tint32, T.tfloat64),
                T.tstruct(a=T.tint32, b=T.tcall), T.ttuple(L, T.tbool, T.tstr), T.tinterval(T.tint32), T.tinterval(L),
                nd[1], nd[8], T.tarray(T.tstruct(a=T.tint32, b=T.tint64)), T.tstruct(a=T.tarray(T.tint64), b=T.tstruct(c=T.tbool, d=T.tint32))]
        return out
    out = list(prims)
    out += [T.tarray(p) for p in prims]
    out += [T.tset(p) for p in prims]
    out += [T.tdict(T.tstr, T.tint32), T.tdict(T.tint32, T.tstr), T.tdict(T.tstr, T.tfloat64), T.tdict(T.tcall, T.tbool),
            T.tdict(L, T.tcall), T.tdict(T.tint64, L), T.tdict(T.tbool, T.tfloat32), T.tdict(T.tfloat64, T.tint32)]
    out += [T.tstruct(), T.tstruct(a=T.tint32, b=T.tstr), T.tstruct(a=T.tfloat64, b=T.tcall), T.tstruct(a=L, b=T.tbool, c=T.tint64)]
    out += [T.ttuple(), T.ttuple(T.tint32, T.tstr), T.ttuple(T.tfloat32, T.tcall), T.ttuple(L, T.tbool)]
    out += [T.tinterval(T.tint32), T.tinterval(T.tfloat64), T.tinterval(T.tstr), T.tinterval(L)]
    out += nd + d2
    seen = []
    for t in out:
        if str(t) not in [str(x) for x in seen]:
            seen.append(t)
    return seen


SIG = ('i0: int, i1: int, j0: int, j1: int, p0: int, f0: float, f1: float, g0: int, g1: int, s0: int, s1: int, c0: int, '
       'a0: int, a1: int, q0: int, b0: bool, b1: bool, m0: bool, m1: bool, m2: bool, n0: int, n1: int')
PRE = '''    pre: -2**63 <= i0 < 2**63 and -2**63 <= i1 < 2**63 and 1 <= p0 <= 500
    pre: -2**31 <= j0 < 2**31 and -2**31 <= j1 < 2**31
    pre: 0 <= g0 < 4 and 0 <= g1 < 4 and 0 <= s0 < 3 and 0 <= s1 < 3 and 0 <= c0 < {CMAX} and 0 <= a0 < 3 and 0 <= a1 < 3 and 0 <= q0 < 6
    pre: 0 <= n0 <= 2 and 0 <= n1 <= {N1MAX}'''
ARGS = '[i0, i1, j0, j1, p0], [f0, f1], [g0, g1, s0, s1, c0, a0, a1, q0], [b0, b1], [m0, m1, m2], [n0, n1]'
ARGN = ['i0', 'i1', 'j0', 'j1', 'p0', 'f0', 'f1', 'g0', 'g1', 's0', 's1', 'c0', 'a0', 'a1', 'q0', 'b0', 'b1', 'm0', 'm1', 'm2', 'n0', 'n1']


def unpack(a):
    return ([a['i0'], a['i1'], a['j0'], a['j1'], a['p0']], [a['f0'], a['f1']],
            [a['g0'], a['g1'], a['s0'], a['s1'], a['c0'], a['a0'], a['a1'], a['q0']], [a['b0'], a['b1']],
            [a['m0'], a['m1'], a['m2']], [a['n0'], a['n1']])


TEMPLATE = '''
def check_{K}({SIG}) -> bool:
    """
{PRE}
    post: _
    """
    return roundtrip_ok(TYPES[{K}], value({K}, {ARGS}, {DM}))


def reach_{K}({SIG}) -> bool:
    """
{PRE}
    post: _
    """
    # reachability twin: must be REFUTED (a non-missing value exists and converts)
    v = value({K}, {ARGS}, {DM})
    return v is None or TYPES[{K}]._convert_to_json_na(v) is None
'''


def value(k, ints, floats, ks, bools, miss, lens, dict_missing=False):
    return mk(TYPES[k], Pool(ints, floats, ks, bools, miss, lens, dict_missing))


def has_dict(t):
    if isinstance(t, T.tdict):
        return True
    kids = []
    if isinstance(t, (T.tarray, T.tset)):
        kids = [t.element_type]
    elif isinstance(t, T.tstruct):
        kids = list(t.types)
    elif isinstance(t, T.ttuple):
        kids = list(t.types)
    elif isinstance(t, T.tinterval):
        kids = [t.point_type]
    return any(has_dict(k) for k in kids)


def has_missing_dict_value(t, v):
    """finding-class predicate: v contains a dict (at a dict-typed position) with a missing value"""
    if v is None:
        return False
    if isinstance(t, T.tdict):
        return any(x is None or has_missing_dict_value(t.value_type, x) or has_missing_dict_value(t.key_type, k)
                   for k, x in v.items())
    if isinstance(t, (T.tarray, T.tset)):
        return any(has_missing_dict_value(t.element_type, x) for x in v)
    if isinstance(t, T.tstruct):
        return any(has_missing_dict_value(ft, v[f]) for f, ft in t.items())
    if isinstance(t, T.ttuple):
        return any(has_missing_dict_value(x, y) for x, y in zip(t.types, v))
    if isinstance(t, T.tinterval):
        return has_missing_dict_value(t.point_type, v.start) or has_missing_dict_value(t.point_type, v.end)
    return False


TYPES = []


def source(tier, ks, dict_missing=False):
    pre = PRE.format(N1MAX=1 if tier == 'quick' else 2, CMAX=len(CALLS))
    return (f'from harness import C32_json as H\nH.TYPES[:] = H.catalogue({tier!r})\n'
            'TYPES = H.TYPES\nroundtrip_ok = H.roundtrip_ok\nvalue = H.value\n'
            + '\n'.join(TEMPLATE.format(K=k, SIG=SIG, PRE=pre, ARGS=ARGS, DM=dict_missing) for k in ks))
