"""Generates the CrossHair condition functions for C13: per cloud x job_private, the configuration index symbolic."""
PACK = '''
def pack_{CLOUD}_{JP}_{M}(ci: int, preemptible: bool, {ARGS}) -> bool:
    """
    pre: {LO} <= ci < {HI}
    post: _
    """
    return H.pack_ok('{CLOUD}', {JPB}, ci, preemptible, [{CS}], [{KS}])


def reach_pack_{CLOUD}_{JP}_{M}(ci: int, preemptible: bool, {ARGS}) -> bool:
    """
    pre: {LO} <= ci < {HI}
    pre: {NONNEG}
    post: _
    """
    # reachability twin: must be REFUTED (a packing that fills the worker exactly with two non-empty jobs exists)
    return not H.packing_reached('{CLOUD}', {JPB}, ci, preemptible, [{CS}], [{KS}])
'''

WHOLE = '''
def whole_{CLOUD}_{JP}(ci: int, preemptible: bool, e: int) -> bool:
    """
    pre: {LO} <= ci < {HI}
    pre: 0 <= e <= {EMAX}
    post: _
    """
    return H.whole_ok('{CLOUD}', {JPB}, ci, preemptible, e)


def reach_whole_{CLOUD}_{JP}(ci: int, preemptible: bool, e: int) -> bool:
    """
    pre: {LO} <= ci < {HI}
    pre: 0 <= e <= {EMAX}
    post: _
    """
    # reachability twin: must be REFUTED (a whole-worker job with extra storage is billed correctly)
    return not (H.whole_ok('{CLOUD}', {JPB}, ci, preemptible, e) and e > 100)
'''

RT = '''
def roundtrip_{CLOUD}_{JP}(ci: int, preemptible: bool, c: int, k: int, e: int) -> bool:
    """
    pre: {LO} <= ci < {HI}
    pre: 0 <= c < 2**20 and 0 <= k < 2**30 and 0 <= e <= {EMAX}
    post: _
    """
    return H.roundtrip_ok('{CLOUD}', {JPB}, ci, preemptible, c, k, e)


def reach_roundtrip_{CLOUD}_{JP}(ci: int, preemptible: bool, c: int, k: int, e: int) -> bool:
    """
    pre: {LO} <= ci < {HI}
    pre: 0 <= c < 2**20 and 0 <= k < 2**30 and 0 <= e <= {EMAX}
    post: _
    """
    # reachability twin: must be REFUTED (a reloaded config bills a non-trivial request identically)
    return not (H.roundtrip_ok('{CLOUD}', {JPB}, ci, preemptible, c, k, e) and c > 250 and k > 10 and e > 0)
'''

EMAX = {'gcp': 64 * 1024, 'azure': 32 * 1024}
CHUNK = {('gcp', 'pack'): 60, ('gcp', 'whole'): 60, ('gcp', 'roundtrip'): 40,
         ('azure', 'pack'): 40, ('azure', 'whole'): 12, ('azure', 'roundtrip'): 8}


def source(H, ms, emax=None):
    """One condition per (cloud, job_private, kind[, m], chunk of the configuration list)."""
    emax = emax or EMAX
    out = ['import harness.C13_bill as H\n']
    names = []
    for cloud in ('gcp', 'azure'):
        for jp in (True, False):
            n = len(H.CONFIGS[(cloud, jp)])
            tag = 'private' if jp else 'pool'

            def chunks(kind):
                step = CHUNK[(cloud, kind)]
                return [(lo, min(lo + step, n)) for lo in range(0, n, step)]

            for m in ms:
                cs = [f'c{i}' for i in range(m)]
                ks = [f'k{i}' for i in range(m)]
                args = ', '.join(f'{c}: int, {k}: int' for c, k in zip(cs, ks))
                nonneg = ' and '.join(f'{x} >= 0' for x in cs + ks)
                for lo, hi in chunks('pack'):
                    out.append(PACK.format(CLOUD=cloud, JP=f'{tag}_{lo}', JPB=jp, M=m, ARGS=args, LO=lo, HI=hi, CS=', '.join(cs),
                                           KS=', '.join(ks), NONNEG=nonneg))
                    names.append(('pack', f'pack_{cloud}_{tag}_{lo}_{m}', dict(cloud=cloud, jp=jp, m=m, lo=lo, hi=hi)))
            for lo, hi in chunks('whole'):
                out.append(WHOLE.format(CLOUD=cloud, JP=f'{tag}_{lo}', JPB=jp, LO=lo, HI=hi, EMAX=emax[cloud]))
                names.append(('whole', f'whole_{cloud}_{tag}_{lo}', dict(cloud=cloud, jp=jp, lo=lo, hi=hi)))
            for lo, hi in chunks('roundtrip'):
                out.append(RT.format(CLOUD=cloud, JP=f'{tag}_{lo}', JPB=jp, LO=lo, HI=hi, EMAX=emax[cloud]))
                names.append(('roundtrip', f'roundtrip_{cloud}_{tag}_{lo}', dict(cloud=cloud, jp=jp, lo=lo, hi=hi)))
    return '\n'.join(out), names
