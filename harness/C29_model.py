"""C29 models: urllib.parse.urlsplit's netloc as a regular language (validated against the real
function every run), the WHATWG URL parser's host as a regular language + an independent
state-machine transcription of the same spec (the two are compared every run), and the
translation of the real `validate_next_page_url` AST into the language of accepted strings.

Nothing here copies repository code: the validator is read from /repo with `ast` at run time."""
import ast
import unicodedata

from vt import strlang
from vt.common import HarnessError
from vt.strlang_ext import (ALL, EMPTY, EPS, Rx, alt, cat, ci, compl, cset, erase_preimage, inter, lit,
                            lower_inverse, map_preimage, nset, opt, plus, rng, rs_minus, star, loop)

# ---- alphabets -----------------------------------------------------------------------------------
T = ((9, 10), (13, 13))                    # TAB LF CR: removed anywhere by urlsplit and by browsers
STRIP = cset([(0, 0x20)])                  # C0 control or space
NOTSTRIP = nset([(0, 0x20)])
ALPHA = cset([rng('a', 'z'), rng('A', 'Z')])
SCH = cset([rng('a', 'z'), rng('A', 'Z'), rng('0', '9'), (43, 43), (45, 46)])
DIGIT = cset([rng('0', '9')])
SL = cset('/\\')
SPECIAL = ('http', 'https', 'ftp', 'ws', 'wss', 'file')

_DANGER = None


def nfkc_danger():
    """Non-ASCII characters whose NFKC form contains one of / ? # @ :  (urlsplit raises ValueError)."""
    global _DANGER
    if _DANGER is None:
        out = []
        for cp in range(0x80, strlang.PYMAX + 1):
            if 0xD800 <= cp <= 0xDFFF:
                continue
            n = unicodedata.normalize('NFKC', chr(cp))
            if n != chr(cp) and any(c in n for c in '/?#@:'):
                out.append((cp, cp))
        _DANGER = tuple(strlang.rs_norm(out))
    return _DANGER


def NLSAFE():
    """netloc characters for which urlsplit neither splits nor raises: not / ? #, no brackets, no NFKC-danger."""
    base = nset('/?#[]').a[0]
    return Rx('set', rs_minus(base, nfkc_danger()))


# ---- urlsplit ------------------------------------------------------------------------------------
def _has_eps(rx):
    from vt.strlang_ext import in_lang, to_z3
    return in_lang(to_z3(rx), '')


def _literals(rx):
    """list of strings if rx is a finite union of literal strings, else None"""
    if rx.op == 'eps':
        return ['']
    if rx.op == 'set':
        rs = rx.a[0]
        if len(rs) == 1 and rs[0][0] == rs[0][1]:
            return [chr(rs[0][0])]
        return None
    if rx.op == 'cat':
        out = ''
        for c in rx.a[0]:
            l = _literals(c)
            if l is None or len(l) != 1:
                return None
            out += l[0]
        return [out]
    if rx.op == 'alt':
        out = []
        for c in rx.a[0]:
            l = _literals(c)
            if l is None:
                return None
            out += l
        return out
    return None


def urlsplit_netloc_lang(R):
    """{ s : urlsplit(s) does not raise and urlsplit(s).netloc in L(R) }   (CPython 3.12 urlsplit:
    lstrip C0/space, remove TAB/CR/LF, optional scheme = ALPHA SCH* ':' up to the first ':', netloc only
    after a leading '//', ends at the first of / ? #).  Netlocs containing '[' or ']' are modelled as
    rejected (exact when R contains no bracket).  Every word of the un-erased body starts with a
    non-strippable character, hence STRIP* . erase_preimage(body) is exact."""
    lits = _literals(R)
    safe = NLSAFE().a[0]
    if lits is not None and all(strlang.rs_contains(safe, ord(c)) for w in lits for c in w):
        nl = R
    else:
        nl = inter(R, star(NLSAFE()))
    end = alt(EPS(), cat(cset('/?#'), ALL()))
    rest = cat(lit('//'), nl, end)
    scheme = cat(ALPHA, star(SCH), lit(':'))
    if not _has_eps(R):
        body = cat(opt(scheme), rest)       # a word starting with '/' never has a scheme
    else:
        rest2 = compl(cat(lit('//'), ALL()))
        body = alt(cat(scheme, alt(rest, rest2)), rest,
                   inter(compl(cat(scheme, ALL())), rest2, alt(EPS(), cat(NOTSTRIP, ALL()))))
    return cat(star(STRIP), erase_preimage(body, T))


def hostname_netlocs(R):
    """netloc values whose SplitResult.hostname is in L(R) (bracket-free netlocs): hostname = text after the
    last '@' up to the first ':', lower-cased (None when empty, which is in no language)."""
    hch = Rx('set', rs_minus(NLSAFE().a[0], ((ord('@'), ord('@')), (ord(':'), ord(':')))))
    noat = Rx('set', rs_minus(NLSAFE().a[0], ((ord('@'), ord('@')),)))
    h = inter(map_preimage(R, lower_inverse), plus(hch))
    return cat(opt(cat(star(NLSAFE()), lit('@'))), h, opt(cat(lit(':'), star(noat))))


def _port_digits(values=None):
    """decimal strings int() maps into 0..65535 (or onto one of `values`), leading zeros allowed"""
    D = cset([rng('0', '9')])
    z = star(lit('0'))
    if values is not None:
        return alt(*[cat(z, lit(str(v))) if v else plus(lit('0')) for v in values if 0 <= v <= 65535]) if values else EMPTY()
    r = lambda lo, hi: cset([rng(lo, hi)])  # noqa: E731
    return alt(cat(z, loop(D, 1, 4)), cat(z, r('1', '5'), loop(D, 4, 4)), cat(z, lit('6'), r('0', '4'), loop(D, 3, 3)),
               cat(z, lit('65'), r('0', '4'), loop(D, 2, 2)), cat(z, lit('655'), r('0', '2'), D), cat(z, lit('6553'), r('0', '5')))


def port_netlocs(kind, values=None):
    """bracket-free netloc values by SplitResult.port: kind 'none' (no ':' after the last '@', or nothing after it),
    'valid' (ASCII digits with value <= 65535; `values` restricts to given ints).  Everything else makes .port raise."""
    noatcolon = Rx('set', rs_minus(NLSAFE().a[0], ((ord('@'), ord('@')), (ord(':'), ord(':')))))
    user = opt(cat(star(NLSAFE()), lit('@')))
    if kind == 'none':
        return cat(user, star(noatcolon), opt(lit(':')))
    return cat(user, star(noatcolon), lit(':'), _port_digits(values))


USES_PARAMS = None


def urlsplit_lang(Rs=None, Rn=None, Rp=None, params=False):
    """{ s : urlsplit(s) does not raise, .scheme in L(Rs), .netloc in L(Rn), .path in L(Rp) }  (None = unconstrained).
    With params=True the path is urlparse's: for schemes in urllib.parse.uses_params the text from the first ';' of the
    last path segment on is cut off.  Same urlsplit model as urlsplit_netloc_lang."""
    if Rs is None and Rp is None:
        return urlsplit_netloc_lang(ALL() if Rn is None else Rn)
    import urllib.parse as up
    Rn_ = ALL() if Rn is None else Rn
    nl = inter(Rn_, star(NLSAFE()))
    tailend = alt(EPS(), cat(cset('?#'), ALL()))
    nq = nset('?#')

    def pathlang(R, after_netloc, with_params):
        if R is None:
            base = star(nq)
        elif with_params:
            noseg = cat(opt(cat(star(nq), lit('/'))), star(nset('?#/;')))        # last segment without ';'
            base = cat(inter(R, noseg), opt(cat(lit(';'), star(nset('?#/')))))
        else:
            base = inter(R, star(nq))
        if after_netloc:
            base = inter(base, alt(EPS(), cat(lit('/'), ALL())))
        return cat(base, tailend)

    def rest(with_params):
        r = cat(lit('//'), nl, pathlang(Rp, True, with_params))
        if _has_eps(Rn_):
            r = alt(r, inter(compl(cat(lit('//'), ALL())), pathlang(Rp, False, with_params)))
        return r

    scheme_any = cat(ALPHA, star(SCH))
    start_ok = alt(EPS(), cat(NOTSTRIP, ALL()))
    parts = []
    Rs_ = ALL() if Rs is None else Rs
    if params and Rp is not None:
        withp = [x for x in up.uses_params if x]
        in_uses = alt(*[ci(x) for x in withp])
        sch_in = inter(map_preimage(Rs_, lower_inverse), scheme_any, in_uses)
        sch_out = inter(map_preimage(Rs_, lower_inverse), scheme_any, compl(in_uses))
        parts.append(cat(sch_in, lit(':'), rest(True)))
        parts.append(cat(sch_out, lit(':'), rest(False)))
        if _has_eps(Rs_):
            parts.append(inter(compl(cat(scheme_any, lit(':'), ALL())), rest('' in up.uses_params), start_ok))
    else:
        parts.append(cat(inter(map_preimage(Rs_, lower_inverse), scheme_any), lit(':'), rest(False)))
        if _has_eps(Rs_):
            parts.append(inter(compl(cat(scheme_any, lit(':'), ALL())), rest(False), start_ok))
    return cat(star(STRIP), erase_preimage(alt(*parts), T))


# ---- WHATWG URL parser: independent state-machine transcription (reference for the regex model) --------
_FORBIDDEN_HOST = set('\x00\t\n\r #/:<>?@[\\]^|')
_FORBIDDEN_DOMAIN = _FORBIDDEN_HOST | {chr(c) for c in range(0x20)} | {'%', '\x7f'}
_SCHEME_CHARS = set('abcdefghijklmnopqrstuvwxyzABCDEFGHIJKLMNOPQRSTUVWXYZ0123456789+-.')


def _ends_in_number(host):
    parts = host.split('.')
    if parts[-1] == '':
        if len(parts) == 1:
            return False
        parts.pop()
    last = parts[-1]
    if last and all(c in '0123456789' for c in last):
        return True
    if last[:2].lower() == '0x' and all(c in '0123456789abcdefABCDEF' for c in last[2:]):
        return True
    return False


def _host_parse(buf, special):
    if buf.startswith('['):
        return ('unknown', 'ipv6')
    if not buf.isascii():
        return ('unknown', 'idna')
    if not special:
        if any(c in _FORBIDDEN_HOST for c in buf):
            return ('fail', 'forbidden host code point')
        return ('host', buf)
    if '%' in buf:
        return ('unknown', 'percent-encoded host')
    low = buf.lower()
    if any(lab.startswith('xn--') for lab in low.split('.')):
        return ('unknown', 'punycode')
    if low == '':
        return ('fail', 'empty host')
    if any(c in _FORBIDDEN_DOMAIN for c in low):
        return ('fail', 'forbidden domain code point')
    if _ends_in_number(low):
        return ('unknown', 'ipv4')
    return ('host', low)


def _authority(rest, special):
    end = len(rest)
    for i, c in enumerate(rest):
        if c in '/?#' or (special and c == '\\'):
            end = i
            break
    buf = rest[:end]
    at = buf.rfind('@')
    hostport = buf[at + 1:] if at >= 0 else buf
    if at >= 0 and hostport == '':
        return ('fail', 'credentials without host')
    # host state: first ':' outside brackets
    host, port = hostport, None
    inside = False
    for i, c in enumerate(hostport):
        if c == '[':
            inside = True
        elif c == ']':
            inside = False
        elif c == ':' and not inside:
            host, port = hostport[:i], hostport[i + 1:]
            break
    if host == '' and (special or port is not None):
        return ('fail', 'empty host')
    if port is not None:
        if any(c not in '0123456789' for c in port):
            return ('fail', 'bad port')
        if port and int(port) > 65535:
            return ('fail', 'port out of range')
    return _host_parse(host, special)


def browser_target(inp, base_scheme, base_host):
    """What the WHATWG basic URL parser does with `inp` against a base `<base_scheme>://<base_host>/…`
    (base_scheme special, not file).  Returns (kind, scheme, host_or_reason):
      ('host', scheme, host)   parsed, host decided          ('nohost', scheme, None)  URL without authority
      ('fail', None, reason)   parse failure (no navigation) ('unknown', scheme, reason) outside this model."""
    s = inp.strip(''.join(chr(c) for c in range(0x21)))
    s = s.replace('\t', '').replace('\n', '').replace('\r', '')
    scheme = None
    rest = s
    if s and s[0].isascii() and s[0].isalpha():
        j = 1
        while j < len(s) and s[j] in _SCHEME_CHARS:
            j += 1
        if j < len(s) and s[j] == ':':
            scheme, rest = s[:j].lower(), s[j + 1:]

    def ignore_slashes(r, sch):
        k = 0
        while k < len(r) and r[k] in '/\\':
            k += 1
        kind, val = _authority(r[k:], True)
        return (kind, sch if kind != 'fail' else None, val)

    def relative(r):
        if r[:1] in ('/', '\\') and r[1:2] in ('/', '\\'):
            return ignore_slashes(r[2:], base_scheme)
        return ('host', base_scheme, base_host)

    if scheme is None:
        return relative(s)
    if scheme == 'file':
        if rest[:1] in ('/', '\\') and rest[1:2] in ('/', '\\'):
            r = rest[2:]
            end = len(r)
            for i, c in enumerate(r):
                if c in '/\\?#':
                    end = i
                    break
            buf = r[:end]
            if len(buf) == 2 and buf[0].isascii() and buf[0].isalpha() and buf[1] in ':|':
                return ('host', 'file', '')
            if buf == '':
                return ('host', 'file', '')
            kind, val = _host_parse(buf, True)
            if kind == 'host' and val == 'localhost':
                val = ''
            return (kind, 'file' if kind != 'fail' else None, val)
        return ('host', 'file', '')
    if scheme in SPECIAL:
        if scheme == base_scheme:
            if rest.startswith('//'):
                return ignore_slashes(rest[2:], scheme)
            return relative(rest)
        return ignore_slashes(rest, scheme)
    # non-special
    if rest.startswith('//'):
        kind, val = _authority(rest[2:], False)
        return (kind, scheme if kind != 'fail' else None, val)
    return ('nohost', scheme, None)


# ---- WHATWG URL parser as regular languages ---------------------------------------------------------
def _whatwg_pre(X):
    """{ s : remove_TABCRLF(strip_C0space(s)) in L(X) }"""
    # words of X that neither start nor end with a strippable character; T is a subset of STRIP, so
    # STRIP* . erase_preimage(X') . STRIP* is exactly the set above
    Xp = inter(X, alt(EPS(), NOTSTRIP, cat(NOTSTRIP, ALL(), NOTSTRIP)))
    return cat(star(STRIP), erase_preimage(Xp, T), star(STRIP))


def _auth_special(h):
    """authority buffers (special schemes) that certainly give host h: optional credentials, ASCII
    case-insensitive h, optional port of at most 4 digits; followed by end or one of / \\ ? #."""
    userinfo = cat(star(nset('/\\?#')), lit('@'))
    port = cat(lit(':'), loop(DIGIT, 0, 4))
    return cat(opt(userinfo), ci(h), opt(port), alt(EPS(), cat(cset('/\\?#'), ALL())))


def _scheme_any():
    return cat(ALPHA, star(SCH), lit(':'))


def browser_lands_lang(h, base_scheme, base_host):
    """Strings for which a browser certainly ends on host h with a special scheme (under-approximation
    of the WHATWG parser: IDNA/percent-encoded spellings of h and 5-digit ports are left out)."""
    others = [s for s in SPECIAL if s not in (base_scheme, 'file')]
    x = [
        cat(ci(base_scheme), lit(':'), SL, SL, star(SL), _auth_special(h)),
        cat(alt(*[ci(s) for s in others]), lit(':'), star(SL), _auth_special(h)),
        inter(compl(cat(_scheme_any(), ALL())), cat(SL, SL, star(SL), _auth_special(h))),
        cat(ci('file'), lit(':'), SL, SL, ci(h), alt(EPS(), cat(cset('/\\?#'), ALL()))),
    ]
    if h == base_host:
        two = cat(SL, SL, ALL())
        x.append(inter(compl(cat(_scheme_any(), ALL())), compl(two)))
        x.append(cat(ci(base_scheme), lit(':'), compl(two)))
    return _whatwg_pre(alt(*x))


def nonspecial_scheme_lang():
    """Strings a browser parses with a non-special scheme (javascript:, foo:, data:, …)."""
    sp = alt(*[cat(ci(s), lit(':')) for s in SPECIAL])
    return _whatwg_pre(inter(cat(_scheme_any(), ALL()), compl(cat(sp, ALL()))))


def nonspecial_host_lang(h):
    """Non-special-scheme URLs whose authority host is exactly h (opaque host; '\\' is not a delimiter)."""
    userinfo = cat(star(nset('/?#')), lit('@'))
    port = cat(lit(':'), loop(DIGIT, 0, 4))
    sp = alt(*[cat(ci(s), lit(':')) for s in SPECIAL])
    x = inter(cat(_scheme_any(), lit('//'), opt(userinfo), lit(h), opt(port), alt(EPS(), cat(cset('/?#'), ALL()))),
              compl(cat(sp, ALL())))
    return _whatwg_pre(x)


# ---- the real validator, from its AST --------------------------------------------------------------
class SymStr:
    """a string-valued expression over the parameter: a base (the argument itself or a component of
    urlsplit/urlparse(argument)) followed by regular transductions; `ops` are pre-image functions (value-language of
    the result -> value-language of the operand), applied last-to-first"""

    def __init__(self, base, ops=(), parser='urlsplit'):
        self.base = base            # 'arg' | 'netloc' | 'hostname' | 'scheme' | 'path' | 'port'
        self.ops = tuple(ops)
        self.parser = parser

    def then(self, op):
        return SymStr(self.base, self.ops + (op,), self.parser)


_WS = None


def _whitespace():
    global _WS
    if _WS is None:
        _WS = strlang.ranges_from_pred(lambda ch: ch.isspace())
    return Rx('set', tuple(_WS))


def _charset_of(chars):
    return _whitespace() if chars is None else cset(chars)


def _not_in(cs):
    return Rx('set', tuple(strlang.rs_neg(list(cs.a[0]))))


def _sep1(c):
    if not (isinstance(c, str) and len(c) == 1):
        raise HarnessError(f'only single-character separators are translatable, got {c!r}')
    return cset(c), nset(c)


# pre-images: given R (language of the RESULT), the language of operand values v with op(v) in R
def pre_charmap(method):
    inv = None

    def f(R):
        nonlocal inv
        if inv is None:
            from vt.strlang_ext import charmap_inverse
            inv = charmap_inverse(method)
        return map_preimage(R, inv)
    return f


def pre_partition(c, idx):
    C, N = _sep1(c)

    def f(R):
        if idx == 0:        # text before the first c (whole string if none)
            return cat(inter(R, star(N)), opt(cat(C, ALL())))
        if idx == 2:        # text after the first c ('' if none)
            r = cat(star(N), C, R)
            return alt(r, star(N)) if _has_eps(R) else r
        if idx == 1:        # the separator itself ('' if none)
            parts = []
            if _has_eps(R):
                parts.append(star(N))
            from vt.strlang_ext import in_lang, to_z3
            if in_lang(to_z3(R), c):
                parts.append(cat(star(N), C, ALL()))
            return alt(*parts) if parts else EMPTY()
        raise HarnessError('partition index must be 0, 1 or 2')
    return f


def pre_rpartition(c, idx):
    C, N = _sep1(c)

    def f(R):
        if idx == 2:        # text after the last c (whole string if none)
            return cat(opt(cat(ALL(), C)), inter(R, star(N)))
        if idx == 0:        # text before the last c ('' if none)
            r = cat(R, C, star(N))
            return alt(r, star(N)) if _has_eps(R) else r
        raise HarnessError('rpartition index must be 0 or 2')
    return f


def pre_split(c, maxsplit, idx, right):
    C, N = _sep1(c)

    def f(R):
        seg = inter(R, star(N))
        if not right:
            if idx == 0:
                return cat(seg, opt(cat(C, ALL())))
            if maxsplit == 1 and idx in (-1, 1):
                r = cat(star(N), C, R)
                return alt(r, seg) if idx == -1 else r          # [1] raises IndexError without a separator
            if maxsplit is None and idx == -1:
                return cat(opt(cat(ALL(), C)), seg)
            if maxsplit is None and idx == 1:
                return cat(star(N), C, seg, opt(cat(C, ALL())))
        else:
            if idx == -1:
                return cat(opt(cat(ALL(), C)), seg)
            if maxsplit == 1 and idx == 0:
                return alt(cat(R, C, star(N)), seg)
            if maxsplit is None and idx == 0:
                return cat(seg, opt(cat(C, ALL())))
        raise HarnessError(f'split form not translatable: maxsplit={maxsplit} index={idx} right={right}')
    return f


def pre_strip(chars, left, right):
    cs = _charset_of(chars)
    nc = _not_in(cs)

    def f(R):
        core = R
        if left:
            core = inter(core, alt(EPS(), cat(nc, ALL())))
        if right:
            core = inter(core, alt(EPS(), cat(ALL(), nc)))
        return cat(star(cs) if left else EPS(), core, star(cs) if right else EPS())
    return f


def pre_removeprefix(p):
    def f(R):
        return alt(cat(lit(p), R), inter(R, compl(cat(lit(p), ALL())))) if p else R
    return f


def pre_removesuffix(p):
    def f(R):
        return alt(cat(R, lit(p)), inter(R, compl(cat(ALL(), lit(p))))) if p else R
    return f


def pre_slice(lo, hi):
    any1 = Rx('set', ((0, strlang.PYMAX),))

    def f(R):
        if hi is None and lo is not None and lo >= 0:         # v[lo:]
            r = cat(loop(any1, lo, lo), R)
            return alt(r, loop(any1, 0, lo - 1)) if _has_eps(R) and lo > 0 else r
        if lo in (None, 0) and hi is not None and hi >= 0:    # v[:hi]
            return alt(inter(R, loop(any1, 0, hi - 1)) if hi > 0 else EMPTY(), cat(inter(R, loop(any1, hi, hi)), ALL()))
        raise HarnessError('only v[k:] and v[:k] with constant k >= 0 are translatable')
    return f


class ValidatorTranslator:
    """`validate_next_page_url(x)`-shaped functions: a sequence of `if TEST: raise` and assignments.  Expressions that do
    not mention the parameter are evaluated concretely in the real module namespace with the deployment under test.
    String expressions over the parameter are kept symbolic: the parameter, `.netloc/.hostname/.scheme/.path/.port` of
    urlsplit/urlparse(parameter) (also through a variable holding the parse result), followed by regular transductions
    (.lower/.upper/.casefold, .partition/.rpartition/.split/.rsplit with a constant index, .strip/.lstrip/.rstrip,
    .removeprefix/.removesuffix, constant slices), bound to intermediate variables or not.  An atom `expr in R` becomes the
    pre-image of R under the transductions, lifted through the exact urlsplit model; negations are pushed to the atoms."""

    COMPONENTS = ('netloc', 'hostname', 'scheme', 'path', 'port')

    def __init__(self, fn, env):
        self.fn = fn
        self.arg = fn.args.args[0].arg
        self.env = dict(env)
        self.loc = {}
        self.sym = {}           # name -> SymStr
        self.parsed = {}        # name -> 'urlparse' | 'urlsplit'   (variables holding the parse result)
        self.concrete = {}      # name -> concretely evaluated value (reported)
        self._lifted = []
        self.uses_parser = False

    def mentions_arg(self, node):
        return any(isinstance(n, ast.Name) and (n.id == self.arg or n.id in self.sym or n.id in self.parsed)
                   for n in ast.walk(node))

    def concrete_eval(self, node):
        try:
            return eval(compile(ast.Expression(node), '<C29>', 'eval'), self.env, dict(self.loc))
        except Exception as e:  # noqa: BLE001
            raise HarnessError(f'cannot evaluate {ast.unparse(node)} concretely: {e}')

    def const(self, node):
        if self.mentions_arg(node):
            raise HarnessError(f'argument of a string method must not depend on the parameter: {ast.unparse(node)}')
        return self.concrete_eval(node)

    def parse_call(self, node):
        if isinstance(node, ast.Call) and isinstance(node.func, ast.Name) and node.func.id in ('urlparse', 'urlsplit') \
                and len(node.args) == 1 and not node.keywords and isinstance(node.args[0], ast.Name) \
                and node.args[0].id == self.arg:
            return node.func.id
        if isinstance(node, ast.Name) and node.id in self.parsed:
            return self.parsed[node.id]
        return None

    def symstr(self, node):
        """SymStr for a string expression over the parameter, or None"""
        if isinstance(node, ast.Name):
            if node.id == self.arg:
                return SymStr('arg')
            return self.sym.get(node.id)
        if isinstance(node, ast.Attribute) and node.attr in self.COMPONENTS:
            pc = self.parse_call(node.value)
            if pc is not None:
                self.uses_parser = True
                return SymStr(node.attr, (), pc)
        if isinstance(node, ast.Call) and isinstance(node.func, ast.Attribute):
            base = self.symstr(node.func.value)
            if base is None or base.base == 'port':
                return None
            m = node.func.attr
            args = [self.const(a) for a in node.args]
            if node.keywords:
                raise HarnessError(f'keyword arguments not translatable: {ast.unparse(node)}')
            if m in ('lower', 'upper', 'casefold') and not args:
                return base.then(pre_charmap(m))
            if m in ('strip', 'lstrip', 'rstrip') and len(args) <= 1:
                return base.then(pre_strip(args[0] if args else None, m != 'rstrip', m != 'lstrip'))
            if m == 'removeprefix' and len(args) == 1:
                return base.then(pre_removeprefix(args[0]))
            if m == 'removesuffix' and len(args) == 1:
                return base.then(pre_removesuffix(args[0]))
            return None
        if isinstance(node, ast.Subscript):
            v = node.value
            if isinstance(node.slice, ast.Slice):
                base = self.symstr(v)
                if base is None:
                    return None
                if node.slice.step is not None:
                    raise HarnessError('slice steps are not translatable')
                lo = self.const(node.slice.lower) if node.slice.lower is not None else None
                hi = self.const(node.slice.upper) if node.slice.upper is not None else None
                return base.then(pre_slice(lo, hi))
            if isinstance(v, ast.Call) and isinstance(v.func, ast.Attribute) and v.func.attr in (
                    'partition', 'rpartition', 'split', 'rsplit'):
                base = self.symstr(v.func.value)
                if base is None:
                    return None
                idx = self.const(node.slice)
                args = [self.const(a) for a in v.args]
                m = v.func.attr
                if not isinstance(idx, int) or v.keywords or not args:
                    raise HarnessError(f'not translatable: {ast.unparse(node)}')
                if m == 'partition' and len(args) == 1:
                    return base.then(pre_partition(args[0], idx % 3))
                if m == 'rpartition' and len(args) == 1:
                    return base.then(pre_rpartition(args[0], idx % 3))
                if m in ('split', 'rsplit') and len(args) <= 2:
                    return base.then(pre_split(args[0], args[1] if len(args) == 2 else None, idx, m == 'rsplit'))
        return None

    def lift(self, sym, R, neg):
        """language of inputs whose expression value is in L(R) (not in L(R) if neg); str methods never raise, a method
        call on a None hostname does (AttributeError -> the request fails, the input is not accepted)"""
        if sym.base == 'port':
            raise HarnessError('port is only translatable in `is None`, `==` and `in` tests')
        if sym.ops:
            Rv = compl(R) if neg else R
            for op in reversed(sym.ops):
                Rv = op(Rv)
            neg = False
        else:
            Rv = R
        if sym.base == 'arg':
            return compl(Rv) if neg else Rv
        params = sym.parser == 'urlparse'
        if sym.base == 'netloc':
            out = urlsplit_lang(None, compl(Rv) if neg else Rv, None)
        elif sym.base == 'hostname':
            nl = hostname_netlocs(Rv)
            out = urlsplit_lang(None, compl(nl) if neg else nl, None)
        elif sym.base == 'scheme':
            out = urlsplit_lang(compl(Rv) if neg else Rv, None, None)
        else:
            out = urlsplit_lang(None, None, compl(Rv) if neg else Rv, params=params)
        self._lifted.append(out)
        return out

    def lift_port(self, kind, values, neg):
        if kind == 'none':
            nl = port_netlocs('valid') if neg else port_netlocs('none')
        elif neg:
            nl = alt(port_netlocs('none'), inter(port_netlocs('valid'), compl(port_netlocs('valid', values))))
        else:
            nl = port_netlocs('valid', values)
        out = urlsplit_lang(None, nl, None)
        self._lifted.append(out)
        return out

    def strs(self, v):
        if isinstance(v, str):
            return [v]
        if isinstance(v, (list, tuple, set, frozenset)) and all(isinstance(x, str) for x in v):
            return list(v)
        raise HarnessError(f'expected str or collection of str, got {v!r}')

    def truthy(self, e, neg=False):
        """language of inputs making e truthy (falsy if neg), among those on which nothing raises"""
        if isinstance(e, ast.UnaryOp) and isinstance(e.op, ast.Not):
            return self.truthy(e.operand, not neg)
        if isinstance(e, ast.BoolOp):
            parts = [self.truthy(v, neg) for v in e.values]
            return alt(*parts) if isinstance(e.op, ast.Or) != neg else inter(*parts)
        if not self.mentions_arg(e):
            return ALL() if bool(self.concrete_eval(e)) != neg else EMPTY()
        nonempty = cat(Rx('set', ((0, strlang.PYMAX),)), ALL())
        s = self.symstr(e)
        if s is not None:
            if s.base == 'port':
                raise HarnessError('truthiness of .port is not translatable')
            if s.base == 'hostname' and not s.ops:       # None or a non-empty string
                return self.lift(s, ALL(), neg)
            return self.lift(s, nonempty, neg)
        if isinstance(e, ast.Compare) and len(e.ops) == 1:
            l, op, r = e.left, e.ops[0], e.comparators[0]
            sl, sr = self.symstr(l), self.symstr(r)
            if sl is not None and not self.mentions_arg(r):
                val = self.concrete_eval(r)
                if sl.base == 'port':
                    if isinstance(op, (ast.Is, ast.IsNot, ast.Eq, ast.NotEq)) and val is None:
                        return self.lift_port('none', None, isinstance(op, (ast.IsNot, ast.NotEq)) != neg)
                    if isinstance(op, (ast.Eq, ast.NotEq)) and isinstance(val, int):
                        return self.lift_port('valid', [val], isinstance(op, ast.NotEq) != neg)
                    if isinstance(op, (ast.In, ast.NotIn)) and all(isinstance(x, int) or x is None for x in val):
                        ints = [x for x in val if x is not None]
                        pos = alt(port_netlocs('valid', ints), *([port_netlocs('none')] if None in val else []))
                        out = urlsplit_lang(None, pos, None)
                        if isinstance(op, ast.NotIn) != neg:
                            out = inter(urlsplit_lang(None, alt(port_netlocs('none'), port_netlocs('valid')), None), compl(out))
                        self._lifted.append(out)
                        return out
                    raise HarnessError(f'port test not translatable: {ast.unparse(e)}')
                if isinstance(op, (ast.Is, ast.IsNot)) and val is None and sl.base == 'hostname' and not sl.ops:
                    return self.lift(sl, ALL(), isinstance(op, ast.Is) != neg)
                if isinstance(op, (ast.In, ast.NotIn)):
                    if isinstance(val, str):
                        subs = {val[i:j] for i in range(len(val) + 1) for j in range(i, len(val) + 1)}
                        R = alt(*[lit(x) for x in sorted(subs)])
                    else:
                        R = alt(*[lit(x) for x in self.strs(val)]) if val else EMPTY()
                    return self.lift(sl, R, isinstance(op, ast.NotIn) != neg)
                if isinstance(op, (ast.Eq, ast.NotEq)) and isinstance(val, str):
                    return self.lift(sl, lit(val), isinstance(op, ast.NotEq) != neg)
            if sr is not None and not self.mentions_arg(l) and isinstance(op, (ast.In, ast.NotIn)):
                val = self.concrete_eval(l)
                if isinstance(val, str):
                    return self.lift(sr, cat(ALL(), lit(val), ALL()), isinstance(op, ast.NotIn) != neg)
            if sr is not None and not self.mentions_arg(l) and isinstance(op, (ast.Eq, ast.NotEq)):
                val = self.concrete_eval(l)
                if isinstance(val, str):
                    return self.lift(sr, lit(val), isinstance(op, ast.NotEq) != neg)
        if isinstance(e, ast.Call):
            f = e.func
            if isinstance(f, ast.Attribute) and f.attr in ('endswith', 'startswith') and len(e.args) == 1 \
                    and not self.mentions_arg(e.args[0]):
                c = self.symstr(f.value)
                if c is not None:
                    vals = self.strs(self.concrete_eval(e.args[0]))
                    if f.attr == 'endswith':
                        R = alt(*[cat(ALL(), lit(v)) for v in vals])
                    else:
                        R = alt(*[cat(lit(v), ALL()) for v in vals])
                    return self.lift(c, R, neg)
            if isinstance(f, ast.Name) and f.id in ('any', 'all') and len(e.args) == 1 \
                    and isinstance(e.args[0], ast.GeneratorExp) and len(e.args[0].generators) == 1:
                g = e.args[0].generators[0]
                if not g.ifs and isinstance(g.target, ast.Name) and not self.mentions_arg(g.iter):
                    items = list(self.concrete_eval(g.iter))
                    parts = []
                    for it in items:
                        saved = dict(self.loc)
                        self.loc[g.target.id] = it
                        parts.append(self.truthy(e.args[0].elt, neg))
                        self.loc = saved
                    if (f.id == 'any') != neg:
                        return alt(*parts) if parts else EMPTY()
                    return inter(*parts) if parts else ALL()
        raise HarnessError(f'validator test not in the translatable subset: {ast.unparse(e)}')

    def accepted(self):
        """language of strings for which the function returns without raising"""
        conj = []
        for st in self.fn.body:
            if isinstance(st, ast.Expr) and isinstance(st.value, ast.Constant):
                continue
            if isinstance(st, ast.Assign) and len(st.targets) == 1 and isinstance(st.targets[0], ast.Name):
                name = st.targets[0].id
                pc = self.parse_call(st.value) if isinstance(st.value, ast.Call) else None
                if pc is not None:
                    self.parsed[name] = pc
                    self.uses_parser = True
                    continue
                if self.mentions_arg(st.value):
                    sym = self.symstr(st.value)
                    if sym is None:
                        raise HarnessError(f'assignment not in the translatable subset: {ast.unparse(st)}')
                    self.sym[name] = sym
                    if sym.base == 'hostname' and sym.ops:
                        # a str method on a None hostname raises: only inputs with a hostname survive this statement
                        conj.append(self.lift(SymStr('hostname', (), sym.parser), ALL(), False))
                    continue
                self.loc[name] = self.concrete_eval(st.value)
                self.concrete[name] = self.loc[name]
                continue
            if isinstance(st, ast.If) and not st.orelse and len(st.body) == 1 and isinstance(st.body[0], ast.Raise):
                conj.append(self.truthy(st.test, neg=True))
                continue
            raise HarnessError(f'statement not in the translatable subset: {ast.unparse(st)}')
        conj = [c for c in conj if c.op != 'all']
        if self.uses_parser and not any(c is l for c in conj for l in self._lifted):
            # the urlparse call itself may raise ValueError: such inputs leave the accepted set
            conj.append(urlsplit_netloc_lang(ALL()))
        if not conj:
            return ALL()
        return inter(*conj)
