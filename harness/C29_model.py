"""C29 models: urllib.parse.urlsplit's netloc as a regular language (validated against the real
function every run), the WHATWG URL parser's host as a regular language + an independent
state-machine transcription of the same spec (the two are compared every run), and the
translation of the real `validate_next_page_url` AST into the language of accepted strings.

Nothing here copies repository code: the validator is read from /repo with `ast` at run time."""
import ast
import unicodedata

from vt import strlang
from vt.common import HarnessError
from vt.strlang_ext import (ALL, EMPTY, EPS, Rx, alt, cat, ci, compl, cset, erase_preimage, inter, lit,
                            lower_inverse, map_preimage, nset, opt, plus, rng, rs_minus, star, loop)

# ---- alphabets -----------------------------------------------------------------------------------
T = ((9, 10), (13, 13))                    # TAB LF CR: removed anywhere by urlsplit and by browsers
STRIP = cset([(0, 0x20)])                  # C0 control or space
NOTSTRIP = nset([(0, 0x20)])
ALPHA = cset([rng('a', 'z'), rng('A', 'Z')])
SCH = cset([rng('a', 'z'), rng('A', 'Z'), rng('0', '9'), (43, 43), (45, 46)])
DIGIT = cset([rng('0', '9')])
SL = cset('/\\')
SPECIAL = ('http', 'https', 'ftp', 'ws', 'wss', 'file')

_DANGER = None


def nfkc_danger():
    """Non-ASCII characters whose NFKC form contains one of / ? # @ :  (urlsplit raises ValueError)."""
    global _DANGER
    if _DANGER is None:
        out = []
        for cp in range(0x80, strlang.PYMAX + 1):
            if 0xD800 <= cp <= 0xDFFF:
                continue
            n = unicodedata.normalize('NFKC', chr(cp))
            if n != chr(cp) and any(c in n for c in '/?#@:'):
                out.append((cp, cp))
        _DANGER = tuple(strlang.rs_norm(out))
    return _DANGER


def NLSAFE():
    """netloc characters for which urlsplit neither splits nor raises: not / ? #, no brackets, no NFKC-danger."""
    base = nset('/?#[]').a[0]
    return Rx('set', rs_minus(base, nfkc_danger()))


# ---- urlsplit ------------------------------------------------------------------------------------
def _has_eps(rx):
    from vt.strlang_ext import in_lang, to_z3
    return in_lang(to_z3(rx), '')


def _literals(rx):
    """list of strings if rx is a finite union of literal strings, else None"""
    if rx.op == 'eps':
        return ['']
    if rx.op == 'set':
        rs = rx.a[0]
        if len(rs) == 1 and rs[0][0] == rs[0][1]:
            return [chr(rs[0][0])]
        return None
    if rx.op == 'cat':
        out = ''
        for c in rx.a[0]:
            l = _literals(c)
            if l is None or len(l) != 1:
                return None
            out += l[0]
        return [out]
    if rx.op == 'alt':
        out = []
        for c in rx.a[0]:
            l = _literals(c)
            if l is None:
                return None
            out += l
        return out
    return None


def urlsplit_netloc_lang(R):
    """{ s : urlsplit(s) does not raise and urlsplit(s).netloc in L(R) }   (CPython 3.12 urlsplit:
    lstrip C0/space, remove TAB/CR/LF, optional scheme = ALPHA SCH* ':' up to the first ':', netloc only
    after a leading '//', ends at the first of / ? #).  Netlocs containing '[' or ']' are modelled as
    rejected (exact when R contains no bracket).  Every word of the un-erased body starts with a
    non-strippable character, hence STRIP* . erase_preimage(body) is exact."""
    lits = _literals(R)
    safe = NLSAFE().a[0]
    if lits is not None and all(strlang.rs_contains(safe, ord(c)) for w in lits for c in w):
        nl = R
    else:
        nl = inter(R, star(NLSAFE()))
    end = alt(EPS(), cat(cset('/?#'), ALL()))
    rest = cat(lit('//'), nl, end)
    scheme = cat(ALPHA, star(SCH), lit(':'))
    if not _has_eps(R):
        body = cat(opt(scheme), rest)       # a word starting with '/' never has a scheme
    else:
        rest2 = compl(cat(lit('//'), ALL()))
        body = alt(cat(scheme, alt(rest, rest2)), rest,
                   inter(compl(cat(scheme, ALL())), rest2, alt(EPS(), cat(NOTSTRIP, ALL()))))
    return cat(star(STRIP), erase_preimage(body, T))


def hostname_netlocs(R):
    """netloc values whose SplitResult.hostname is in L(R) (bracket-free netlocs): hostname = text after the
    last '@' up to the first ':', lower-cased (None when empty, which is in no language)."""
    hch = Rx('set', rs_minus(NLSAFE().a[0], ((ord('@'), ord('@')), (ord(':'), ord(':')))))
    noat = Rx('set', rs_minus(NLSAFE().a[0], ((ord('@'), ord('@')),)))
    h = inter(map_preimage(R, lower_inverse), plus(hch))
    return cat(opt(cat(star(NLSAFE()), lit('@'))), h, opt(cat(lit(':'), star(noat))))


# ---- WHATWG URL parser: independent state-machine transcription (reference for the regex model) --------
_FORBIDDEN_HOST = set('\x00\t\n\r #/:<>?@[\\]^|')
_FORBIDDEN_DOMAIN = _FORBIDDEN_HOST | {chr(c) for c in range(0x20)} | {'%', '\x7f'}
_SCHEME_CHARS = set('abcdefghijklmnopqrstuvwxyzABCDEFGHIJKLMNOPQRSTUVWXYZ0123456789+-.')


def _ends_in_number(host):
    parts = host.split('.')
    if parts[-1] == '':
        if len(parts) == 1:
            return False
        parts.pop()
    last = parts[-1]
    if last and all(c in '0123456789' for c in last):
        return True
    if last[:2].lower() == '0x' and all(c in '0123456789abcdefABCDEF' for c in last[2:]):
        return True
    return False


def _host_parse(buf, special):
    if buf.startswith('['):
        return ('unknown', 'ipv6')
    if not buf.isascii():
        return ('unknown', 'idna')
    if not special:
        if any(c in _FORBIDDEN_HOST for c in buf):
            return ('fail', 'forbidden host code point')
        return ('host', buf)
    if '%' in buf:
        return ('unknown', 'percent-encoded host')
    low = buf.lower()
    if any(lab.startswith('xn--') for lab in low.split('.')):
        return ('unknown', 'punycode')
    if low == '':
        return ('fail', 'empty host')
    if any(c in _FORBIDDEN_DOMAIN for c in low):
        return ('fail', 'forbidden domain code point')
    if _ends_in_number(low):
        return ('unknown', 'ipv4')
    return ('host', low)


def _authority(rest, special):
    end = len(rest)
    for i, c in enumerate(rest):
        if c in '/?#' or (special and c == '\\'):
            end = i
            break
    buf = rest[:end]
    at = buf.rfind('@')
    hostport = buf[at + 1:] if at >= 0 else buf
    if at >= 0 and hostport == '':
        return ('fail', 'credentials without host')
    # host state: first ':' outside brackets
    host, port = hostport, None
    inside = False
    for i, c in enumerate(hostport):
        if c == '[':
            inside = True
        elif c == ']':
            inside = False
        elif c == ':' and not inside:
            host, port = hostport[:i], hostport[i + 1:]
            break
    if host == '' and (special or port is not None):
        return ('fail', 'empty host')
    if port is not None:
        if any(c not in '0123456789' for c in port):
            return ('fail', 'bad port')
        if port and int(port) > 65535:
            return ('fail', 'port out of range')
    return _host_parse(host, special)


def browser_target(inp, base_scheme, base_host):
    """What the WHATWG basic URL parser does with `inp` against a base `<base_scheme>://<base_host>/…`
    (base_scheme special, not file).  Returns (kind, scheme, host_or_reason):
      ('host', scheme, host)   parsed, host decided          ('nohost', scheme, None)  URL without authority
      ('fail', None, reason)   parse failure (no navigation) ('unknown', scheme, reason) outside this model."""
    s = inp.strip(''.join(chr(c) for c in range(0x21)))
    s = s.replace('\t', '').replace('\n', '').replace('\r', '')
    scheme = None
    rest = s
    if s and s[0].isascii() and s[0].isalpha():
        j = 1
        while j < len(s) and s[j] in _SCHEME_CHARS:
            j += 1
        if j < len(s) and s[j] == ':':
            scheme, rest = s[:j].lower(), s[j + 1:]

    def ignore_slashes(r, sch):
        k = 0
        while k < len(r) and r[k] in '/\\':
            k += 1
        kind, val = _authority(r[k:], True)
        return (kind, sch if kind != 'fail' else None, val)

    def relative(r):
        if r[:1] in ('/', '\\') and r[1:2] in ('/', '\\'):
            return ignore_slashes(r[2:], base_scheme)
        return ('host', base_scheme, base_host)

    if scheme is None:
        return relative(s)
    if scheme == 'file':
        if rest[:1] in ('/', '\\') and rest[1:2] in ('/', '\\'):
            r = rest[2:]
            end = len(r)
            for i, c in enumerate(r):
                if c in '/\\?#':
                    end = i
                    break
            buf = r[:end]
            if len(buf) == 2 and buf[0].isascii() and buf[0].isalpha() and buf[1] in ':|':
                return ('host', 'file', '')
            if buf == '':
                return ('host', 'file', '')
            kind, val = _host_parse(buf, True)
            if kind == 'host' and val == 'localhost':
                val = ''
            return (kind, 'file' if kind != 'fail' else None, val)
        return ('host', 'file', '')
    if scheme in SPECIAL:
        if scheme == base_scheme:
            if rest.startswith('//'):
                return ignore_slashes(rest[2:], scheme)
            return relative(rest)
        return ignore_slashes(rest, scheme)
    # non-special
    if rest.startswith('//'):
        kind, val = _authority(rest[2:], False)
        return (kind, scheme if kind != 'fail' else None, val)
    return ('nohost', scheme, None)


# ---- WHATWG URL parser as regular languages ---------------------------------------------------------
def _whatwg_pre(X):
    """{ s : remove_TABCRLF(strip_C0space(s)) in L(X) }"""
    # words of X that neither start nor end with a strippable character; T is a subset of STRIP, so
    # STRIP* . erase_preimage(X') . STRIP* is exactly the set above
    Xp = inter(X, alt(EPS(), NOTSTRIP, cat(NOTSTRIP, ALL(), NOTSTRIP)))
    return cat(star(STRIP), erase_preimage(Xp, T), star(STRIP))


def _auth_special(h):
    """authority buffers (special schemes) that certainly give host h: optional credentials, ASCII
    case-insensitive h, optional port of at most 4 digits; followed by end or one of / \\ ? #."""
    userinfo = cat(star(nset('/\\?#')), lit('@'))
    port = cat(lit(':'), loop(DIGIT, 0, 4))
    return cat(opt(userinfo), ci(h), opt(port), alt(EPS(), cat(cset('/\\?#'), ALL())))


def _scheme_any():
    return cat(ALPHA, star(SCH), lit(':'))


def browser_lands_lang(h, base_scheme, base_host):
    """Strings for which a browser certainly ends on host h with a special scheme (under-approximation
    of the WHATWG parser: IDNA/percent-encoded spellings of h and 5-digit ports are left out)."""
    others = [s for s in SPECIAL if s not in (base_scheme, 'file')]
    x = [
        cat(ci(base_scheme), lit(':'), SL, SL, star(SL), _auth_special(h)),
        cat(alt(*[ci(s) for s in others]), lit(':'), star(SL), _auth_special(h)),
        inter(compl(cat(_scheme_any(), ALL())), cat(SL, SL, star(SL), _auth_special(h))),
        cat(ci('file'), lit(':'), SL, SL, ci(h), alt(EPS(), cat(cset('/\\?#'), ALL()))),
    ]
    if h == base_host:
        two = cat(SL, SL, ALL())
        x.append(inter(compl(cat(_scheme_any(), ALL())), compl(two)))
        x.append(cat(ci(base_scheme), lit(':'), compl(two)))
    return _whatwg_pre(alt(*x))


def nonspecial_scheme_lang():
    """Strings a browser parses with a non-special scheme (javascript:, foo:, data:, …)."""
    sp = alt(*[cat(ci(s), lit(':')) for s in SPECIAL])
    return _whatwg_pre(inter(cat(_scheme_any(), ALL()), compl(cat(sp, ALL()))))


def nonspecial_host_lang(h):
    """Non-special-scheme URLs whose authority host is exactly h (opaque host; '\\' is not a delimiter)."""
    userinfo = cat(star(nset('/?#')), lit('@'))
    port = cat(lit(':'), loop(DIGIT, 0, 4))
    sp = alt(*[cat(ci(s), lit(':')) for s in SPECIAL])
    x = inter(cat(_scheme_any(), lit('//'), opt(userinfo), lit(h), opt(port), alt(EPS(), cat(cset('/?#'), ALL()))),
              compl(cat(sp, ALL())))
    return _whatwg_pre(x)


# ---- the real validator, from its AST --------------------------------------------------------------
class Component:
    def __init__(self, kind):
        self.kind = kind


class ValidatorTranslator:
    """`validate_next_page_url(x)`-shaped functions: a sequence of `if TEST: raise`, assignments of
    expressions that do not mention the parameter (evaluated concretely in the real module namespace with
    the deployment under test), and assignments `v = urlparse(x).netloc|hostname` (symbolic component).
    Negations are pushed down to the atoms; an atom over a component becomes `urlsplit_netloc_lang(R)`
    for a regex R over netloc values (every string on which urlsplit does not raise has exactly one netloc)."""

    def __init__(self, fn, env):
        self.fn = fn
        self.arg = fn.args.args[0].arg
        self.env = dict(env)
        self.loc = {}
        self.sym = {}
        self.concrete = {}      # name -> concretely evaluated value (reported)
        self._lifted = []

    def mentions_arg(self, node):
        return any(isinstance(n, ast.Name) and (n.id == self.arg or n.id in self.sym) for n in ast.walk(node))

    def concrete_eval(self, node):
        try:
            return eval(compile(ast.Expression(node), '<C29>', 'eval'), self.env, dict(self.loc))
        except Exception as e:  # noqa: BLE001
            raise HarnessError(f'cannot evaluate {ast.unparse(node)} concretely: {e}')

    def component(self, node):
        if isinstance(node, ast.Attribute) and node.attr in ('netloc', 'hostname') and isinstance(node.value, ast.Call) \
                and isinstance(node.value.func, ast.Name) and node.value.func.id in ('urlparse', 'urlsplit') \
                and len(node.value.args) == 1 and not node.value.keywords \
                and isinstance(node.value.args[0], ast.Name) and node.value.args[0].id == self.arg:
            return Component(node.attr)
        if isinstance(node, ast.Name) and node.id in self.sym:
            return self.sym[node.id]
        return None

    def lift(self, comp, R, neg):
        nl = R if comp.kind == 'netloc' else hostname_netlocs(R)
        out = urlsplit_netloc_lang(compl(nl) if neg else nl)
        self._lifted.append(out)
        return out

    def strs(self, v):
        if isinstance(v, str):
            return [v]
        if isinstance(v, (list, tuple, set, frozenset)) and all(isinstance(x, str) for x in v):
            return list(v)
        raise HarnessError(f'expected str or collection of str, got {v!r}')

    def truthy(self, e, neg=False):
        """language of inputs (among those on which no urlparse call raises) making e truthy (falsy if neg)"""
        if isinstance(e, ast.UnaryOp) and isinstance(e.op, ast.Not):
            return self.truthy(e.operand, not neg)
        if isinstance(e, ast.BoolOp):
            parts = [self.truthy(v, neg) for v in e.values]
            return alt(*parts) if isinstance(e.op, ast.Or) != neg else inter(*parts)
        if isinstance(e, ast.Name) and e.id == self.arg:
            return EPS() if neg else cat(Rx('set', ((0, strlang.PYMAX),)), ALL())
        if not self.mentions_arg(e):
            return ALL() if bool(self.concrete_eval(e)) != neg else EMPTY()
        if isinstance(e, ast.Compare) and len(e.ops) == 1:
            l, op, r = e.left, e.ops[0], e.comparators[0]
            cl, cr = self.component(l), self.component(r)
            if cl is not None and not self.mentions_arg(r):
                val = self.concrete_eval(r)
                if isinstance(op, (ast.In, ast.NotIn)):
                    if isinstance(val, str):
                        subs = {val[i:j] for i in range(len(val) + 1) for j in range(i, len(val) + 1)}
                        R = alt(*[lit(s) for s in sorted(subs)])
                    else:
                        R = alt(*[lit(s) for s in self.strs(val)]) if val else EMPTY()
                    return self.lift(cl, R, isinstance(op, ast.NotIn) != neg)
                if isinstance(op, (ast.Eq, ast.NotEq)) and isinstance(val, str):
                    return self.lift(cl, lit(val), isinstance(op, ast.NotEq) != neg)
            if cr is not None and not self.mentions_arg(l) and isinstance(op, (ast.In, ast.NotIn)):
                val = self.concrete_eval(l)
                if isinstance(val, str):
                    return self.lift(cr, cat(ALL(), lit(val), ALL()), isinstance(op, ast.NotIn) != neg)
        if isinstance(e, ast.Call):
            f = e.func
            if isinstance(f, ast.Attribute) and f.attr in ('endswith', 'startswith') and len(e.args) == 1 \
                    and not self.mentions_arg(e.args[0]):
                c = self.component(f.value)
                if c is not None:
                    vals = self.strs(self.concrete_eval(e.args[0]))
                    if f.attr == 'endswith':
                        R = alt(*[cat(ALL(), lit(v)) for v in vals])
                    else:
                        R = alt(*[cat(lit(v), ALL()) for v in vals])
                    return self.lift(c, R, neg)
            if isinstance(f, ast.Name) and f.id in ('any', 'all') and len(e.args) == 1 \
                    and isinstance(e.args[0], ast.GeneratorExp) and len(e.args[0].generators) == 1:
                g = e.args[0].generators[0]
                if not g.ifs and isinstance(g.target, ast.Name) and not self.mentions_arg(g.iter):
                    items = list(self.concrete_eval(g.iter))
                    parts = []
                    for it in items:
                        saved = dict(self.loc)
                        self.loc[g.target.id] = it
                        parts.append(self.truthy(e.args[0].elt, neg))
                        self.loc = saved
                    if (f.id == 'any') != neg:
                        return alt(*parts) if parts else EMPTY()
                    return inter(*parts) if parts else ALL()
        raise HarnessError(f'validator test not in the translatable subset: {ast.unparse(e)}')

    def accepted(self):
        """language of strings for which the function returns without raising"""
        conj = []
        parsed = False
        for st in self.fn.body:
            if isinstance(st, ast.Expr) and isinstance(st.value, ast.Constant):
                continue
            if isinstance(st, ast.Assign) and len(st.targets) == 1 and isinstance(st.targets[0], ast.Name):
                name = st.targets[0].id
                comp = self.component(st.value)
                if comp is not None:
                    self.sym[name] = comp
                    parsed = True
                    continue
                if self.mentions_arg(st.value):
                    raise HarnessError(f'assignment not in the translatable subset: {ast.unparse(st)}')
                self.loc[name] = self.concrete_eval(st.value)
                self.concrete[name] = self.loc[name]
                continue
            if isinstance(st, ast.If) and not st.orelse and len(st.body) == 1 and isinstance(st.body[0], ast.Raise):
                conj.append(self.truthy(st.test, neg=True))
                continue
            raise HarnessError(f'statement not in the translatable subset: {ast.unparse(st)}')
        conj = [c for c in conj if c.op != 'all']
        if parsed and not any(c is l for c in conj for l in self._lifted):
            # the urlparse call itself may raise ValueError: such inputs leave the accepted set
            conj.append(urlsplit_netloc_lang(ALL()))
        if not conj:
            return ALL()
        return inter(*conj)
