"""E3 `pyk`: a small symbolic evaluator for numeric Python kernels (AST -> z3 / SMT-LIB2 terms).

The real function is parsed from /repo (or taken from the real module via `inspect`) on every run and
evaluated over *terms*:

  Python int      -> signed (_ BitVec W) with a no-overflow side condition for every operation
                     (so a verdict holds for Python's unbounded ints or is flagged as "range exceeded")
  float           -> Float64, roundNearestTiesToEven; int(x) -> fp.to_sbv RTZ; math.ceil/floor -> RTP/RTN;
                     a/b on ints -> fp.div of the exactly converted operands (side condition |a|,|b| <= 2^53)
  Fraction/Decimal-> exact rational num/den with a symbolic numerator and a concrete denominator
  bool            -> Bool
  float("<decimal numeral>") is `SDecStr(N, k)`: fp.div RNE (to_fp N) (to_fp 10^k) — the correctly rounded
                     quotient of two exactly representable numbers IS the correctly rounded decimal
                     (N < 2^53, k <= 22 are side conditions)

`int_mode='int'` maps Python ints to SMT Int instead (no bit operations, no floats; `//` and `%` become fresh variables
defined by multiplication axioms, so the queries are QF_NIA); `ceil_cut` reads math.ceil(a / b) on ints as the integer
ceiling and records the instances in `Interp.lemmas` (the caller owes the Float64 lemma that justifies it).

Strings: `SStr` is a string with a concrete spelling SHAPE (literal pieces and numerals; digit counts known or
not) and symbolic digit values; str methods, `in`, len, slicing, ==, int()/float()/Fraction()/Decimal() are decided
per shape by running the real str method / converter on several renderings and requiring one structural answer
(`s.partition('.')` gives N div 10^k and N mod 10^k as numerals); a shape on which Python raises follows the raise.

Everything that is not numeric (match objects, dict look-ups with concrete keys, list.append, attribute
access on real objects, nested defs, classes of the real module) is evaluated concretely / structurally.
Branches on symbolic conditions fork: `Interp.explore(thunk)` re-executes the kernel once per feasible
decision vector (feasibility by z3 with a short timeout; "unknown" is explored).  Loops are unwound up
to `max_unwind`; a path that would need more iterations ends with outcome 'unwind' and the caller has
to prove it infeasible (unwinding assertion).

`float_mode='exact'` reads every float operation as exact rational arithmetic (used to separate
"wrong in exact arithmetic" from "binary floating point artefact").
"""
import ast
import builtins
import fractions
import decimal
import inspect
import math
import os
import signal
import struct
import subprocess
import tempfile
import textwrap
import time
import types

import z3

from .common import HarnessError
from . import smt as _smt

F64 = z3.Float64()
RNE = z3.RNE()


# ---- symbolic values ------------------------------------------------------------------------------
class SInt:
    __slots__ = ('t',)

    def __init__(self, t):
        self.t = t

    def __repr__(self):
        return f'SInt({self.t})'


class SFloat:
    __slots__ = ('t',)

    def __init__(self, t):
        self.t = t

    def __repr__(self):
        return f'SFloat({self.t})'


class SBool:
    __slots__ = ('t',)

    def __init__(self, t):
        self.t = t

    def __repr__(self):
        return f'SBool({self.t})'


class SRat:
    """num/den, num a signed BV term, den a positive Python int."""
    __slots__ = ('num', 'den')

    def __init__(self, num, den):
        assert den > 0
        self.num = num
        self.den = den

    def __repr__(self):
        return f'SRat({self.num}/{self.den})'


class SDecStr:
    """The decimal numeral whose digits (integer part followed by k fractional digits) spell N >= 0.
    `int_digits`: number of digits of the integer part when the spelling fixes it (0 = empty integer part, ".5"),
    None = unknown but >= 1 (any number of leading zeros).  With k == 0 it is a plain digit run."""
    __slots__ = ('n', 'k', 'int_digits', 'parent', 'role', '_ip', '_fp')

    def __init__(self, n, k, int_digits=None):
        self.n = n  # SInt
        self.k = k
        self.int_digits = int_digits
        self.parent = None
        self.role = None
        self._ip = None
        self._fp = None
        if k == 0 and int_digits == 0:
            raise HarnessError('pyk: empty digit run')

    def __repr__(self):
        return f'SDecStr({self.n}, k={self.k}, int_digits={self.int_digits})'


class SStr:
    """A string whose spelling SHAPE is concrete and whose digits are symbolic: a concatenation of literal pieces
    (str) and numerals (SDecStr).  String operations are decided per shape by running the REAL str method on two
    renderings (unknown digit counts rendered with two different lengths) and requiring the same structural result."""
    __slots__ = ('parts',)

    def __init__(self, parts):
        self.parts = parts

    def __repr__(self):
        return f'SStr({self.parts})'


class StrMethod:
    def __init__(self, obj, name):
        self.obj = obj
        self.name = name


class SymObj:
    """Instance of a real (pure Python) class whose __init__/properties are interpreted."""

    def __init__(self, cls):
        self.cls = cls
        self.fields = {}

    def __repr__(self):
        return f'SymObj<{self.cls.__name__}>({self.fields})'


class Opaque:
    """Result of an opaque constructor (e.g. hl.Interval): just records its arguments."""

    def __init__(self, tag, args, kwargs):
        self.tag = tag
        self.args = args
        self.kwargs = kwargs

    def __repr__(self):
        return f'{self.tag}({self.args}, {self.kwargs})'


class Closure:
    def __init__(self, node, env, globs, name=None):
        self.node = node
        self.env = env
        self.globs = globs
        self.name = name or getattr(node, 'name', '<lambda>')


class BoundMethod:
    def __init__(self, fn, obj):
        self.fn = fn
        self.obj = obj


class Env:
    def __init__(self, parent=None):
        self.vars = {}
        self.parent = parent

    def lookup(self, name):
        e = self
        while e is not None:
            if name in e.vars:
                return True, e.vars[name]
            e = e.parent
        return False, None


class Path:
    def __init__(self, pc, side, kind, value, trace):
        self.pc = pc            # list of z3 Bool: branch conditions taken
        self.side = side        # list of z3 Bool: encoding-soundness side conditions (no overflow, exactness)
        self.kind = kind        # 'return' | 'raise' | 'unwind'
        self.value = value      # returned value | (exception type name, message)
        self.trace = trace

    def __repr__(self):
        return f'Path({self.kind}, {self.value}, pc={len(self.pc)}, side={len(self.side)})'


class _Return(Exception):
    def __init__(self, v):
        self.v = v


class _Break(Exception):
    pass


class _Continue(Exception):
    pass


class PyRaise(Exception):
    def __init__(self, typ, msg=''):
        self.typ = typ
        self.msg = msg


class _Unwind(Exception):
    pass


class _Infeasible(Exception):
    pass


class _NeedFork(Exception):
    pass


def is_sym(v):
    return isinstance(v, (SInt, SFloat, SBool, SRat, SDecStr, SStr))


def native(fn):
    """Mark a harness-side Python callable as "call natively, even with symbolic arguments"."""
    fn._pyk_native = True
    return fn


_AST_CACHE = {}


def function_ast(fn):
    """FunctionDef node of a real Python function object (source re-read through inspect)."""
    key = (fn.__code__.co_filename, fn.__code__.co_firstlineno, fn.__qualname__)
    if key not in _AST_CACHE:
        try:
            src = textwrap.dedent(inspect.getsource(fn))
            tree = ast.parse(src)
        except (OSError, TypeError, SyntaxError) as e:
            raise HarnessError(f'pyk: cannot get source of {fn.__qualname__}: {e}')
        node = tree.body[0]
        if not isinstance(node, ast.FunctionDef):
            raise HarnessError(f'pyk: {fn.__qualname__} is not a plain function')
        _AST_CACHE[key] = (node, src)
    return _AST_CACHE[key]


# ---- the interpreter ------------------------------------------------------------------------------
class Interp:
    def __init__(self, width=64, float_mode='fp64', max_unwind=80, feas_timeout_ms=3000, opaque=None,
                 intrinsics=None, interpret_classes=(), max_paths=4000, on_function=None, ceil_cut=False,
                 int_mode='bv'):
        self.W = width
        self.int_mode = int_mode                  # 'bv': signed BitVec W + overflow side conditions; 'int': SMT Int (no bit
        self.fresh = 0                            # operations, no floats), // and % defined by multiplication axioms (NIA)
        self.ceil_cut = ceil_cut                  # read math.ceil(a / b) on ints as the integer ceiling; instances
        self.lemmas = []                          # recorded here as (a, b) and justified by an FP lemma of the caller
        self.float_mode = float_mode
        self.max_unwind = max_unwind
        self.feas_timeout_ms = feas_timeout_ms
        self.opaque = dict(opaque or {})          # id(callable) -> tag  (records arguments)
        self.user_intrinsics = dict(intrinsics or {})  # id(callable) -> handler(interp, args, kwargs)
        self.interpret_classes = set(interpret_classes)
        self.max_paths = max_paths
        self.on_function = on_function            # callback(fn_or_node, source) for R.encode
        self.pre = []
        self.pc = []
        self.side = []
        self.guards = []
        self.nofork = 0
        self.trace = []
        self.prefix = []
        self.work = []
        self.feas_queries = 0
        self.glob_overrides = {}                  # id(module __dict__) -> dict to use instead (stubs in a module's namespace)
        self.MIN = -(1 << (width - 1))
        self.MAX = (1 << (width - 1)) - 1

    # -- term helpers -------------------------------------------------------------------------------
    def bv(self, c):
        if self.int_mode == 'int':
            return z3.IntVal(c)
        if not (self.MIN <= c <= self.MAX):
            raise HarnessError(f'pyk: constant {c} does not fit the {self.W}-bit integer encoding')
        return z3.BitVecVal(c, self.W)

    def int_var(self, name):
        if self.int_mode == 'int':
            return SInt(z3.Int(name))
        return SInt(z3.BitVec(name, self.W))

    def _int_div(self, a, b):
        """Int mode: Python floor division as a fresh variable defined by multiplication (goes into the path condition)."""
        self.fresh += 1
        q = z3.Int(f'q!{self.fresh}')
        self.pc.append(z3.And(z3.Implies(b > 0, z3.And(q * b <= a, a < q * b + b)),
                              z3.Implies(b < 0, z3.And(q * b >= a, a > q * b + b))))
        # implied sign/size facts (redundant; they spare the NIA solver a search)
        self.pc.append(z3.Implies(b > 0, z3.And(z3.Implies(a < 0, z3.And(q < 0, q >= a)),
                                                z3.Implies(a >= 0, z3.And(q >= 0, q <= a)))))
        return q

    def bool_var(self, name):
        return SBool(z3.Bool(name))

    def it(self, v):
        """value -> BV term (ints and bools only)"""
        if isinstance(v, SInt):
            return v.t
        if isinstance(v, SBool):
            return z3.If(v.t, self.bv(1), self.bv(0))
        if isinstance(v, bool):
            return self.bv(int(v))
        if isinstance(v, int):
            return self.bv(v)
        raise HarnessError(f'pyk: expected an int, got {type(v).__name__}')

    def add_side(self, cond, what=''):
        if z3.is_true(z3.simplify(cond)):   # keep the unsimplified term: simplify introduces bvsdiv_i etc.
            return
        if self.guards:
            cond = z3.Implies(z3.And(*self.guards) if len(self.guards) > 1 else self.guards[0], cond)
        self.side.append(cond)

    def assume(self, cond):
        self.pre.append(cond.t if isinstance(cond, SBool) else cond)

    def in_range(self, t, lo, hi):
        if self.int_mode == 'int':
            return z3.And(t >= lo, t <= hi)
        return z3.And(t >= self.bv(max(lo, self.MIN)), t <= self.bv(min(hi, self.MAX)))

    # -- exploration --------------------------------------------------------------------------------
    def feasible(self, cond):
        self.feas_queries += 1
        s = z3.Solver()
        s.set('timeout', self.feas_timeout_ms)
        s.add(*self.pre)
        s.add(*self.pc)
        s.add(cond)
        return str(s.check()) != 'unsat'

    def branch(self, cond):
        """Decide a symbolic branch; forks the exploration when both sides are feasible."""
        if isinstance(cond, bool):
            return cond
        sc = z3.simplify(cond)
        if z3.is_true(sc):
            return True
        if z3.is_false(sc):
            return False
        if self.nofork:
            raise _NeedFork()
        i = len(self.trace)
        if i < len(self.prefix):
            d = self.prefix[i]
        else:
            ft = self.feasible(cond)
            ff = self.feasible(z3.Not(cond))
            if ft and ff:
                d = True
                self.work.append(self.trace + [False])
            elif ft:
                d = True
            elif ff:
                d = False
            else:
                raise _Infeasible()
        self.trace.append(d)
        self.pc.append(cond if d else z3.Not(cond))
        return d

    def explore(self, thunk):
        """Run `thunk(self)` once per feasible decision vector; returns the list of Paths."""
        paths = []
        self.work = [[]]
        while self.work:
            if len(paths) > self.max_paths:
                raise HarnessError('pyk: path budget exceeded')
            self.prefix = self.work.pop()
            self.fresh = 0
            self.trace = []
            self.pc = []
            self.side = []
            self.guards = []
            self.nofork = 0
            try:
                v = thunk(self)
                paths.append(Path(self.pc, self.side, 'return', v, self.trace))
            except _Return as r:
                paths.append(Path(self.pc, self.side, 'return', r.v, self.trace))
            except PyRaise as e:
                paths.append(Path(self.pc, self.side, 'raise', (e.typ, e.msg), self.trace))
            except _Unwind:
                paths.append(Path(self.pc, self.side, 'unwind', None, self.trace))
            except _Infeasible:
                pass
        return paths

    # -- truthiness / conversions -------------------------------------------------------------------
    def truth(self, v):
        """value -> Python bool or z3 Bool"""
        if isinstance(v, SBool):
            return v.t
        if isinstance(v, SInt):
            return v.t != self.bv(0)
        if isinstance(v, SFloat):
            return z3.Not(z3.fpIsZero(v.t))
        if isinstance(v, SRat):
            return v.num != self.bv(0)
        if isinstance(v, (SymObj, Opaque, Closure, BoundMethod)):
            return True
        if isinstance(v, (SDecStr, SStr)):
            return True      # mkstr never builds an empty symbolic string
        return bool(v)

    def to_float(self, v):
        """int/float/rational value -> SFloat (fp64 mode) or SRat (exact mode) or concrete float"""
        if isinstance(v, SFloat):
            return v
        if self.float_mode == 'exact':
            if isinstance(v, SRat):
                return v
            if isinstance(v, (SInt, SBool)):
                return SRat(self.it(v), 1)
            if isinstance(v, (SDecStr, SStr)):
                sg, n, k = self.numeric_view(v, float)
                return SRat(n if sg > 0 else -n, 10 ** k)
            if isinstance(v, (int, float, fractions.Fraction)):
                return fractions.Fraction(v)
            raise HarnessError(f'pyk: float() of {type(v).__name__}')
        if isinstance(v, (SInt, SBool)):
            if self.int_mode == 'int':
                raise HarnessError('pyk: int -> float conversion is not available in Int mode')
            return SFloat(z3.fpSignedToFP(RNE, self.it(v), F64))
        if isinstance(v, (SDecStr, SStr)):
            sg, n, k = self.numeric_view(v, float)
            if self.int_mode == 'int':
                raise HarnessError('pyk: float() of a numeral is not available in Int mode')
            self.add_side(self.in_range(n, 0, (1 << 53) - 1), 'decimal digits < 2^53')
            if k > 22:
                raise HarnessError('pyk: more than 22 fractional digits')
            x = z3.fpSignedToFP(RNE, n, F64)
            if k:
                x = z3.fpDiv(RNE, x, z3.FPVal(float(10 ** k), F64))
            return SFloat(x if sg > 0 else z3.fpNeg(x))
        if isinstance(v, (int, float)):
            return float(v)
        raise HarnessError(f'pyk: float() of {type(v).__name__}')

    def fp(self, v):
        """value -> FP term"""
        v = self.to_float(v)
        if isinstance(v, SFloat):
            return v.t
        return z3.FPVal(v, F64)

    def fp_to_int(self, x, rm, what):
        """Python int(x)/ceil/floor of a float term: raises on nan/inf in Python; must fit W bits here."""
        lim = float(2 ** (self.W - 2))
        self.add_side(z3.And(z3.Not(z3.fpIsNaN(x)), z3.Not(z3.fpIsInf(x)),
                             z3.fpLT(x, z3.FPVal(lim, F64)), z3.fpGT(x, z3.FPVal(-lim, F64))), what)
        return SInt(z3.fpToSBV(rm, x, z3.BitVecSort(self.W)))

    # -- integer arithmetic with overflow side conditions -------------------------------------------
    def _noovf_add(self, a, b, r):
        # signed overflow iff operands share a sign and the result's sign differs
        sa, sb, sr = a < 0, b < 0, r < 0
        self.add_side(z3.Not(z3.And(sa == sb, sr != sa)), 'add overflow')

    def i_add(self, a, b):
        r = a + b
        if self.int_mode != 'int':
            self._noovf_add(a, b, r)
        return r

    def i_sub(self, a, b):
        r = a - b
        if self.int_mode == 'int':
            return r
        sa, sb, sr = a < 0, b < 0, r < 0
        self.add_side(z3.Not(z3.And(sa != sb, sr != sa)), 'sub overflow')
        return r

    def i_mul(self, a, b, ca=None, cb=None):
        """ca/cb: concrete Python value of an operand when known (cheap exact range condition)."""
        if self.int_mode == 'int':
            return (a if ca is None else z3.IntVal(ca)) * (b if cb is None else z3.IntVal(cb))
        if ca is not None and cb is None:
            a, b, ca, cb = b, a, cb, ca
        if cb is not None:
            if cb == 0:
                return self.bv(0)
            # conservative: |a| <= MAX // |cb|
            m = self.MAX // abs(cb)
            self.add_side(z3.And(a >= self.bv(-m), a <= self.bv(m)), 'mul overflow')
            return a * self.bv(cb)
        h = 1 << (self.W // 2 - 1)
        self.add_side(z3.And(a >= self.bv(-h), a < self.bv(h), b >= self.bv(-h), b < self.bv(h)), 'mul overflow')
        return a * b

    def i_floordiv(self, a, b):
        if self.branch(b == self.bv(0)):
            raise PyRaise('ZeroDivisionError', 'integer division or modulo by zero')
        if self.int_mode == 'int':
            return self._int_div(a, b)
        self.add_side(z3.Not(z3.And(a == self.bv(self.MIN), b == self.bv(-1))), 'div overflow')
        q = a / b  # bvsdiv: truncation
        r = z3.SRem(a, b)
        return z3.If(z3.And(r != self.bv(0), (r < 0) != (b < 0)), q - self.bv(1), q)

    def i_mod(self, a, b):
        if self.branch(b == self.bv(0)):
            raise PyRaise('ZeroDivisionError', 'integer division or modulo by zero')
        if self.int_mode == 'int':
            return a - b * self._int_div(a, b)
        r = z3.SRem(a, b)
        return z3.If(z3.And(r != self.bv(0), (r < 0) != (b < 0)), r + b, r)

    def i_shl(self, a, s, cs=None):
        if cs is not None:
            if cs < 0:
                raise PyRaise('ValueError', 'negative shift count')
            if cs >= self.W - 1 and self.int_mode != 'int':
                raise HarnessError('pyk: shift wider than the integer encoding')
            return self.i_mul(a, None, None, 1 << cs)
        if self.int_mode == 'int':
            raise HarnessError('pyk: symbolic shift amount in Int mode')
        if self.branch(s < 0):
            raise PyRaise('ValueError', 'negative shift count')
        self.add_side(z3.And(s < self.bv(self.W - 1), ((a << s) >> s) == a), 'shift overflow')
        return a << s

    def i_shr(self, a, s, cs=None):
        if cs is not None:
            if cs < 0:
                raise PyRaise('ValueError', 'negative shift count')
            if self.int_mode == 'int':
                return self._int_div(a, z3.IntVal(1 << cs))
            return a >> self.bv(min(cs, self.W - 1))
        if self.branch(s < 0):
            raise PyRaise('ValueError', 'negative shift count')
        return a >> z3.If(s > self.bv(self.W - 1), self.bv(self.W - 1), s)

    # -- rationals ----------------------------------------------------------------------------------
    def rat(self, v):
        if isinstance(v, SRat):
            return v
        if isinstance(v, (SInt, SBool)):
            return SRat(self.it(v), 1)
        if isinstance(v, (SDecStr, SStr)):
            sg, n, k = self.numeric_view(v, fractions.Fraction)
            return SRat(n if sg > 0 else -n, 10 ** k)
        if isinstance(v, bool):
            v = int(v)
        if isinstance(v, (int, fractions.Fraction)):
            return fractions.Fraction(v)
        if isinstance(v, decimal.Decimal):
            return fractions.Fraction(v)
        if isinstance(v, float):
            return fractions.Fraction(v)
        raise HarnessError(f'pyk: rational of {type(v).__name__}')

    def r_mul_c(self, r, c):
        """SRat times concrete Fraction"""
        c = fractions.Fraction(c)
        if c == 0:
            return fractions.Fraction(0)
        n, d = c.numerator, c.denominator
        g = math.gcd(abs(n), r.den)
        n //= g
        den = (r.den // g) * d
        num = self.i_mul(r.num, None, None, n) if n != 1 else r.num
        return SRat(num, den)

    def r_binop(self, op, a, b):
        a, b = self.rat(a), self.rat(b)
        if isinstance(a, fractions.Fraction) and isinstance(b, fractions.Fraction):
            return {'+': a + b, '-': a - b, '*': a * b}[op] if op != '/' else a / b
        if op == '*':
            if isinstance(b, fractions.Fraction):
                return self.r_mul_c(a, b)
            if isinstance(a, fractions.Fraction):
                return self.r_mul_c(b, a)
            return SRat(self.i_mul(a.num, b.num), a.den * b.den)
        if op == '/':
            if isinstance(b, fractions.Fraction):
                if b == 0:
                    raise PyRaise('ZeroDivisionError', 'division by zero')
                return self.r_mul_c(a, 1 / b)
            raise HarnessError('pyk: division by a symbolic rational is outside the subset')
        # + / - : common denominator
        if isinstance(a, fractions.Fraction):
            a = SRat(self.bv(a.numerator), a.denominator)
        if isinstance(b, fractions.Fraction):
            b = SRat(self.bv(b.numerator), b.denominator)
        den = a.den * b.den // math.gcd(a.den, b.den)
        an = self.i_mul(a.num, None, None, den // a.den) if den != a.den else a.num
        bn = self.i_mul(b.num, None, None, den // b.den) if den != b.den else b.num
        return SRat(self.i_add(an, bn) if op == '+' else self.i_sub(an, bn), den)

    def r_floor(self, r):
        if isinstance(r, fractions.Fraction):
            return math.floor(r)
        if r.den == 1:
            return SInt(r.num)
        d = self.bv(r.den)
        q = r.num / d
        rem = z3.SRem(r.num, d)
        return SInt(z3.If(z3.And(rem != self.bv(0), rem < 0), q - self.bv(1), q))

    def r_ceil(self, r):
        if isinstance(r, fractions.Fraction):
            return math.ceil(r)
        if r.den == 1:
            return SInt(r.num)
        d = self.bv(r.den)
        q = r.num / d
        rem = z3.SRem(r.num, d)
        self.add_side(r.num < self.bv(self.MAX - r.den), 'ceil overflow')
        return SInt(z3.If(z3.And(rem != self.bv(0), rem > 0), q + self.bv(1), q))

    def r_trunc(self, r):
        if isinstance(r, fractions.Fraction):
            return int(r)
        if r.den == 1:
            return SInt(r.num)
        return SInt(r.num / self.bv(r.den))

    def r_cmp(self, op, a, b):
        a, b = self.rat(a), self.rat(b)
        if isinstance(a, fractions.Fraction):
            a = SRat(self.bv(a.numerator), a.denominator)
        if isinstance(b, fractions.Fraction):
            b = SRat(self.bv(b.numerator), b.denominator)
        x = self.i_mul(a.num, None, None, b.den) if b.den != 1 else a.num
        y = self.i_mul(b.num, None, None, a.den) if a.den != 1 else b.num
        return SBool(self._cmp_terms(op, x, y))

    @staticmethod
    def _cmp_terms(op, x, y):
        return {'<': x < y, '<=': x <= y, '>': x > y, '>=': x >= y, '==': x == y, '!=': x != y}[op]

    # -- strings with a concrete shape and symbolic digits ---------------------------------------------
    _PRIV = 0xE000
    _CLASS_PREDICATES = ('isdigit', 'isdecimal', 'isnumeric', 'isalpha', 'isalnum', 'isspace', 'isascii', 'isupper',
                         'islower', 'isprintable', 'istitle', 'isidentifier')
    _STR_METHODS = ('partition', 'rpartition', 'split', 'rsplit', 'strip', 'lstrip', 'rstrip', 'startswith', 'endswith',
                    'removeprefix', 'removesuffix', 'replace', 'count', 'upper', 'lower', 'casefold', 'find', 'rfind',
                    'index', 'rindex', 'splitlines', '__contains__', '__len__', '__getitem__', 'ljust', 'rjust',
                    'center', 'zfill', 'encode', 'swapcase', 'title', 'capitalize', 'expandtabs')

    def str_parts(self, v):
        if isinstance(v, SStr):
            return list(v.parts)
        if isinstance(v, SDecStr):
            return [v]
        if isinstance(v, str):
            return [v] if v else []
        raise HarnessError(f'pyk: expected a string, got {type(v).__name__}')

    def _numeral_parts(self, d):
        """numeral with k > 0 -> its integer-part digit run (unless empty), '.', and its k-digit fraction run"""
        if d.k == 0:
            return [d]
        if d._fp is None:
            p = 10 ** d.k
            if self.int_mode == 'int':
                ip, fpv = d.n.t / z3.IntVal(p), d.n.t % z3.IntVal(p)
            else:
                ip, fpv = z3.UDiv(d.n.t, self.bv(p)), z3.URem(d.n.t, self.bv(p))
            d._fp = SDecStr(SInt(fpv), 0, d.k)
            d._fp.parent, d._fp.role = d, 'frac'
            if d.int_digits != 0:
                d._ip = SDecStr(SInt(ip), 0, d.int_digits)
                d._ip.parent, d._ip.role = d, 'int'
        return ([d._ip] if d._ip is not None else []) + ['.', d._fp]

    def _segs(self, v):
        """flat list of literal strings (merged) and digit runs (SDecStr with k == 0)"""
        out = []
        for p in self.str_parts(v):
            for q in (self._numeral_parts(p) if isinstance(p, SDecStr) else [p]):
                if isinstance(q, str) and out and isinstance(out[-1], str):
                    out[-1] += q
                elif q != '':
                    out.append(q)
        return out

    def mkstr(self, parts):
        """normalise: merge literals, re-assemble a numeral from its own pieces, collapse to str / SDecStr when possible"""
        flat = []
        for p in parts:
            if isinstance(p, SStr):
                flat.extend(p.parts)
            else:
                flat.append(p)
        segs = []
        for q in flat:
            if isinstance(q, str):
                if q == '':
                    continue
                if segs and isinstance(segs[-1], str):
                    segs[-1] += q
                else:
                    segs.append(q)
            else:
                segs.append(q)
        out = []
        i = 0
        while i < len(segs):
            q = segs[i]
            # [int run] '.' [frac run] of the same numeral, the '.' being a whole literal or the tail/head of one
            if isinstance(q, SDecStr) and q.role == 'int' and i + 2 < len(segs) and isinstance(segs[i + 1], str) \
                    and segs[i + 1] == '.' and segs[i + 2] is q.parent._fp:
                out.append(q.parent)
                i += 3
                continue
            if isinstance(q, str) and q.endswith('.') and i + 1 < len(segs) and isinstance(segs[i + 1], SDecStr) \
                    and segs[i + 1].role == 'frac' and segs[i + 1].parent.int_digits == 0 \
                    and not (len(q) == 1 and out and isinstance(out[-1], SDecStr)):
                if q[:-1]:
                    out.append(q[:-1])
                out.append(segs[i + 1].parent)
                i += 2
                continue
            out.append(q)
            i += 1
        if not out:
            return ''
        if len(out) == 1:
            return out[0]
        return SStr(out)

    def _render(self, segs, L, digit=None):
        """segs -> concrete string; digit runs become `count` copies (unknown count: L) of `digit` or of a private char"""
        out = []
        for i, q in enumerate(segs):
            if isinstance(q, str):
                out.append(q)
            else:
                n = q.int_digits if q.int_digits is not None else L
                out.append((digit or chr(self._PRIV + i)) * n)
        return ''.join(out)

    def _unrender(self, obj, segs, L):
        """map the result of a real str operation on a private-char rendering back to symbolic strings"""
        if isinstance(obj, str):
            parts = []
            i = 0
            while i < len(obj):
                c = ord(obj[i])
                if self._PRIV <= c < self._PRIV + len(segs):
                    q = segs[c - self._PRIV]
                    n = q.int_digits if q.int_digits is not None else L
                    if obj[i:i + n] != obj[i] * n or obj[i + n:i + n + 1] == obj[i]:
                        raise HarnessError('pyk: string operation cuts through a run of symbolic digits')
                    # a complete run only counts if it is THE run (starts where the run starts)
                    parts.append(q)
                    i += n
                else:
                    j = i
                    while j < len(obj) and not (self._PRIV <= ord(obj[j]) < self._PRIV + len(segs)):
                        j += 1
                    parts.append(obj[i:j])
                    i = j
            return self.mkstr(parts)
        if isinstance(obj, (list, tuple)):
            return type(obj)(self._unrender(x, segs, L) for x in obj)
        if isinstance(obj, (bool, int)) or obj is None:
            return obj
        if isinstance(obj, bytes):
            raise HarnessError('pyk: bytes of a symbolic string')
        raise HarnessError(f'pyk: unexpected result type {type(obj).__name__} of a string operation')

    def _same_shape(self, a, b):
        if isinstance(a, (list, tuple)):
            return type(a) is type(b) and len(a) == len(b) and all(self._same_shape(x, y) for x, y in zip(a, b))
        if isinstance(a, SStr):
            return isinstance(b, SStr) and len(a.parts) == len(b.parts) and all(self._same_shape(x, y) for x, y in zip(a.parts, b.parts))
        if isinstance(a, SDecStr):
            return a is b
        return type(a) is type(b) and a == b

    @staticmethod
    def _has_digit(x):
        if isinstance(x, str):
            return any(ch.isdigit() for ch in x)
        if isinstance(x, (tuple, list)):
            return any(Interp._has_digit(y) for y in x)
        return False

    def str_method(self, s, name, args, kwargs):
        """Decide a str operation on a shaped string: run the REAL method on two renderings and compare."""
        segs = self._segs(s)
        if any(is_sym(a) for a in args) or any(is_sym(v) for v in kwargs.values()):
            raise HarnessError(f'pyk: str.{name} with a symbolic argument')
        if name in self._CLASS_PREDICATES:
            rs = {getattr(self._render(segs, L, '7'), name)(*args, **kwargs) for L in (1, 3, 6)}
            if len(rs) != 1:
                raise HarnessError(f'pyk: str.{name} depends on the number of digits')
            return rs.pop()
        if name not in self._STR_METHODS:
            if name in ('format', 'join', '__mod__', 'format_map'):
                return '<sym>'
            raise HarnessError(f'pyk: str.{name} on a symbolic string is outside the subset')
        if self._has_digit(args) or self._has_digit(list(kwargs.values())):
            raise HarnessError(f'pyk: str.{name} with an argument containing digits depends on the symbolic digits')
        results = []
        for L in (3, 5, 9):
            r = self._render(segs, L)
            try:
                v = getattr(r, name)(*args, **kwargs)
            except Exception as e:
                v = ('!raise', type(e).__name__)
            if isinstance(v, tuple) and v and v[0] == '!raise':
                results.append(v)
            else:
                results.append(('ok', self._unrender(v, segs, L)))
        if not all(self._same_shape(results[0], r) for r in results[1:]):
            raise HarnessError(f'pyk: str.{name}{tuple(args)} depends on the number of digits of the numeral')
        if results[0][0] == '!raise':
            raise PyRaise(results[0][1], f'str.{name}')
        return results[0][1]

    def str_eq(self, a, b):
        """a == b where at least one side is a shaped string -> bool or SBool"""
        if isinstance(a, str):
            a, b = b, a
        if not isinstance(b, (str, SDecStr, SStr)):
            return False
        if not isinstance(b, str):
            sa, sb = self._segs(a), self._segs(b)
            if len(sa) == len(sb) and all((x is y) if isinstance(x, SDecStr) else x == y for x, y in zip(sa, sb)):
                return True
            raise HarnessError('pyk: equality of two different symbolic strings')
        import re as _re
        segs = self._segs(a)
        pat = ''
        for q in segs:
            if isinstance(q, str):
                pat += _re.escape(q)
            else:
                pat += r'(\d{%d})' % q.int_digits if q.int_digits is not None else r'(\d+)'
        m = _re.fullmatch(pat, b, _re.ASCII)
        if not m:
            return False
        runs = [q for q in segs if isinstance(q, SDecStr)]
        if any(q.int_digits is None for q in runs):
            raise HarnessError('pyk: equality with a digit string depends on leading zeros of the numeral')
        conds = [q.n.t == self.bv(int(g)) for q, g in zip(runs, m.groups())]
        return SBool(z3.And(*conds)) if conds else True

    def numeric_view(self, v, conv):
        """int(v) / float(v) / Fraction(v) / Decimal(v) of a shaped string: (sign, N term, k) with value sign*N/10^k.
        Acceptance is decided by the REAL converter on renderings; a shape the converter rejects raises ValueError."""
        if isinstance(v, SDecStr) and v.parent is None:
            if conv is int and v.k > 0:
                raise PyRaise('ValueError', 'invalid literal for int() with base 10')
            return 1, v.n.t, v.k
        import re as _re
        segs = self._segs(v)
        verdicts = set()
        for L in (1, 3, 6):
            r = self._render(segs, L, '7')
            try:
                conv(r)
                verdicts.add(True)
            except (ValueError, decimal.InvalidOperation):
                verdicts.add(False)
        if len(verdicts) != 1:
            raise HarnessError('pyk: numeric conversion depends on the number of digits')
        if not verdicts.pop():
            raise PyRaise('ValueError', f'invalid literal for {getattr(conv, "__name__", "number")}()')
        sk = self._render([q if isinstance(q, str) else SDecStr(q.n, 0, 1) for q in segs], 1)
        m = _re.fullmatch(r'\s*([+-]?)([\ue000-\uf8ff]?)(?:\.([\ue000-\uf8ff]?))?\s*', sk)
        if not m or not (m.group(2) or m.group(3)):
            raise HarnessError(f'pyk: numeric spelling {sk!r} is outside the subset (exponent, underscore, ratio, ...)')
        ip = segs[ord(m.group(2)) - self._PRIV] if m.group(2) else None
        fpart = segs[ord(m.group(3)) - self._PRIV] if m.group(3) else None
        sign = -1 if m.group(1) == '-' else 1
        if fpart is None:
            return sign, ip.n.t, 0
        if fpart.int_digits is None:
            raise HarnessError('pyk: fraction part with an unknown number of digits')
        k = fpart.int_digits
        if ip is None:
            if fpart.role == 'frac' and fpart.parent.int_digits == 0:
                return sign, fpart.parent.n.t, k
            return sign, fpart.n.t, k
        if ip.role == 'int' and fpart.role == 'frac' and ip.parent is fpart.parent:
            return sign, ip.parent.n.t, k
        return sign, self.i_add(self.i_mul(ip.n.t, None, None, 10 ** k), fpart.n.t), k

    # -- exact integer kernels ---------------------------------------------------------------------
    def py_pow(self, a, b, m=None):
        """a ** b / pow(a, b[, m]) for a small constant non-negative integer exponent (repeated multiplication)"""
        if is_sym(b) or not isinstance(b, int) or isinstance(b, bool):
            raise HarnessError('pyk: ** with a symbolic or non-integer exponent is not modelled')
        if isinstance(a, SFloat) or isinstance(a, float):
            raise HarnessError('pyk: float ** n goes through C pow(), which is not guaranteed to equal repeated '
                               'multiplication; not modelled')
        if b < 0:
            raise HarnessError('pyk: negative exponent on a symbolic base is not modelled')
        if b > 16:
            raise HarnessError('pyk: exponent above 16 on a symbolic base is not modelled')
        acc = 1
        for _ in range(b):
            acc = self.binop(ast.Mult, acc, a)
        if m is not None:
            acc = self.binop(ast.Mod, acc, m)
        return acc

    def py_isqrt(self, v):
        """math.isqrt(n): fresh r >= 0 with r*r <= n < (r+1)*(r+1) (defining constraint goes into the path condition)"""
        if isinstance(v, (SFloat, SRat, float)):
            raise PyRaise('TypeError', "'float' object cannot be interpreted as an integer")
        if not isinstance(v, (SInt, SBool)):
            return math.isqrt(v)
        n = self.it(v)
        if self.branch(n < 0):
            raise PyRaise('ValueError', 'isqrt() argument must be nonnegative')
        self.fresh += 1
        if self.int_mode == 'int':
            r = z3.Int(f'isqrt!{self.fresh}')
            self.pc.append(z3.And(r >= 0, r * r <= n, n < (r + 1) * (r + 1)))
        else:
            h = self.W // 2 - 1          # r < 2^h keeps r*r and (r+1)*(r+1) inside the signed W-bit range
            r = z3.BitVec(f'isqrt!{self.fresh}', self.W)
            lim = self.bv(1 << h)
            self.add_side(n < self.bv(((1 << h) - 1) ** 2), 'isqrt argument range')
            self.pc.append(z3.And(r >= 0, r < lim, r * r <= n, n < (r + 1) * (r + 1)))
        return SInt(r)

    def py_bit_length(self, v):
        if self.int_mode == 'int':
            raise HarnessError('pyk: int.bit_length() is not available in Int mode')
        x = self.it(v)
        self.add_side(x != self.bv(self.MIN), 'bit_length range')
        ax = z3.If(x < 0, -x, x)
        acc = self.bv(0)
        for b in range(1, self.W):
            acc = z3.If(ax >= self.bv(1 << (b - 1)), self.bv(b), acc)
        return SInt(acc)

    # -- binary operators ---------------------------------------------------------------------------
    def binop(self, op, a, b):
        """op: ast operator class"""
        if not is_sym(a) and not is_sym(b):
            return self._native_binop(op, a, b)
        isf = lambda v: isinstance(v, (SFloat, float))
        isr = lambda v: isinstance(v, (SRat, fractions.Fraction, decimal.Decimal))
        if isinstance(a, (SDecStr, SStr)) or isinstance(b, (SDecStr, SStr)):
            if op is ast.Add and all(isinstance(x, (SDecStr, SStr, str)) for x in (a, b)):
                return self.mkstr(self.str_parts(a) + self.str_parts(b))
            if op is ast.Mod and isinstance(a, str):
                return '<sym>'
            if op is ast.Add or op is ast.Mult:
                raise PyRaise('TypeError', 'unsupported operand type(s) for str')
            raise PyRaise('TypeError', 'unsupported operand type(s) for str')
        name = {ast.Add: '+', ast.Sub: '-', ast.Mult: '*', ast.Div: '/', ast.FloorDiv: '//', ast.Mod: '%',
                ast.LShift: '<<', ast.RShift: '>>', ast.BitOr: '|', ast.BitAnd: '&', ast.BitXor: '^',
                ast.Pow: '**'}.get(op)
        if name is None:
            raise HarnessError(f'pyk: operator {op.__name__} not supported')
        if name == '**':
            return self.py_pow(a, b)
        if isr(a) or isr(b) or (self.float_mode == 'exact' and (isf(a) or isf(b) or name == '/')):
            if isinstance(a, float) or isinstance(b, float):
                a = fractions.Fraction(a) if isinstance(a, float) else a
                b = fractions.Fraction(b) if isinstance(b, float) else b
            if name in '+-*/':
                return self.r_binop(name, a, b)
            if name == '//':
                return self.r_floor(self.r_binop('/', a, b))
            raise HarnessError(f'pyk: {name} on rationals not supported')
        if isf(a) or isf(b) or name == '/':
            x, y = self.fp(a), self.fp(b)
            if name == '/':
                if name == '/' and not isf(a) and not isf(b):
                    # int / int: CPython's correctly rounded quotient == fp.div when both convert exactly
                    for v in (a, b):
                        if isinstance(v, SInt):
                            self.add_side(self.in_range(v.t, -(1 << 53), 1 << 53), 'int/int operands exact')
                if self.branch(z3.fpIsZero(y)):
                    raise PyRaise('ZeroDivisionError', 'division by zero')
                return SFloat(z3.fpDiv(RNE, x, y))
            if name == '+':
                return SFloat(z3.fpAdd(RNE, x, y))
            if name == '-':
                return SFloat(z3.fpSub(RNE, x, y))
            if name == '*':
                return SFloat(z3.fpMul(RNE, x, y))
            raise HarnessError(f'pyk: {name} on floats not supported')
        # integers
        ca = a if isinstance(a, int) and not isinstance(a, bool) else (int(a) if isinstance(a, bool) else None)
        cb = b if isinstance(b, int) and not isinstance(b, bool) else (int(b) if isinstance(b, bool) else None)
        x, y = self.it(a), self.it(b)
        if name == '+':
            return SInt(self.i_add(x, y))
        if name == '-':
            return SInt(self.i_sub(x, y))
        if name == '*':
            return SInt(self.i_mul(x, y, ca, cb))
        if name == '//':
            return SInt(self.i_floordiv(x, y))
        if name == '%':
            return SInt(self.i_mod(x, y))
        if name == '<<':
            return SInt(self.i_shl(x, y, cb))
        if name == '>>':
            return SInt(self.i_shr(x, y, cb))
        if name in '|&^' and self.int_mode == 'int':
            raise HarnessError('pyk: bit operations are not available in Int mode')
        if name == '|':
            return SInt(x | y)
        if name == '&':
            return SInt(x & y)
        if name == '^':
            return SInt(x ^ y)
        raise HarnessError(f'pyk: {name} on symbolic ints not supported')

    @staticmethod
    def _native_binop(op, a, b):
        import operator as o
        f = {ast.Add: o.add, ast.Sub: o.sub, ast.Mult: o.mul, ast.Div: o.truediv, ast.FloorDiv: o.floordiv,
             ast.Mod: o.mod, ast.LShift: o.lshift, ast.RShift: o.rshift, ast.BitOr: o.or_, ast.BitAnd: o.and_,
             ast.BitXor: o.xor, ast.Pow: o.pow, ast.MatMult: o.matmul}[op]
        try:
            return f(a, b)
        except Exception as e:
            raise PyRaise(type(e).__name__, str(e))

    def compare(self, op, a, b):
        """single comparison -> Python bool or SBool"""
        if isinstance(op, (ast.Is, ast.IsNot)):
            if is_sym(a) or is_sym(b):
                if b is None or a is None:
                    r = False
                else:
                    raise HarnessError('pyk: `is` on symbolic values')
            else:
                r = a is b
            return r if isinstance(op, ast.Is) else not r
        if isinstance(op, (ast.In, ast.NotIn)):
            if isinstance(b, (SDecStr, SStr)) and isinstance(a, str):
                r = self.str_method(b, '__contains__', [a], {})
            elif isinstance(a, (SDecStr, SStr)) and isinstance(b, (str, SDecStr, SStr)):
                raise HarnessError('pyk: substring test with a symbolic needle')
            elif is_sym(a):
                if isinstance(b, (list, tuple, set, frozenset, range, dict)):
                    terms = [self.truth_term(self.compare(ast.Eq(), a, x)) for x in b]
                    r = SBool(z3.Or(*terms) if terms else z3.BoolVal(False))
                else:
                    raise HarnessError('pyk: `in` with a symbolic element on this container')
            else:
                r = a in b
            if isinstance(op, ast.In):
                return r
            return SBool(z3.Not(r.t)) if isinstance(r, SBool) else (not r)
        name = {ast.Lt: '<', ast.LtE: '<=', ast.Gt: '>', ast.GtE: '>=', ast.Eq: '==', ast.NotEq: '!='}[type(op)]
        if not is_sym(a) and not is_sym(b):
            if isinstance(a, (SymObj, Opaque)) or isinstance(b, (SymObj, Opaque)):
                raise HarnessError('pyk: comparison of symbolic objects is outside the subset')
            import operator as o
            try:
                return {'<': o.lt, '<=': o.le, '>': o.gt, '>=': o.ge, '==': o.eq, '!=': o.ne}[name](a, b)
            except Exception as e:
                raise PyRaise(type(e).__name__, str(e))
        if isinstance(a, (SDecStr, SStr)) or isinstance(b, (SDecStr, SStr)):
            if name not in ('==', '!='):
                raise HarnessError('pyk: ordering comparison of a symbolic string')
            eq = self.str_eq(a, b)
            if name == '==':
                return eq
            return (not eq) if isinstance(eq, bool) else SBool(z3.Not(eq.t))
        if (a is None or b is None or isinstance(a, str) or isinstance(b, str)) and name in ('==', '!='):
            return name == '!='
        if isinstance(a, (SRat, fractions.Fraction)) or isinstance(b, (SRat, fractions.Fraction)):
            return self.r_cmp(name, a, b)
        if isinstance(a, (SFloat, float)) or isinstance(b, (SFloat, float)):
            if self.float_mode == 'exact':
                return self.r_cmp(name, a, b)
            x, y = self.fp(a), self.fp(b)
            t = {'<': z3.fpLT, '<=': z3.fpLEQ, '>': z3.fpGT, '>=': z3.fpGEQ, '==': z3.fpEQ, '!=': z3.fpNEQ}[name](x, y)
            return SBool(t)
        if isinstance(a, SBool) and isinstance(b, SBool) and name in ('==', '!='):
            return SBool(a.t == b.t if name == '==' else a.t != b.t)
        return SBool(self._cmp_terms(name, self.it(a), self.it(b)))

    def truth_term(self, v):
        t = self.truth(v)
        return z3.BoolVal(t) if isinstance(t, bool) else t

    # -- intrinsics ---------------------------------------------------------------------------------
    def ite(self, c, a, b):
        """merge two values of the same numeric kind under z3 Bool c"""
        if isinstance(a, (SFloat, float)) or isinstance(b, (SFloat, float)):
            if self.float_mode == 'exact':
                raise _NeedFork()
            return SFloat(z3.If(c, self.fp(a), self.fp(b)))
        if isinstance(a, (SBool, bool)) and isinstance(b, (SBool, bool)):
            return SBool(z3.If(c, self.truth_term(a), self.truth_term(b)))
        if isinstance(a, (SInt, int, SBool)) and isinstance(b, (SInt, int, SBool)):
            return SInt(z3.If(c, self.it(a), self.it(b)))
        raise _NeedFork()

    def minmax(self, which, args):
        if len(args) == 1 and isinstance(args[0], (list, tuple)):
            args = list(args[0])
        if not any(is_sym(a) for a in args):
            return (min if which == 'min' else max)(*args) if len(args) > 1 else (min if which == 'min' else max)(args[0])
        acc = args[0]
        for x in args[1:]:
            c = self.compare(ast.Lt() if which == 'min' else ast.Gt(), x, acc)
            ct = self.truth_term(c)
            try:
                acc = self.ite(ct, x, acc)
            except _NeedFork:
                acc = x if self.branch(ct) else acc
        return acc

    def py_int(self, v):
        if isinstance(v, SInt):
            return v
        if isinstance(v, SBool):
            return SInt(self.it(v))
        if isinstance(v, SFloat):
            return self.fp_to_int(v.t, z3.RTZ(), 'int(float) range')
        if isinstance(v, SRat):
            return self.r_trunc(v)
        if isinstance(v, (SDecStr, SStr)):
            sg, n, k = self.numeric_view(v, int)
            return SInt(n if sg > 0 else -n)
        if isinstance(v, fractions.Fraction):
            return int(v)
        return int(v)

    def py_ceil(self, v, up=True):
        if isinstance(v, SFloat):
            return self.fp_to_int(v.t, z3.RTP() if up else z3.RTN(), 'ceil/floor(float) range')
        if isinstance(v, (SRat, fractions.Fraction)):
            return self.r_ceil(v) if up else self.r_floor(v)
        if isinstance(v, (SInt, SBool)):
            return SInt(self.it(v))
        return math.ceil(v) if up else math.floor(v)

    def py_sqrt(self, v):
        if self.float_mode == 'exact':
            raise HarnessError('pyk: sqrt has no exact-rational reading')
        x = self.fp(v)
        if not is_sym(v):
            return math.sqrt(v)
        if self.branch(z3.fpLT(x, z3.FPVal(0.0, F64))):
            raise PyRaise('ValueError', 'math domain error')
        return SFloat(z3.fpSqrt(RNE, x))

    def py_abs(self, v):
        if isinstance(v, SInt):
            if self.int_mode != 'int':
                self.add_side(v.t != self.bv(self.MIN), 'abs overflow')
            return SInt(z3.If(v.t < 0, -v.t, v.t))
        if isinstance(v, SFloat):
            return SFloat(z3.fpAbs(v.t))
        if isinstance(v, SRat):
            self.add_side(v.num != self.bv(self.MIN), 'abs overflow')
            return SRat(z3.If(v.num < 0, -v.num, v.num), v.den)
        return abs(v)

    def py_isinstance(self, v, t):
        ts = t if isinstance(t, tuple) else (t,)
        if isinstance(v, SBool):
            return any(x in (bool, int, object) for x in ts)
        if isinstance(v, SInt):
            return any(x in (int, object) for x in ts) or any(x.__name__ in ('Integral', 'Number', 'Real', 'Rational') for x in ts)
        if isinstance(v, SFloat):
            return any(x in (float, object) for x in ts)
        if isinstance(v, SRat):
            return any(x in (fractions.Fraction, decimal.Decimal, object) for x in ts)
        if isinstance(v, (SDecStr, SStr)):
            return any(x in (str, object) for x in ts)
        if isinstance(v, SymObj):
            return any(isinstance(x, type) and issubclass(v.cls, x) for x in ts)
        return isinstance(v, t)

    def intrinsic(self, f, args, kwargs):
        """Returns (handled, value) for builtins / math / fractions / decimal functions."""
        if id(f) in self.user_intrinsics:
            return True, self.user_intrinsics[id(f)](self, args, kwargs)
        if id(f) in self.opaque:
            return True, Opaque(self.opaque[id(f)], list(args), dict(kwargs))
        if f is int and len(args) == 1:
            return True, self.py_int(args[0])
        if f is float and len(args) == 1:
            return True, self.to_float(args[0])
        if f is bool and len(args) == 1:
            t = self.truth(args[0])
            return True, (t if isinstance(t, bool) else SBool(t))
        if f is math.ceil:
            return True, self.py_ceil(args[0], True)
        if f is math.floor:
            return True, self.py_ceil(args[0], False)
        if f is math.sqrt:
            return True, self.py_sqrt(args[0])
        if f is math.isqrt:
            return True, self.py_isqrt(args[0])
        if f is pow and len(args) in (2, 3) and any(is_sym(a) for a in args):
            return True, self.py_pow(*args)
        if f is math.trunc and is_sym(args[0]):
            return True, self.py_int(args[0])
        if f is math.fabs and is_sym(args[0]):
            return True, self.py_abs(self.to_float(args[0]))
        if f is math.gcd and any(is_sym(a) for a in args):
            raise HarnessError('pyk: math.gcd on symbolic integers is not modelled')
        if f is min or f is max:
            return True, self.minmax('min' if f is min else 'max', list(args))
        if f is abs:
            return True, self.py_abs(args[0])
        if f is divmod:
            return True, (self.binop(ast.FloorDiv, args[0], args[1]), self.binop(ast.Mod, args[0], args[1]))
        if f is isinstance:
            return True, self.py_isinstance(args[0], args[1])
        if f is fractions.Fraction or f is decimal.Decimal:
            if len(args) == 1 and is_sym(args[0]):
                if isinstance(args[0], SFloat):
                    raise HarnessError('pyk: Fraction/Decimal of a float term is outside the subset')
                return True, self.rat(args[0])
            if len(args) == 2 and f is fractions.Fraction and (is_sym(args[0]) or is_sym(args[1])):
                return True, self.r_binop('/', args[0], args[1])
            return True, fractions.Fraction(*[fractions.Fraction(a) if isinstance(a, decimal.Decimal) else a for a in args])
        if f is sum:
            acc = args[1] if len(args) > 1 else 0
            for x in args[0]:
                acc = self.binop(ast.Add, acc, x)
            return True, acc
        if f is round and len(args) == 1 and is_sym(args[0]):
            v = args[0]
            if isinstance(v, SFloat):
                return True, self.fp_to_int(v.t, z3.RNE(), 'round(float) range')
            if isinstance(v, SInt):
                return True, v
            if isinstance(v, SRat):
                # round half to even
                q = self.r_floor(v).t
                rem2 = self.i_mul(self.i_sub(v.num, self.i_mul(q, None, None, v.den)), None, None, 2)
                d = self.bv(v.den)
                up = z3.Or(rem2 > d, z3.And(rem2 == d, (q & self.bv(1)) == self.bv(1)))
                return True, SInt(z3.If(up, q + self.bv(1), q))
            raise HarnessError('pyk: round() of this value kind')
        if f is print:
            return True, None
        if f is str and len(args) == 1 and is_sym(args[0]) and not isinstance(args[0], (SDecStr, SStr)):
            return True, '<sym>'
        if f is len and len(args) == 1 and isinstance(args[0], (SDecStr, SStr)):
            return True, self.str_method(args[0], '__len__', [], {})
        if f is str and len(args) == 1 and isinstance(args[0], (SDecStr, SStr)):
            return True, args[0]
        return False, None

    # -- calls --------------------------------------------------------------------------------------
    def call(self, f, args, kwargs=None):
        kwargs = kwargs or {}
        if isinstance(f, BoundMethod):
            return self.call(f.fn, [f.obj] + list(args), kwargs)
        if isinstance(f, StrMethod):
            return self.str_method(f.obj, f.name, list(args), kwargs)
        if isinstance(f, Closure):
            return self.call_node(f.node, args, kwargs, f.globs, f.env)
        ok, v = self.intrinsic(f, args, kwargs)
        if ok:
            return v
        if isinstance(f, type):
            if f in self.interpret_classes:
                obj = SymObj(f)
                init = None
                for k in f.__mro__:
                    if '__init__' in vars(k):
                        init = vars(k)['__init__']
                        break
                if isinstance(init, types.FunctionType):
                    self.call(init, [obj] + list(args), kwargs)
                return obj
            return self._native_call(f, args, kwargs)
        if isinstance(f, types.FunctionType) and not getattr(f, '_pyk_native', False):
            w = getattr(f, '__wrapped__', None)
            node, src = function_ast(f)
            if self.on_function:
                self.on_function(f, node, src)
            if f.__closure__:
                env = Env()
                for name, cell in zip(f.__code__.co_freevars, f.__closure__):
                    env.vars[name] = cell.cell_contents
            else:
                env = None
            return self.call_node(node, args, kwargs, self.glob_overrides.get(id(f.__globals__), f.__globals__), env)
        if isinstance(f, types.MethodType) and not getattr(f.__func__, '_pyk_native', False) \
                and isinstance(f.__func__, types.FunctionType) and any(is_sym(a) for a in args):
            return self.call(f.__func__, [f.__self__] + list(args), kwargs)
        return self._native_call(f, args, kwargs)

    def _native_call(self, f, args, kwargs):
        try:
            return f(*args, **kwargs)
        except HarnessError:
            raise
        except PyRaise:
            raise
        except Exception as e:
            if isinstance(e, (TypeError, AttributeError)) and not getattr(f, '_pyk_native', False) \
                    and (self._deep_sym(args) or self._deep_sym(list(kwargs.values()))):
                # a C / library function was handed a symbolic value it does not understand: this is a gap of the
                # translator, never a behaviour of the program
                nm = getattr(f, '__qualname__', None) or getattr(f, '__name__', repr(f))
                mod = getattr(f, '__module__', None) or getattr(getattr(f, '__self__', None), '__name__', '')
                raise HarnessError(f'pyk: call {mod}.{nm}(...) with symbolic arguments is not modelled')
            raise PyRaise(type(e).__name__, str(e))

    @staticmethod
    def _deep_sym(x, depth=0):
        if is_sym(x):
            return True
        if depth < 4 and isinstance(x, (list, tuple, set, frozenset)):
            return any(Interp._deep_sym(y, depth + 1) for y in x)
        if depth < 4 and isinstance(x, dict):
            return any(Interp._deep_sym(y, depth + 1) for y in x.values())
        return False

    def call_node(self, node, args, kwargs, globs, closure_env=None):
        env = Env(closure_env)
        a = node.args
        params = [p.arg for p in a.posonlyargs + a.args]
        defaults = a.defaults
        if len(args) > len(params) and not a.vararg:
            raise PyRaise('TypeError', 'too many positional arguments')
        for name, v in zip(params, args):
            env.vars[name] = v
        if a.vararg:
            env.vars[a.vararg.arg] = tuple(args[len(params):])
        kw = dict(kwargs)
        first_default = len(params) - len(defaults)
        for i, name in enumerate(params):
            if name in env.vars:
                continue
            if name in kw:
                env.vars[name] = kw.pop(name)
            elif i >= first_default:
                env.vars[name] = self.eval(defaults[i - first_default], Env(closure_env), globs)
            else:
                raise PyRaise('TypeError', f'missing argument {name}')
        for p, d in zip(a.kwonlyargs, a.kw_defaults):
            if p.arg in kw:
                env.vars[p.arg] = kw.pop(p.arg)
            elif d is not None:
                env.vars[p.arg] = self.eval(d, Env(closure_env), globs)
            else:
                raise PyRaise('TypeError', f'missing keyword argument {p.arg}')
        if a.kwarg:
            env.vars[a.kwarg.arg] = kw
        elif kw:
            raise PyRaise('TypeError', f'unexpected keyword arguments {sorted(kw)}')
        if isinstance(node, ast.Lambda):
            return self.eval(node.body, env, globs)
        try:
            self.block(node.body, env, globs)
        except _Return as r:
            return r.v
        return None

    # -- statements ---------------------------------------------------------------------------------
    def block(self, stmts, env, globs):
        for s in stmts:
            self.stmt(s, env, globs)

    def stmt(self, s, env, globs):
        if isinstance(s, ast.Expr):
            self.eval(s.value, env, globs)
        elif isinstance(s, ast.Assign):
            v = self.eval(s.value, env, globs)
            for t in s.targets:
                self.assign(t, v, env, globs)
        elif isinstance(s, ast.AnnAssign):
            if s.value is not None:
                self.assign(s.target, self.eval(s.value, env, globs), env, globs)
        elif isinstance(s, ast.AugAssign):
            cur = self.eval(_load(s.target), env, globs)
            v = self.binop(type(s.op), cur, self.eval(s.value, env, globs))
            self.assign(s.target, v, env, globs)
        elif isinstance(s, ast.Return):
            raise _Return(self.eval(s.value, env, globs) if s.value is not None else None)
        elif isinstance(s, ast.If):
            c = self.truth(self.eval(s.test, env, globs))
            if self.branch(c):
                self.block(s.body, env, globs)
            else:
                self.block(s.orelse, env, globs)
        elif isinstance(s, ast.While):
            n = 0
            while True:
                c = self.truth(self.eval(s.test, env, globs))
                if not self.branch(c):
                    self.block(s.orelse, env, globs)
                    break
                n += 1
                if n > self.max_unwind:
                    raise _Unwind()
                try:
                    self.block(s.body, env, globs)
                except _Break:
                    break
                except _Continue:
                    continue
        elif isinstance(s, ast.For):
            it = self.eval(s.iter, env, globs)
            if is_sym(it) or isinstance(it, (SymObj, Opaque)):
                raise HarnessError('pyk: for over a symbolic iterable')
            broke = False
            for x in list(it):
                self.assign(s.target, x, env, globs)
                try:
                    self.block(s.body, env, globs)
                except _Break:
                    broke = True
                    break
                except _Continue:
                    continue
            if not broke:
                self.block(s.orelse, env, globs)
        elif isinstance(s, ast.Assert):
            c = self.truth(self.eval(s.test, env, globs))
            if not self.branch(c):
                raise PyRaise('AssertionError', ast.unparse(s.test))
        elif isinstance(s, ast.Raise):
            if s.exc is None:
                raise PyRaise('RuntimeError', 're-raise')
            e = s.exc
            name = ast.unparse(e.func) if isinstance(e, ast.Call) else ast.unparse(e)
            raise PyRaise(name.split('.')[-1], ast.unparse(e))
        elif isinstance(s, ast.Pass):
            pass
        elif isinstance(s, ast.Break):
            raise _Break()
        elif isinstance(s, ast.Continue):
            raise _Continue()
        elif isinstance(s, ast.FunctionDef):
            if s.decorator_list:
                raise HarnessError(f'pyk: decorated nested function {s.name}')
            env.vars[s.name] = Closure(s, env, globs)
        elif isinstance(s, (ast.Import, ast.ImportFrom)):
            ns = {}
            exec(compile(ast.Module([s], []), '<pyk-import>', 'exec'), dict(globs), ns)
            env.vars.update(ns)
        elif isinstance(s, ast.Delete):
            for t in s.targets:
                if isinstance(t, ast.Subscript):
                    base = self.eval(t.value, env, globs)
                    idx = self.eval(t.slice, env, globs)
                    if is_sym(idx):
                        raise HarnessError('pyk: del with symbolic index')
                    del base[idx]
                elif isinstance(t, ast.Name):
                    env.vars.pop(t.id, None)
                else:
                    raise HarnessError('pyk: del target')
        else:
            raise HarnessError(f'pyk: statement {type(s).__name__} (line {getattr(s, "lineno", "?")}) is outside the subset')

    def assign(self, t, v, env, globs):
        if isinstance(t, ast.Name):
            env.vars[t.id] = v
        elif isinstance(t, (ast.Tuple, ast.List)):
            if is_sym(v) or isinstance(v, (SymObj, Opaque)):
                raise HarnessError('pyk: unpacking a symbolic value')
            vs = list(v)
            if len(vs) != len(t.elts):
                raise PyRaise('ValueError', 'unpack length mismatch')
            for e, x in zip(t.elts, vs):
                self.assign(e, x, env, globs)
        elif isinstance(t, ast.Attribute):
            obj = self.eval(t.value, env, globs)
            if isinstance(obj, SymObj):
                obj.fields[t.attr] = v
            else:
                setattr(obj, t.attr, v)
        elif isinstance(t, ast.Subscript):
            base = self.eval(t.value, env, globs)
            idx = self.eval(t.slice, env, globs)
            if is_sym(idx):
                raise HarnessError('pyk: store with symbolic index')
            base[idx] = v
        else:
            raise HarnessError(f'pyk: assignment target {type(t).__name__}')

    # -- expressions --------------------------------------------------------------------------------
    def lookup(self, name, env, globs):
        ok, v = env.lookup(name)
        if ok:
            return v
        if name in globs:
            return globs[name]
        if hasattr(builtins, name):
            return getattr(builtins, name)
        raise PyRaise('NameError', name)

    def getattr(self, obj, attr):
        if isinstance(obj, SymObj):
            if attr in obj.fields:
                return obj.fields[attr]
            for k in obj.cls.__mro__:
                if attr in vars(k):
                    d = vars(k)[attr]
                    if isinstance(d, property):
                        return self.call(d.fget, [obj])
                    if isinstance(d, types.FunctionType):
                        return BoundMethod(d, obj)
                    if isinstance(d, staticmethod):
                        return d.__func__
                    return d
            raise PyRaise('AttributeError', attr)
        if isinstance(obj, (SDecStr, SStr)):
            if not hasattr(str, attr):
                raise PyRaise('AttributeError', f"'str' object has no attribute '{attr}'")
            return StrMethod(obj, attr)
        if isinstance(obj, (SInt, SBool)) and attr in ('bit_length', 'conjugate', '__index__', '__int__', 'numerator', 'real'):
            if attr == 'bit_length':
                return native(lambda: self.py_bit_length(obj))
            if attr in ('numerator', 'real'):
                return SInt(self.it(obj))
            return native(lambda: SInt(self.it(obj)))
        if isinstance(obj, SFloat) and attr == 'is_integer':
            return native(lambda: SBool(z3.fpEQ(z3.fpRoundToIntegral(z3.RTZ(), obj.t), obj.t)))
        if is_sym(obj):
            raise HarnessError(f'pyk: attribute .{attr} of a symbolic {type(obj).__name__}')
        if isinstance(obj, Opaque):
            if attr in obj.kwargs:
                return obj.kwargs[attr]
            raise HarnessError(f'pyk: attribute .{attr} of opaque {obj.tag}')
        try:
            return getattr(obj, attr)
        except AttributeError as e:
            raise PyRaise('AttributeError', str(e))

    def subscript(self, base, idx):
        if isinstance(idx, SInt) or isinstance(idx, SBool):
            if not isinstance(base, (list, tuple)):
                raise HarnessError('pyk: symbolic index into a non-list')
            n = len(base)
            i = self.it(idx)
            if self.branch(z3.And(i >= self.bv(0), i < self.bv(n))):
                lo = 0
            elif self.branch(z3.And(i >= self.bv(-n), i < self.bv(0))):
                lo = -n
            else:
                raise PyRaise('IndexError', 'list index out of range')
            rng = range(0, n) if lo == 0 else range(-n, 0)
            acc = base[rng[-1]]
            for j in reversed(rng[:-1]):
                try:
                    acc = self.ite(i == self.bv(j), base[j], acc)
                except _NeedFork:
                    raise HarnessError('pyk: symbolic index into a list of non-numeric values')
            return acc
        if is_sym(idx):
            raise HarnessError('pyk: symbolic subscript of this kind')
        if isinstance(base, (SDecStr, SStr)):
            return self.str_method(base, '__getitem__', [idx], {})
        if is_sym(base):
            raise HarnessError('pyk: subscript of a symbolic value')
        try:
            return base[idx]
        except Exception as e:
            raise PyRaise(type(e).__name__, str(e))

    def eval(self, e, env, globs):
        if isinstance(e, ast.Constant):
            return e.value
        if isinstance(e, ast.Name):
            return self.lookup(e.id, env, globs)
        if isinstance(e, ast.BinOp):
            return self.binop(type(e.op), self.eval(e.left, env, globs), self.eval(e.right, env, globs))
        if isinstance(e, ast.UnaryOp):
            v = self.eval(e.operand, env, globs)
            if isinstance(e.op, ast.Not):
                t = self.truth(v)
                return (not t) if isinstance(t, bool) else SBool(z3.Not(t))
            if not is_sym(v):
                try:
                    return {ast.USub: lambda x: -x, ast.UAdd: lambda x: +x, ast.Invert: lambda x: ~x}[type(e.op)](v)
                except Exception as ex:
                    raise PyRaise(type(ex).__name__, str(ex))
            if isinstance(e.op, ast.UAdd):
                return v
            if isinstance(e.op, ast.USub):
                if isinstance(v, SFloat):
                    return SFloat(z3.fpNeg(v.t))
                if isinstance(v, SRat):
                    self.add_side(v.num != self.bv(self.MIN), 'neg overflow')
                    return SRat(-v.num, v.den)
                t = self.it(v)
                if self.int_mode != 'int':
                    self.add_side(t != self.bv(self.MIN), 'neg overflow')
                return SInt(-t)
            if isinstance(e.op, ast.Invert):
                return SInt(~self.it(v))
        if isinstance(e, ast.BoolOp):
            is_and = isinstance(e.op, ast.And)
            v = None
            for i, sub in enumerate(e.values):
                v = self.eval(sub, env, globs)
                if i == len(e.values) - 1:
                    return v
                t = self.truth(v)
                if isinstance(t, bool):
                    if t != is_and:
                        return v
                    continue
                # symbolic operand: try to merge the remaining pure boolean operands, else fork
                try:
                    self.nofork += 1
                    self.guards.append(t if is_and else z3.Not(t))
                    try:
                        rest = ast.BoolOp(e.op, e.values[i + 1:]) if len(e.values) - i - 1 > 1 else e.values[i + 1]
                        rv = self.eval(rest, env, globs)
                    finally:
                        self.nofork -= 1
                        self.guards.pop()
                    rt = self.truth(rv)
                    if isinstance(v, SBool) and isinstance(rv, (SBool, bool)):
                        rt = z3.BoolVal(rt) if isinstance(rt, bool) else rt
                        return SBool(z3.And(t, rt) if is_and else z3.Or(t, rt))
                    raise _NeedFork()
                except _NeedFork:
                    if self.nofork:
                        raise
                    if self.branch(t) != is_and:
                        return v
                    continue
            return v
        if isinstance(e, ast.Compare):
            left = self.eval(e.left, env, globs)
            acc = None
            for op, r in zip(e.ops, e.comparators):
                right = self.eval(r, env, globs)
                c = self.compare(op, left, right)
                if isinstance(c, bool):
                    if not c:
                        return False if acc is None else SBool(z3.BoolVal(False))
                else:
                    acc = c.t if acc is None else z3.And(acc, c.t)
                left = right
            return True if acc is None else SBool(acc)
        if isinstance(e, ast.IfExp):
            c = self.truth(self.eval(e.test, env, globs))
            if isinstance(c, bool):
                return self.eval(e.body if c else e.orelse, env, globs)
            sc = z3.simplify(c)
            if z3.is_true(sc) or z3.is_false(sc):
                return self.eval(e.body if z3.is_true(sc) else e.orelse, env, globs)
            nside = len(self.side)
            try:
                self.nofork += 1
                try:
                    self.guards.append(c)
                    a = self.eval(e.body, env, globs)
                    self.guards[-1] = z3.Not(c)
                    b = self.eval(e.orelse, env, globs)
                finally:
                    self.guards.pop()
                    self.nofork -= 1
                return self.ite(c, a, b)
            except (_NeedFork, PyRaise):
                if self.nofork:
                    raise _NeedFork()
                del self.side[nside:]
                return self.eval(e.body if self.branch(c) else e.orelse, env, globs)
        if isinstance(e, ast.Call):
            f = self.eval(e.func, env, globs)
            if self.ceil_cut and f is math.ceil and len(e.args) == 1 and not e.keywords \
                    and isinstance(e.args[0], ast.BinOp) and isinstance(e.args[0].op, ast.Div):
                a = self.eval(e.args[0].left, env, globs)
                b = self.eval(e.args[0].right, env, globs)
                if all(isinstance(x, (SInt, int)) and not isinstance(x, bool) for x in (a, b)) and (is_sym(a) or is_sym(b)):
                    self.lemmas.append((a, b))
                    if callable(self.ceil_cut):
                        self.ceil_cut(self, a, b)      # the caller states the lemma's domain as side conditions
                    # ceil(a/b) == -((-a) // b) over the integers
                    na = self.binop(ast.Sub, 0, a)
                    return self.binop(ast.Sub, 0, self.binop(ast.FloorDiv, na, b))
                return self.py_ceil(self.binop(ast.Div, a, b), True)
            args = []
            for a in e.args:
                if isinstance(a, ast.Starred):
                    args.extend(self.eval(a.value, env, globs))
                else:
                    args.append(self.eval(a, env, globs))
            kwargs = {}
            for k in e.keywords:
                if k.arg is None:
                    kwargs.update(self.eval(k.value, env, globs))
                else:
                    kwargs[k.arg] = self.eval(k.value, env, globs)
            if self.nofork and not self._pure_callee(f):
                raise _NeedFork()
            return self.call(f, args, kwargs)
        if isinstance(e, ast.Attribute):
            return self.getattr(self.eval(e.value, env, globs), e.attr)
        if isinstance(e, ast.Subscript):
            base = self.eval(e.value, env, globs)
            if isinstance(e.slice, ast.Slice):
                lo = self.eval(e.slice.lower, env, globs) if e.slice.lower is not None else None
                hi = self.eval(e.slice.upper, env, globs) if e.slice.upper is not None else None
                st = self.eval(e.slice.step, env, globs) if e.slice.step is not None else None
                if isinstance(base, (SDecStr, SStr)) and not (is_sym(lo) or is_sym(hi) or is_sym(st)):
                    return self.str_method(base, '__getitem__', [slice(lo, hi, st)], {})
                if is_sym(lo) or is_sym(hi) or is_sym(st) or is_sym(base):
                    raise HarnessError('pyk: symbolic slice')
                return base[slice(lo, hi, st)]
            return self.subscript(base, self.eval(e.slice, env, globs))
        if isinstance(e, ast.List):
            return [self.eval(x, env, globs) for x in e.elts]
        if isinstance(e, ast.Tuple):
            return tuple(self.eval(x, env, globs) for x in e.elts)
        if isinstance(e, ast.Dict):
            return {self.eval(k, env, globs): self.eval(v, env, globs) for k, v in zip(e.keys, e.values)}
        if isinstance(e, ast.Set):
            return {self.eval(x, env, globs) for x in e.elts}
        if isinstance(e, ast.JoinedStr):
            out = []
            for p in e.values:
                if isinstance(p, ast.Constant):
                    out.append(str(p.value))
                else:
                    try:
                        v = self.eval(p.value, env, globs)
                    except PyRaise:
                        v = '<?>'
                    out.append('<sym>' if (is_sym(v) or isinstance(v, (SymObj, Opaque))) else format(v))
            return ''.join(out)
        if isinstance(e, ast.Lambda):
            return Closure(e, env, globs)
        if isinstance(e, (ast.ListComp, ast.GeneratorExp)):
            if len(e.generators) != 1:
                raise HarnessError('pyk: nested comprehension')
            g = e.generators[0]
            out = []
            it = self.eval(g.iter, env, globs)
            if is_sym(it):
                raise HarnessError('pyk: comprehension over a symbolic iterable')
            for x in list(it):
                sub = Env(env)
                self.assign(g.target, x, sub, globs)
                keep = True
                for cond in g.ifs:
                    if not self.branch(self.truth(self.eval(cond, sub, globs))):
                        keep = False
                        break
                if keep:
                    out.append(self.eval(e.elt, sub, globs))
            return out
        raise HarnessError(f'pyk: expression {type(e).__name__} (line {getattr(e, "lineno", "?")}) is outside the subset')

    @staticmethod
    def _pure_callee(f):
        return f in (int, float, bool, min, max, abs, math.ceil, math.floor, len, isinstance, divmod, math.trunc)


def _load(t):
    t2 = ast.parse(ast.unparse(t), mode='eval').body
    return t2


# ---- concrete evaluation of terms (translator validation) -------------------------------------------
def fp_value(t):
    """z3 FP numeral -> Python float"""
    t = z3.simplify(t)
    bvv = z3.simplify(z3.fpToIEEEBV(t))
    if not z3.is_bv_value(bvv):
        raise HarnessError(f'pyk: FP term did not evaluate: {t}')
    return struct.unpack('<d', struct.pack('<Q', bvv.as_long()))[0]


def eval_term(t, assignment):
    """Substitute {z3 const: python value} and simplify to a Python int/bool/float."""
    subs = []
    for var, val in assignment.items():
        if z3.is_bv(var):
            subs.append((var, z3.BitVecVal(val, var.size())))
        elif z3.is_int(var):
            subs.append((var, z3.IntVal(val)))
        elif z3.is_bool(var):
            subs.append((var, z3.BoolVal(bool(val))))
        else:
            raise HarnessError('pyk: eval_term variable sort')
    r = z3.simplify(z3.substitute(t, *subs)) if subs else z3.simplify(t)
    if z3.is_bv_value(r):
        return r.as_signed_long()
    if z3.is_int_value(r):
        return r.as_long()
    if z3.is_true(r):
        return True
    if z3.is_false(r):
        return False
    if z3.is_fp(r):
        return fp_value(r)
    raise HarnessError(f'pyk: term did not evaluate to a value: {str(r)[:200]}')


def eval_on_paths(paths, assignment, term_of, timeout_ms=20000):
    """Concrete evaluation of a path set at a full input assignment {z3 const: value}: finds the path whose condition is
    satisfiable there (fresh definitional variables such as isqrt!n / q!n are solved for) and returns (path, value of
    term_of(path)) as Python values; (None, None) when no path accepts the input."""
    eqs = []
    for var, val in assignment.items():
        if z3.is_bv(var):
            eqs.append(var == z3.BitVecVal(val, var.size()))
        elif z3.is_bool(var):
            eqs.append(var == z3.BoolVal(bool(val)))
        else:
            eqs.append(var == z3.IntVal(val))
    for p in paths:
        sol = z3.Solver()
        sol.set('timeout', timeout_ms)
        sol.add(*eqs)
        sol.add(*p.pc)
        r = str(sol.check())
        if r == 'unknown':
            raise HarnessError('pyk: could not evaluate a path condition at a concrete input')
        if r != 'sat':
            continue
        t = term_of(p)
        if t is None:
            return p, None
        v = sol.model().eval(t, model_completion=True)
        if z3.is_bv_value(v):
            return p, v.as_signed_long()
        if z3.is_int_value(v):
            return p, v.as_long()
        if z3.is_true(v) or z3.is_false(v):
            return p, z3.is_true(v)
        if z3.is_fp(v):
            return p, fp_value(v)
        raise HarnessError(f'pyk: path value did not evaluate: {v}')
    return None, None


def value_term(v, interp):
    """symbolic value -> z3 term (for eval_term / assertions)"""
    if isinstance(v, (SInt, SFloat, SBool)):
        return v.t
    if isinstance(v, bool):
        return z3.BoolVal(v)
    if isinstance(v, int):
        return interp.bv(v)
    if isinstance(v, float):
        return z3.FPVal(v, F64)
    raise HarnessError(f'pyk: value_term of {type(v).__name__}')


# ---- SMT-LIB export and solver portfolio -------------------------------------------------------------
def smt2(assertions, logic='QF_BVFP'):
    s = z3.Solver()
    s.add(*assertions)
    body = s.to_smt2()
    body = body.replace('(check-sat)', '')
    return f'(set-logic {logic})\n{body}\n(check-sat)\n(get-model)\n'


def portfolio(text, solvers=('z3old', 'z3new', 'cvc5'), timeout_s=60):
    """Run the same SMT-LIB text on several binaries at once; the first definite verdict wins and the
    others are killed.  Returns (result, model, seconds, solver_name).  A `(error` from every solver is
    'error'; all timeouts 'timeout'."""
    fd, path = tempfile.mkstemp(suffix='.smt2', prefix='pyk_')
    os.write(fd, text.encode())
    os.close(fd)
    procs = {}
    t0 = time.time()
    try:
        for sname in solvers:
            cmd = list(_smt.SOLVERS[sname])
            if sname.startswith('z3'):
                cmd += [f'-T:{int(timeout_s)}']
            else:
                cmd += [f'--tlimit={int(timeout_s * 1000)}']
            cmd.append(path)
            procs[sname] = subprocess.Popen(cmd, stdout=subprocess.PIPE, stderr=subprocess.STDOUT, text=True,
                                            start_new_session=True)
        pending = dict(procs)
        results = {}
        while pending and time.time() - t0 < timeout_s + 10:
            for sname, p in list(pending.items()):
                if p.poll() is not None:
                    out = p.stdout.read()
                    del pending[sname]
                    first = out.strip().split('\n', 1)[0].strip() if out.strip() else ''
                    errs = [l for l in out.split('\n') if '(error' in l and not (first == 'unsat' and 'model' in l.lower())]
                    if errs:
                        results[sname] = ('error', out[-500:])
                    elif first in ('sat', 'unsat'):
                        return first, (_smt.parse_model(out) if first == 'sat' else {}), time.time() - t0, sname
                    else:
                        results[sname] = ('timeout' if ('timeout' in out or 'interrupted' in out or first == 'unknown'
                                                        or not out.strip()) else 'error', out[-500:])
            time.sleep(0.05)
        kinds = {v[0] for v in results.values()}
        if kinds == {'error'}:
            return 'error', {'raw': results}, time.time() - t0, ','.join(solvers)
        return 'timeout', {}, time.time() - t0, ','.join(solvers)
    finally:
        for p in procs.values():
            if p.poll() is None:
                try:
                    os.killpg(p.pid, signal.SIGKILL)
                except OSError:
                    pass
            try:
                p.wait(timeout=5)
            except Exception:
                pass
        try:
            os.unlink(path)
        except OSError:
            pass


def portfolio_many(jobs, workers=8):
    """jobs: list of (key, text, solvers, timeout_s) -> {key: (result, model, secs, solver)}; `workers`
    bounds the number of obligations in flight (each runs len(solvers) processes)."""
    import concurrent.futures as cf
    out = {}
    with cf.ThreadPoolExecutor(max_workers=max(1, workers)) as ex:
        futs = {ex.submit(portfolio, text, solvers, to): key for key, text, solvers, to in jobs}
        for f in cf.as_completed(futs):
            out[futs[f]] = f.result()
    return out
