"""E2 runner: CrossHair (symbolic execution of the real Python with z3) on harness functions.

`run(targets, per_condition_timeout, ...)` starts one OS process per condition
(`crosshair check --report_all module.function`) under a hard wall-clock timeout, in parallel, and
returns a verdict per target:

  confirmed      "Confirmed over all paths"  — the only verdict that discharges an obligation
  refuted        a counterexample was printed (message holds the call that fails)
  unknown        "Not confirmed" / "Unable to meet precondition" / timeout / anything else

Harness modules live in /verif/harness and import the real code through vt.loader.
"""
import concurrent.futures as cf
import os
import re
import subprocess
import sys
import time

from .common import VERIF

PY = os.path.join(VERIF, '.venv', 'bin', 'python')


def _one(target, pct, hard_timeout, env_extra, per_path_timeout):
    env = dict(os.environ)
    env['PYTHONPATH'] = VERIF + os.pathsep + env.get('PYTHONPATH', '')
    env['PYTHONDONTWRITEBYTECODE'] = '1'
    env['PYTHONHASHSEED'] = '0'
    env.update(env_extra or {})
    cmd = [PY, '-m', 'crosshair', 'check', '--report_all', '--per_condition_timeout', str(pct)]
    if per_path_timeout:
        cmd += ['--per_path_timeout', str(per_path_timeout)]
    cmd.append(target)
    t = time.time()
    try:
        p = subprocess.run(cmd, cwd=VERIF, env=env, capture_output=True, text=True, timeout=hard_timeout)
        out = p.stdout + p.stderr
        rc = p.returncode
    except subprocess.TimeoutExpired as e:
        out = ((e.stdout or b'').decode() if isinstance(e.stdout, bytes) else (e.stdout or '')) + '\n[hard timeout]'
        rc = -9
    dt = time.time() - t
    verdict = 'unknown'
    msg = out.strip()[-2000:]
    if re.search(r'info: Confirmed over all paths', out) and 'error:' not in out:
        verdict = 'confirmed'
    m = re.search(r'error: (.*)', out)
    if m:
        verdict = 'refuted'
        msg = m.group(1).strip()
    elif 'Not confirmed' in out:
        msg = 'Not confirmed'
    elif 'Unable to meet precondition' in out:
        msg = 'Unable to meet precondition'
    return target, verdict, msg, dt, rc


def run(targets, per_condition_timeout=60, hard_factor=1.5, env=None, workers=None, per_path_timeout=None):
    """targets: list of 'harness.module.function'.  Returns {target: (verdict, message, seconds)}."""
    workers = workers or min(len(targets), os.cpu_count() or 4) or 1
    res = {}
    with cf.ThreadPoolExecutor(max_workers=workers) as ex:
        futs = [ex.submit(_one, t, per_condition_timeout, per_condition_timeout * hard_factor + 20, env,
                          per_path_timeout) for t in targets]
        for f in cf.as_completed(futs):
            t, v, m, dt, rc = f.result()
            res[t] = (v, m, dt)
    return res


def parse_counterexample(msg, argnames=None):
    """'false when calling f(1, b=2) (which returns False)' -> {'a': 1, 'b': 2}; positional values are
    named from `argnames`.  Values are evaluated as Python literals (ints, bools, strs, None, lists, floats)."""
    m = re.search(r'when calling (\w+)\((.*?)\)(?= \(which returns|\s*$)', msg.split('\n')[0])
    if not m:
        return None
    try:
        a, k = eval(f'__f({m.group(2)})', {'__builtins__': {}}, {
            '__f': lambda *a, **k: (a, k), 'True': True, 'False': False, 'None': None, 'float': float})
    except Exception:
        return None
    out = dict(k)
    for i, v in enumerate(a):
        if argnames is None or i >= len(argnames):
            return None
        out[argnames[i]] = v
    return out


def gen_module(name, source):
    """Write a generated harness module harness/gen/<name>.py (CrossHair reads contracts from source text)."""
    d = os.path.join(VERIF, 'harness', 'gen')
    os.makedirs(d, exist_ok=True)
    init = os.path.join(d, '__init__.py')
    if not os.path.exists(init):
        open(init, 'w').close()
    with open(os.path.join(d, name + '.py'), 'w') as f:
        f.write(source)
    return f'harness.gen.{name}'
