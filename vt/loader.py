"""Import the repository's own Python modules offline.

/venv lacks ~35 third-party packages and the build products hail/version.py, hailtop/version.py.
`install()` puts a finder at the END of sys.meta_path that fabricates inert stub modules for
module roots nothing else can find (never for in-repo roots), injects the version modules, sets the
environment variables several modules read at import, and provides a faithful `decorator.decorator`
shim.  Nothing under /repo is copied or modified.
"""
import importlib.abc
import importlib.machinery
import importlib.util
import os
import sys
import types

REPO = os.environ.get('VERIF_REPO', '/repo')
INREPO = ('batch', 'gear', 'web_common', 'hailtop', 'auth', 'ci', 'hail', 'monitoring')
PATHS = ['batch', 'gear', 'web_common', 'hail/python', 'auth', 'ci']

ENV = {
    'HAIL_SHA': 'deadbeef', 'HAIL_DEFAULT_NAMESPACE': 'default', 'HAIL_SCOPE': 'deploy', 'CLOUD': 'gcp',
    'HAIL_DOCKER_ROOT_IMAGE': 'ubuntu:22.04', 'HAIL_DOCKER_PREFIX': 'docker.invalid',
    'KUBERNETES_SERVER_URL': 'https://k8s.invalid', 'INTERNAL_GATEWAY_IP': '10.0.0.1',
    'HAIL_BATCH_STORAGE_URI': 'gs://bucket/batch', 'HAIL_QUERY_STORAGE_URI': 'gs://bucket/query',
    'HAIL_QUERY_ACCEPTABLE_JAR_SUBFOLDER': '/jars', 'HAIL_DOMAIN': 'hail.invalid',
    'HAIL_BATCH_PODS_NAMESPACE': 'default', 'PROJECT': 'proj', 'HAIL_GCP_PROJECT': 'proj',
    'HAIL_GCP_REGION': 'us-central1', 'HAIL_GCP_ZONE': 'us-central1-a',
    'HAIL_CLOUD': 'gcp', 'HAIL_CURL_IMAGE': 'curl', 'HAIL_NETCAT_UBUNTU_IMAGE': 'nc', 'HAIL_NAMESPACE': 'default',
    'HAIL_BATCH_WORKER_IMAGE': 'worker', 'DOCKER_PREFIX': 'docker.invalid', 'PORT': '5000', 'IP_ADDRESS': '10.0.0.2',
    'HAIL_VOLUME_IMAGE': 'vol', 'HAIL_BATCH_WORKER_PORT': '5000', 'HAIL_BATCH_WORKER_IP': '10.0.0.3',
    'HAIL_AZURE_OAUTH_SCOPE': 'scope', 'CI_UTILS_IMAGE': 'ciu', 'BATCH_WORKER_IMAGE': 'worker', 'ZONE': 'us-central1-a',
    'UNRESERVED_WORKER_DATA_DISK_SIZE_GB': '10', 'REGION': 'us-central1', 'NAMESPACE': 'default', 'NAME': 'w',
    'MAX_IDLE_TIME_MSECS': '30000', 'INTERNET_INTERFACE': 'eth0', 'INSTANCE_ID': 'i', 'HAIL_WORKDIR_IMAGE': 'wd',
    'HAIL_SSH_PUBLIC_KEY': 'k', 'HAIL_SQL_DATABASE': 'db', 'HAIL_PRODUCTION_DOMAIN': 'hail.invalid',
    'HAIL_CI_UTILS_IMAGE': 'ciu', 'HAIL_CI_STORAGE_URI': 'gs://bucket/ci', 'HAIL_BUILDKIT_IMAGE': 'bk',
    'HAIL_BATCH_REMOTE_TMPDIR': 'gs://bucket/tmp', 'DOCKER_ROOT_IMAGE': 'ubuntu:22.04', 'CORES': '4',
    'BATCH_WORKER_IMAGE_ID': 'id', 'BATCH_LOGS_STORAGE_URI': 'gs://bucket/logs', 'ACTIVATION_TOKEN': 't',
    'ACCEPTABLE_QUERY_JAR_URL_PREFIX': 'gs://bucket/jars', 'HAIL_CI_GITHUB_CONTEXT': 'ci-test',
    'HAIL_BATCH_EXTRA_DOCKER_RUN_FLAGS': '', 'HAIL_TOKEN': 'tok',
}


class _Stub(types.ModuleType):
    __path__ = []

    def __getattr__(self, name):
        if name.startswith('__') and name.endswith('__'):
            raise AttributeError(name)
        obj = _mkclass(self.__name__ + '.' + name)
        setattr(self, name, obj)
        return obj


class _Meta(type):
    def __getattr__(cls, name):
        if name.startswith('__') and name.endswith('__'):
            raise AttributeError(name)
        obj = _mkclass(cls.__qualname__ + '.' + name)
        setattr(cls, name, obj)
        return obj

    def __getitem__(cls, item):
        return cls

    def __or__(cls, o):
        return cls

    def __ror__(cls, o):
        return cls


def _mkclass(qual):
    def __init__(self, *a, **k):
        pass

    def __call__(self, *a, **k):
        if len(a) == 1 and callable(a[0]) and not k:
            return a[0]
        return _mkclass(qual + '()')()

    def __getattr__(self, name):
        if name.startswith('__') and name.endswith('__'):
            raise AttributeError(name)
        return _mkclass(qual + '.' + name)()

    return _Meta(
        qual.split('.')[-1] or 'X',
        (),
        {
            '__init__': __init__, '__call__': __call__, '__getattr__': __getattr__, '__qualname__': qual,
            '__iter__': lambda self: iter(()), '__enter__': lambda s: s, '__exit__': lambda s, *a: False,
        },
    )


class Finder(importlib.abc.MetaPathFinder, importlib.abc.Loader):
    def __init__(self):
        self.made = []

    def find_spec(self, name, path, target=None):
        root = name.split('.')[0]
        if root in INREPO or root in _NEVER or root.startswith('_'):
            return None
        have = sys.modules.get(root)
        if have is not None and not isinstance(have, _Stub):
            return None  # a real package's missing optional submodule stays missing
        return importlib.machinery.ModuleSpec(name, self, is_package=True)

    def create_module(self, spec):
        m = _Stub(spec.name)
        self.made.append(spec.name)
        return m

    def exec_module(self, module):
        pass


_finder = None
_NEVER = {'msvcrt', 'winreg', 'nt', 'java', 'org', 'pwd_windows', 'readline', 'pytest', 'crosshair', 'z3'}


def _decorator_shim():
    import functools
    import inspect

    m = types.ModuleType('decorator')

    def decorator(caller):
        def dec(func):
            if inspect.iscoroutinefunction(func) or inspect.iscoroutinefunction(caller):
                @functools.wraps(func)
                async def fun(*a, **k):
                    return await caller(func, *a, **k)
            else:
                @functools.wraps(func)
                def fun(*a, **k):
                    return caller(func, *a, **k)
            return fun
        return dec

    m.decorator = decorator
    return m


def install(extra_env=None):
    """Idempotent. Returns the stub finder (its .made lists fabricated modules)."""
    global _finder
    if _finder is not None:
        return _finder
    for k, v in {**ENV, **(extra_env or {})}.items():
        os.environ.setdefault(k, v)
    for p in reversed(PATHS):
        full = os.path.join(REPO, p)
        if full not in sys.path:
            sys.path.insert(0, full)
    for name in ('hailtop.version', 'hail.version'):
        v = types.ModuleType(name)
        v.__pip_version__ = '0.0.0'
        v.__version__ = '0.0.0-deadbeef'
        v.__revision__ = 'deadbeef'
        sys.modules[name] = v
    if importlib.util.find_spec('decorator') is None:
        sys.modules['decorator'] = _decorator_shim()
    _finder = Finder()
    sys.meta_path.append(_finder)
    patch_gear_config()
    return _finder


class _DefaultDict(dict):
    def __missing__(self, k):
        return 'x-' + str(k)


def patch_gear_config():
    """gear.cloud_config reads /global-config at call time; give it a dict."""
    import gear.cloud_config as cc

    def read_config_secret(*a, **k):
        return _DefaultDict({'cloud': 'gcp', 'gcp_project': 'proj', 'gcp_region': 'us-central1', 'gcp_zone': 'us-central1-a',
                'batch_gcp_regions': '["us-central1"]', 'domain': 'hail.invalid', 'default_namespace': 'default',
                'docker_prefix': 'docker.invalid', 'docker_root_image': 'ubuntu:22.04', 'kubernetes_server_url':
                'https://k8s.invalid', 'batch_logs_storage_uri': 'gs://bucket/logs', 'test_storage_uri': 'gs://bucket/t',
                'organization_domain': 'hail.invalid'})

    cc.read_config_secret = read_config_secret


def src(relpath):
    """Path of a repository file."""
    return os.path.join(REPO, relpath)


def read(relpath):
    with open(src(relpath), encoding='utf-8') as f:
        return f.read()
