"""E4 extensions (owned by the C29/C31 builder): a small regex AST with exact language transformers.

`vt.strlang` builds z3 regexes directly.  Two of the string-language checks need *language
transformations* that z3 has no operator for:

* the pre-image of a language under a character-erasing map ("remove every TAB/CR/LF, then parse"),
  used by both `urllib.parse.urlsplit` and the WHATWG URL parser (C29);
* the pre-image under a letter-to-letter map (`str.lower()` in `SplitResult.hostname`);

so regexes are first built as a tiny AST (`Rx`), transformed, and only then lowered to z3.  The
transformations are exact (inverse homomorphisms commute with union, intersection, complement and
concatenation; the star/loop/epsilon cases are handled explicitly, see `erase_preimage`).

Also here: tabulation of JVM character classes with the installed JDK (C31).
"""
import os
import subprocess
import tempfile

import z3

from . import strlang
from .common import HarnessError

PYMAX = strlang.PYMAX


# ---- AST ---------------------------------------------------------------------------------------
class Rx:
    __slots__ = ('op', 'a')

    def __init__(self, op, *a):
        self.op = op
        self.a = a

    def __repr__(self):
        return f'Rx({self.op}, {self.a!r})'


def EPS():
    return Rx('eps')


def EMPTY():
    return Rx('empty')


def ALL():
    """Sigma*"""
    return Rx('all')


def cset(spec):
    """spec: a str (each char a member) or a list of (lo, hi) code point ranges."""
    if isinstance(spec, str):
        rs = [(ord(c), ord(c)) for c in spec]
    else:
        rs = list(spec)
    return Rx('set', tuple(strlang.rs_norm(rs)))


def nset(spec):
    s = cset(spec)
    return Rx('set', tuple(strlang.rs_neg(list(s.a[0]))))


def rng(lo, hi):
    return (ord(lo), ord(hi))


def anychar():
    return Rx('set', ((0, PYMAX),))


def lit(s):
    if s == '':
        return EPS()
    return cat(*[cset(c) for c in s])


def cat(*xs):
    out = []
    for x in xs:
        if x.op == 'cat':
            out.extend(x.a[0])
        elif x.op == 'eps':
            continue
        elif out and x.op == 'star' and out[-1].op == 'star' and x.a[0].op == 'set' and out[-1].a[0].op == 'set' \
                and x.a[0].a == out[-1].a[0].a:
            continue        # C* C* = C*
        else:
            out.append(x)
    if not out:
        return EPS()
    return out[0] if len(out) == 1 else Rx('cat', tuple(out))


def alt(*xs):
    xs = [x for x in xs if x.op != 'empty']
    if not xs:
        return EMPTY()
    return xs[0] if len(xs) == 1 else Rx('alt', tuple(xs))


def inter(*xs):
    return xs[0] if len(xs) == 1 else Rx('and', tuple(xs))


def compl(x):
    return Rx('not', x)


def diff(a, b):
    return inter(a, compl(b))


def star(x):
    return Rx('star', x)


def plus(x):
    return cat(x, star(x))


def opt(x):
    return alt(EPS(), x)


def loop(x, lo, hi):
    return Rx('loop', x, lo, hi)


def ci(s):
    """ASCII case-insensitive literal."""
    parts = []
    for c in s:
        if c.isascii() and c.isalpha():
            parts.append(cset(c.lower() + c.upper()))
        else:
            parts.append(cset(c))
    return cat(*parts)


# ---- set arithmetic ----------------------------------------------------------------------------
def rs_minus(rs, cut):
    neg = strlang.rs_neg(list(cut))
    out = []
    for lo, hi in rs:
        for a, b in neg:
            l, h = max(lo, a), min(hi, b)
            if l <= h:
                out.append((l, h))
    return tuple(strlang.rs_norm(out))


# ---- exact transformers --------------------------------------------------------------------------
def erase_preimage(x, T):
    """{ w : erase_T(w) in L(x) }, T a tuple of ranges of the erased characters.

    h^-1 commutes with alt/and/not/cat.  Base cases: eps -> T*, {c in C} -> T*(C\\T)T*,
    L* -> (T | h^-1 L)*, L{0,k} -> T* | (h^-1 L){1,k}."""
    Ts = star(Rx('set', tuple(T)))
    op = x.op
    if op == 'eps':
        return Ts
    if op in ('empty', 'all'):
        return x
    if op == 'set':
        rest = rs_minus(x.a[0], T)
        if not rest:
            return EMPTY()
        return cat(Ts, Rx('set', rest), Ts)
    if op == 'cat':
        return cat(*[erase_preimage(c, T) for c in x.a[0]])
    if op == 'alt':
        return alt(*[erase_preimage(c, T) for c in x.a[0]])
    if op == 'and':
        return inter(*[erase_preimage(c, T) for c in x.a[0]])
    if op == 'not':
        return compl(erase_preimage(x.a[0], T))
    if op == 'star':
        return star(alt(Rx('set', tuple(T)), erase_preimage(x.a[0], T)))
    if op == 'loop':
        body, lo, hi = x.a
        p = erase_preimage(body, T)
        if lo == 0:
            if hi == 0:
                return Ts
            return alt(Ts, loop(p, 1, hi))
        return loop(p, lo, hi)
    raise HarnessError(f'erase_preimage: unknown node {op}')


def map_preimage(x, inv):
    """{ w : f(w) in L(x) } for a letter-to-letter map f given by inv(ranges) -> ranges of f^-1."""
    op = x.op
    if op in ('eps', 'empty', 'all'):
        return x
    if op == 'set':
        return Rx('set', tuple(inv(x.a[0])))
    if op in ('cat', 'alt', 'and'):
        return Rx(op, tuple(map_preimage(c, inv) for c in x.a[0]))
    if op == 'not':
        return compl(map_preimage(x.a[0], inv))
    if op == 'star':
        return star(map_preimage(x.a[0], inv))
    if op == 'loop':
        return loop(map_preimage(x.a[0], inv), x.a[1], x.a[2])
    raise HarnessError(f'map_preimage: unknown node {op}')


_CHARMAPS = {}


def charmap_inverse(method):
    """inverse image function for a per-character str method ('lower', 'upper', 'casefold'): returns
    inv(ranges) = all x with len(getattr(x, method)()) == 1 and that image in ranges (the real method over all
    code points).  Characters whose image has several characters (e.g. 'ß'.upper() == 'SS') are left out:
    languages built with it under-approximate on strings containing such characters (validated on points)."""
    if method not in _CHARMAPS:
        moved = []
        for cp in range(PYMAX + 1):
            if 0xD800 <= cp <= 0xDFFF:
                continue
            img = getattr(chr(cp), method)()
            if img != chr(cp):
                moved.append((cp, img))
        _CHARMAPS[method] = moved
    moved = _CHARMAPS[method]

    def inv(rs):
        rs = strlang.rs_norm(list(rs))
        out = list(rs_minus(tuple(rs), tuple(strlang.rs_norm([(c, c) for c, _ in moved]))))
        for cp, img in moved:
            if len(img) == 1 and strlang.rs_contains(rs, ord(img)):
                out.append((cp, cp))
        return strlang.rs_norm(out)
    return inv


def lower_inverse(rs):
    """All x with len(x.lower()) == 1 and x.lower() in rs (real str.lower over all code points)."""
    return charmap_inverse('lower')(rs)


# ---- lowering to z3 ----------------------------------------------------------------------------
def to_z3(x, charsets=None, red=None):
    """Lower to a z3 regex; every character set used is appended to `charsets` (alphabet reduction).
    With a Reducer `red`, character sets are replaced by the representatives they contain."""
    op = x.op
    if op == 'eps':
        return strlang.re_eps()
    if op == 'empty':
        return z3.Empty(strlang.RE_SORT)
    if op == 'all':
        return strlang.re_full()
    if op == 'set':
        if charsets is not None:
            charsets.append(list(x.a[0]))
        if red is not None:
            return red.z3set(list(x.a[0]))
        return strlang.z3_charset(list(x.a[0]))
    if op == 'cat':
        return z3.Concat(*[to_z3(c, charsets, red) for c in x.a[0]])
    if op == 'alt':
        return z3.Union(*[to_z3(c, charsets, red) for c in x.a[0]])
    if op == 'and':
        return z3.Intersect(*[to_z3(c, charsets, red) for c in x.a[0]])
    if op == 'not':
        return z3.Complement(to_z3(x.a[0], charsets, red))
    if op == 'star':
        return z3.Star(to_z3(x.a[0], charsets, red))
    if op == 'loop':
        body, lo, hi = x.a
        b = to_z3(body, charsets, red)
        if hi is None:
            return z3.Concat(z3.Loop(b, lo, lo), z3.Star(b)) if lo else z3.Star(b)
        return z3.Loop(b, lo, hi)
    raise HarnessError(f'to_z3: unknown node {op}')


def sval(s):
    """z3 string constant for the Python string s.  z3.StringVal leaves a literal backslash as is, so a Python
    string containing backslash-u-hex would be re-read by z3 as a unicode escape; here the backslash itself is
    escaped."""
    enc = ''.join(ch if 32 <= ord(ch) < 127 and ch != '\\' else '\\u{%x}' % ord(ch) for ch in s)
    return z3.SeqRef(z3.Z3_mk_string(z3.main_ctx().ref(), enc), z3.main_ctx())


class Reducer:
    """Alphabet compression.  All languages of a check are built from finitely many character sets; code points
    with the same membership signature over those sets are interchangeable, so each signature class is replaced
    by one representative (its smallest member, which must lie in z3's alphabet).  For a language L built from
    the sets, and L_red built the same way from the reduced sets:  s in L  <=>  h(s) in L_red  (h maps every
    character to its representative), hence  L empty  <=>  L_red & REPS* empty.  z3 then works with unions of a
    few dozen single characters instead of the ~770 ranges of \\w.  Witnesses are real strings."""

    def __init__(self, charsets):
        sets = [strlang.rs_norm(c) for c in charsets]
        uniq = []
        for c in sets:
            if c not in uniq:
                uniq.append(c)
        sets = uniq
        cuts = {0, PYMAX + 1, 0xD800, 0xE000}
        for rs in sets:
            for lo, hi in rs:
                cuts.add(lo)
                cuts.add(hi + 1)
        cuts = sorted(cuts)
        import bisect
        starts = [[lo for lo, _ in rs] for rs in sets]

        def member(k, cp):
            i = bisect.bisect_right(starts[k], cp) - 1
            return i >= 0 and sets[k][i][1] >= cp

        self.classes = {}      # signature -> list of (lo, hi)
        for a, b in zip(cuts, cuts[1:]):
            if 0xD800 <= a <= 0xDFFF:
                continue
            sig = tuple(member(k, a) for k in range(len(sets)))
            self.classes.setdefault(sig, []).append((a, b - 1))
        self.rep_of_sig = {}
        for sig, ivs in self.classes.items():
            r = min(lo for lo, _ in ivs)
            if r > strlang.ZMAX:
                raise HarnessError(f'signature class starting at U+{r:X} has no member in z3\'s alphabet')
            self.rep_of_sig[sig] = r
        self.reps = sorted(self.rep_of_sig.values())
        self._ivs = sorted((lo, hi, self.rep_of_sig[sig]) for sig, ivs in self.classes.items() for lo, hi in ivs)
        self._los = [x[0] for x in self._ivs]
        self._bisect = bisect

    def rep(self, cp):
        i = self._bisect.bisect_right(self._los, cp) - 1
        lo, hi, r = self._ivs[i]
        if not lo <= cp <= hi:
            raise HarnessError(f'code point U+{cp:X} outside the alphabet (surrogate?)')
        return r

    def h(self, s):
        return ''.join(chr(self.rep(ord(c))) for c in s)

    def reduce(self, rs):
        rs = strlang.rs_norm(rs)
        return [(r, r) for r in self.reps if strlang.rs_contains(rs, r)]

    def z3set(self, rs):
        return strlang.z3_charset(self.reduce(rs))

    def repstar(self):
        return z3.Star(strlang.z3_charset([(r, r) for r in self.reps]))

    def in_lang(self, zre_red, s):
        return in_lang(zre_red, self.h(s))


class ReducedReTranslator(strlang.ReTranslator):
    """strlang.ReTranslator with character sets replaced by their representatives (second pass; the first pass
    with the plain translator collects the sets)."""

    def __init__(self, red):
        super().__init__()
        self.red = red

    def _set(self, rs):
        rs = strlang.rs_norm(rs)
        self.charsets.append(rs)
        return self.red.z3set(rs)


def in_lang(zre, s):
    """Concrete membership decided by z3 (used for translator validation)."""
    v = z3.String('s')
    sol = z3.Solver()
    sol.set('timeout', 30000)
    sol.add(v == sval(s), z3.InRe(v, zre))
    r = str(sol.check())
    if r == 'unknown':
        raise HarnessError(f'z3 could not decide membership of {s!r}')
    return r == 'sat'


def zstr_ok(s):
    """Can z3's string sort represent s exactly (code points <= 0x2FFFF, no surrogates)?"""
    return all(ord(c) <= strlang.ZMAX and not (0xD800 <= ord(c) <= 0xDFFF) for c in s)


# ---- JVM character classes (C31) ----------------------------------------------------------------
_JAVA = r'''
public class CharTab {
  static void dump(String name, java.util.function.IntPredicate p) {
    StringBuilder sb = new StringBuilder(name);
    int start = -1;
    for (int cp = 0; cp <= 0x10FFFF + 1; cp++) {
      boolean ok = cp <= 0x10FFFF && !(cp >= 0xD800 && cp <= 0xDFFF) && p.test(cp);
      if (ok && start < 0) start = cp;
      if (!ok && start >= 0) { sb.append(' ').append(start).append('-').append(cp - 1); start = -1; }
    }
    System.out.println(sb);
  }
  public static void main(String[] a) {
    dump("identStart", Character::isJavaIdentifierStart);
    dump("identPart", Character::isJavaIdentifierPart);
    dump("isISOControl", Character::isISOControl);
    System.out.println("version " + System.getProperty("java.version"));
  }
}
'''


def jvm_char_tables():
    """Character.isJavaIdentifierStart/Part over all code points, computed by the installed JDK (single-file
    source launch).  Returns {'identStart': ranges, 'identPart': ranges, 'version': str}.

    JavaTokenParsers.ident works on UTF-16 chars (Character.isJavaIdentifierStart(char)); the caller
    decides what to do with supplementary code points."""
    with tempfile.TemporaryDirectory() as d:
        p = os.path.join(d, 'CharTab.java')
        with open(p, 'w') as f:
            f.write(_JAVA)
        try:
            r = subprocess.run(['java', p], capture_output=True, text=True, timeout=120)
        except Exception as e:  # noqa: BLE001
            raise HarnessError(f'cannot run the JDK to tabulate character classes: {e}')
        if r.returncode != 0:
            raise HarnessError(f'JDK tabulation failed: {r.stderr[-300:]}')
    out = {}
    for line in r.stdout.splitlines():
        parts = line.split()
        if not parts:
            continue
        if parts[0] == 'version':
            out['version'] = parts[1]
        else:
            out[parts[0]] = [tuple(int(x) for x in q.split('-')) for q in parts[1:]]
    for k in ('identStart', 'identPart'):
        if not out.get(k):
            raise HarnessError(f'JDK tabulation produced no {k} table')
    return out
