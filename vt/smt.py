"""E3 helper: run SMT-LIB2 text on the installed solver binaries (z3-new 5.1, /usr/bin/z3 4.8.12, cvc5 1.0).

`solve(text, solver, timeout_s)` -> (result, model_dict, seconds, raw).  result is 'sat' | 'unsat' |
'unknown' | 'timeout' | 'error'.  Any `(error` line makes the result 'error' (an old z3 can drop an
assertion it cannot parse and still answer).  `solve_many` farms independent queries to a pool.
"""
import concurrent.futures as cf
import os
import re
import subprocess
import tempfile
import time

SOLVERS = {
    'z3new': ['z3-new', '-smt2'],
    'z3old': ['/usr/bin/z3', '-smt2'],
    'cvc5': ['cvc5', '--lang=smt2', '--produce-models'],
}


def solve(text, solver='z3new', timeout_s=60, extra_args=()):
    if '(check-sat)' not in text:
        text += '\n(check-sat)\n(get-model)\n'
    fd, path = tempfile.mkstemp(suffix='.smt2', prefix='vt_')
    os.write(fd, text.encode())
    os.close(fd)
    cmd = SOLVERS[solver] + list(extra_args)
    if solver.startswith('z3'):
        cmd += [f'-T:{int(timeout_s)}']
    else:
        cmd += [f'--tlimit={int(timeout_s * 1000)}']
    cmd.append(path)
    t = time.time()
    try:
        p = subprocess.run(cmd, capture_output=True, text=True, timeout=timeout_s + 10)
        out = p.stdout + p.stderr
    except subprocess.TimeoutExpired:
        out = 'timeout'
    finally:
        try:
            os.unlink(path)
        except OSError:
            pass
    dt = time.time() - t
    first = out.strip().split('\n', 1)[0].strip() if out.strip() else ''
    errs = [l for l in out.split('\n') if '(error' in l and not (first == 'unsat' and 'model' in l.lower())]
    if errs:
        res = 'error'
    elif first in ('sat', 'unsat', 'unknown'):
        res = first
    elif 'timeout' in out or 'interrupted' in out:
        res = 'timeout'
    else:
        res = 'error'
    if res == 'unsat' and '(error' in out:
        # "model is not available" after unsat is expected when get-model follows
        pass
    return res, (parse_model(out) if res == 'sat' else {}), dt, out[-4000:]


_DEF = re.compile(r'\(define-fun\s+(\S+)\s+\(\)\s+(\([^()]*\)|\S+)\s+', re.S)


def parse_model(out):
    """Very small model reader: Int, Bool, BitVec (#x/#b), negative ints; everything else raw text."""
    model = {}
    i = 0
    for m in _DEF.finditer(out):
        name = m.group(1).strip('|')
        j = m.end()
        depth = 0
        k = j
        while k < len(out):
            c = out[k]
            if c == '(':
                depth += 1
            elif c == ')':
                if depth == 0:
                    break
                depth -= 1
            k += 1
        val = out[j:k].strip()
        model[name] = _val(val)
    return model


def _val(v):
    v = v.strip()
    if v in ('true', 'false'):
        return v == 'true'
    if re.fullmatch(r'-?\d+', v):
        return int(v)
    m = re.fullmatch(r'\(-\s+(\d+)\)', v)
    if m:
        return -int(m.group(1))
    if v.startswith('#x'):
        return int(v[2:], 16)
    if v.startswith('#b'):
        return int(v[2:], 2)
    return v


def solve_many(jobs, workers=None):
    """jobs: list of (key, text, solver, timeout_s).  Returns {key: (res, model, secs, raw)}."""
    workers = workers or min(len(jobs), os.cpu_count() or 4) or 1
    out = {}
    with cf.ThreadPoolExecutor(max_workers=workers) as ex:
        futs = {ex.submit(solve, text, solver, to): key for key, text, solver, to in jobs}
        for f in cf.as_completed(futs):
            out[futs[f]] = f.result()
    return out


def agree(text, timeout_s=60, solvers=('z3new', 'cvc5')):
    """Decide with two back ends; split verdicts are inconclusive ('split')."""
    rs = solve_many([(s, text, s, timeout_s) for s in solvers])
    verdicts = {s: rs[s][0] for s in solvers}
    definite = {v for v in verdicts.values() if v in ('sat', 'unsat')}
    if len(definite) == 1:
        v = definite.pop()
        s = next(s for s in solvers if verdicts[s] == v)
        return v, rs[s][1], max(r[2] for r in rs.values()), verdicts
    if len(definite) == 2:
        return 'split', {}, max(r[2] for r in rs.values()), verdicts
    return 'unknown', {}, max(r[2] for r in rs.values()), verdicts
