"""shapesym (E5): region-directed path exploration for *symbolic program builders*.

A builder function constructs a program (a Batch pipeline) from symbolic inputs and runs the repository's real
front-end code on it natively.  Symbolic inputs are z3-backed proxies (vt.glue.SBool / SInt) and solver-chosen
shape integers (`choose`).  Whenever Python branches on a proxy -- in the harness (`choose`) or deep inside the
real code (`if not child._always_run`, `if fail_bit`) -- the explorer asks z3 which sides are feasible, follows
one and queues the other as a *region* (a conjunction of constraints over the inputs) to be explored by a later
re-execution.

Difference to vt.glue.Explorer: a pending alternative is a region, not a prefix of branch decisions.  The code
under test iterates over `set`s of objects hashed by address, so two executions with the same inputs may meet
the same conditions in a different order; replaying decisions by position would silently mis-align.  With
regions every execution is simply "explore the inputs satisfying R": at each symbolic condition c the explorer
checks R /\ pc /\ c and R /\ pc /\ not c; if both are satisfiable it continues with c and queues
R /\ pc /\ not c.  The regions handed out partition the input space whatever the order of conditions is, and
`Explorer.exhaustive()` re-proves that with one solver query over all recorded path conditions
(constraints /\ domains /\ not (pc_1 \/ ... \/ pc_n) must be unsat).

Only one solver call is needed per condition: the current model of R /\ pc already tells which side is
satisfiable.
"""
import asyncio
import time

import z3

from . import glue
from .common import HarnessError
from .glue import SBool, SInt  # noqa: F401  (re-exported for harnesses)


class Path:
    """One explored execution: `pc` (list of z3 constraints: region + decisions) describes exactly the inputs
    for which the execution was followed; `value`/`exc` is what the body returned/raised."""
    __slots__ = ('pc', 'value', 'exc', 'choices')

    def __init__(self, pc, value=None, exc=None, choices=None):
        self.pc = pc
        self.value = value
        self.exc = exc
        self.choices = choices or {}

    def cond(self):
        return z3.And(*self.pc) if self.pc else z3.BoolVal(True)


class _Ctx:
    """Duck-types vt.glue.Ctx (glue.SBool.__bool__ calls `glue._CTX.decide`)."""

    def __init__(self, ex, region):
        self.ex = ex
        self.region = list(region)
        self.pc = []          # decisions of this execution (forced ones included)
        self.alts = []
        self.known = {}       # ast id -> bool, for conditions literally fixed by region/pc
        self.choices = {}
        s = ex.solver
        s.push()
        for c in self.region:
            s.add(c)
            self._note(c)
        r = s.check()
        ex.solver_calls += 1
        if str(r) != 'sat':
            s.pop()
            raise HarnessError(f'shapesym: region is {r}')
        self.model = s.model()

    def _note(self, c):
        if z3.is_not(c):
            self.known[c.arg(0).get_id()] = (False, c)
        else:
            self.known[c.get_id()] = (True, c)

    def close(self):
        self.ex.solver.pop()

    def full(self):
        return self.region + self.pc

    def assume(self, cond):
        """Restrict this execution to `cond` without queueing the complement (used for domain limits)."""
        k = self.known.get(cond.get_id())
        if k is not None:
            if not k[0]:
                raise glue.PathAbort('infeasible')
            return
        s = self.ex.solver
        if not z3.is_true(self.model.eval(cond, model_completion=True)):
            s.push()
            s.add(cond)
            r = str(s.check())
            self.ex.solver_calls += 1
            m2 = s.model() if r == 'sat' else None
            s.pop()
            if r == 'unsat':
                raise glue.PathAbort('infeasible')
            if r != 'sat':
                raise glue.GlueHarnessAbort(f'shapesym: solver said {r}')
            self.model = m2
        s.add(cond)
        self.pc.append(cond)
        self.known[cond.get_id()] = (True, cond)

    def decide(self, cond):
        if isinstance(cond, bool):
            return cond
        cond = z3.simplify(cond)
        if z3.is_true(cond):
            return True
        if z3.is_false(cond):
            return False
        neg = False
        while z3.is_not(cond):
            cond = cond.arg(0)
            neg = not neg
        k = self.known.get(cond.get_id())
        if k is not None:
            return k[0] != neg
        ex = self.ex
        s = ex.solver
        v = z3.is_true(self.model.eval(cond, model_completion=True))
        other = z3.Not(cond) if v else cond
        s.push()
        s.add(other)
        r = str(s.check())
        ex.solver_calls += 1
        m2 = s.model() if r == 'sat' else None
        s.pop()
        if r not in ('sat', 'unsat'):
            raise glue.GlueHarnessAbort(f'shapesym: solver said {r} on a branch condition')
        if r == 'sat':
            choice = True
            self.alts.append(self.full() + [z3.Not(cond)])
            if not v:
                self.model = m2
            ex.forks += 1
        else:
            choice = v
        lit = cond if choice else z3.Not(cond)
        s.add(lit)
        self.pc.append(lit)
        self.known[cond.get_id()] = (choice, lit)
        if len(self.pc) > ex.max_decisions:
            raise glue.GlueHarnessAbort('shapesym: too many symbolic branch decisions on one path')
        return choice != neg


class Explorer:
    def __init__(self, constraints=(), max_paths=200000, max_decisions=200, deadline=None):
        self.solver = z3.Solver()
        self.solver.set('timeout', 20000)
        self.constraints = list(constraints)
        self.solver.add(*self.constraints)
        self.max_paths = max_paths
        self.max_decisions = max_decisions
        self.deadline = deadline
        self.solver_calls = 0
        self.forks = 0
        self.paths = 0
        self.domains = {}      # name -> (z3 Int, n options)
        self.bools = {}
        self.complete = False

    # ---- exploration ---------------------------------------------------------------------------------
    def run(self, body, on_path=None):
        """Explore `body()` (a function returning a value or a coroutine) over the whole constrained input space.
        Returns the list of Path; `on_path(path)` is called as soon as a path is finished."""
        work = [[]]
        outs = []
        self.complete = False
        while work:
            if self.deadline is not None and time.time() > self.deadline:
                return outs          # incomplete: self.complete stays False
            region = work.pop()
            self.paths += 1
            if self.paths > self.max_paths:
                raise HarnessError('shapesym: path budget exceeded')
            ctx = _Ctx(self, region)
            prev = glue._CTX
            glue._CTX = ctx
            p = None
            try:
                r = body()
                if asyncio.iscoroutine(r):
                    loop = asyncio.new_event_loop()
                    try:
                        r = loop.run_until_complete(r)
                    finally:
                        loop.close()
                p = Path(ctx.full(), value=r, choices=ctx.choices)
            except glue.PathAbort:
                pass
            except glue.GlueHarnessAbort as e:
                raise HarnessError(str(e))
            except HarnessError:
                raise
            except Exception as e:  # the code under test raised: an outcome of this path
                p = Path(ctx.full(), exc=e, choices=ctx.choices)
            finally:
                glue._CTX = prev
                ctx.close()
            work.extend(ctx.alts)
            if p is not None:
                outs.append(p)
                if on_path is not None:
                    on_path(p)
        self.complete = True
        return outs

    def domain_constraints(self):
        return [z3.And(x >= 0, x < n) for x, n in self.domains.values()]

    def exhaustive(self, paths, chunk=400):
        """One solver verdict that the explored path conditions cover the whole input space:
        constraints /\\ domains /\\ not(pc_1) /\\ ... /\\ not(pc_n) is unsat."""
        if not self.complete:
            return 'unknown'
        s = z3.Solver()
        s.set('timeout', 120000)
        s.add(*self.constraints)
        s.add(*self.domain_constraints())
        for p in paths:
            s.add(z3.Not(p.cond()))
        self.solver_calls += 1
        return str(s.check())

    def sat(self, *fs):
        """Satisfiability of constraints /\\ fs (used for per-path obligations and reachability twins)."""
        s = self.solver
        s.push()
        s.add(*fs)
        r = str(s.check())
        m = s.model() if r == 'sat' else None
        s.pop()
        self.solver_calls += 1
        return r, m


def choose(name, options):
    """Solver-chosen shape: one concrete option per explored path, the integer `name` stays symbolic for the
    solver (domain 0..len-1).  Options the constraints exclude are never executed."""
    ctx = glue._CTX
    if ctx is None:
        raise HarnessError('choose() outside a shapesym run')
    options = list(options)
    n = len(options)
    x = z3.Int(name)
    ctx.ex.domains[name] = (x, n)
    for i in range(n - 1):
        if ctx.decide(x == i):
            ctx.choices[name] = i
            return options[i]
    # the remaining value of the domain 0..n-1: no fork (values outside the domain are not inputs), but the
    # literal is recorded so that the path condition stays exact, after checking that it is feasible
    ctx.assume(x == n - 1)
    ctx.choices[name] = n - 1
    return options[-1]


def sbool(name):
    ctx = glue._CTX
    b = z3.Bool(name)
    if ctx is not None:
        ctx.ex.bools[name] = b
    return SBool(b)


def model_int(m, x, default=0):
    v = m.eval(x, model_completion=True)
    try:
        return v.as_long()
    except Exception:
        return default


def model_bool(m, b):
    return z3.is_true(m.eval(b, model_completion=True))
