r"""shapesym (E5): region-directed path exploration for *symbolic program builders*.

A builder function constructs a program (a Batch pipeline) from symbolic inputs and runs the repository's real
front-end code on it natively.  Symbolic inputs are z3-backed proxies (vt.glue.SBool / SInt) and solver-chosen
shape integers (`choose`).  Whenever Python branches on a proxy -- in the harness (`choose`) or deep inside the
real code (`if not child._always_run`, `if fail_bit`) -- the explorer asks z3 which sides are feasible, follows
one and queues the other as a *region* (a conjunction of constraints over the inputs) to be explored by a later
re-execution.

Difference to vt.glue.Explorer: a pending alternative is a region, not a prefix of branch decisions.  The code
under test iterates over `set`s of objects hashed by address, so two executions with the same inputs may meet
the same conditions in a different order; replaying decisions by position would silently mis-align.  With
regions every execution is simply "explore the inputs satisfying R": at each symbolic condition c the explorer
checks R /\ pc /\ c and R /\ pc /\ not c; if both are satisfiable it continues with c and queues
R /\ pc /\ not c.  The regions handed out partition the input space whatever the order of conditions is, and
`Explorer.exhaustive()` re-proves that with one solver query over all recorded path conditions
(constraints /\ domains /\ not (pc_1 \/ ... \/ pc_n) must be unsat).

Only one solver call is needed per condition: the current model of R /\ pc already tells which side is
satisfiable.
"""
import asyncio
import time

import z3

from . import glue
from .common import HarnessError
from .glue import SBool, SInt  # noqa: F401  (re-exported for harnesses)


class Lit:
    """A decided branch condition: z3 atom + polarity (the z3 literal is built on demand)."""
    __slots__ = ('atom', 'pol', 'id', '_e')

    def __init__(self, atom, pol):
        self.atom = atom
        self.pol = pol
        self.id = atom.get_id()
        self._e = None

    def expr(self):
        if self._e is None:
            self._e = self.atom if self.pol else z3.Not(self.atom)
        return self._e

    def negated(self):
        return Lit(self.atom, not self.pol)


class Path:
    """One explored execution: `lits` (region + decisions) describes exactly the inputs for which the execution
    was followed; `value`/`exc` is what the body returned/raised."""
    __slots__ = ('lits', 'value', 'exc', 'choices')

    def __init__(self, lits, value=None, exc=None, choices=None):
        self.lits = lits
        self.value = value
        self.exc = exc
        self.choices = choices or {}

    @property
    def pc(self):
        return [l.expr() for l in self.lits]

    def cond(self):
        return z3.And(*self.pc) if self.lits else z3.BoolVal(True)


class _Ctx:
    """Duck-types vt.glue.Ctx (glue.SBool.__bool__ calls `glue._CTX.decide`).  The explorer's solver holds one
    push level per literal of region + decisions, shared between consecutive executions (DFS order makes the
    next region a long prefix of the current path plus one negated literal)."""

    def __init__(self, ex, region):
        self.ex = ex
        self.region = region
        self.pc = []          # decisions of this execution (forced ones included)
        self.alts = []
        self.choices = {}
        s = ex.solver
        st = ex.stack
        k = 0
        while k < len(st) and k < len(region) and st[k].id == region[k].id and st[k].pol == region[k].pol:
            k += 1
        if len(st) > k:
            s.pop(len(st) - k)
            del st[k:]
        for lit in region[k:]:
            s.push()
            s.add(lit.expr())
            st.append(lit)
        self.known = {lit.id: lit for lit in region}   # atom id -> literal fixed by region/pc
        r = str(s.check())
        ex.solver_calls += 1
        if r != 'sat':
            raise HarnessError(f'shapesym: region is {r}')
        self.model = s.model()

    def full(self):
        return self.region + self.pc

    def _fix(self, lit):
        s = self.ex.solver
        s.push()
        s.add(lit.expr())
        self.ex.stack.append(lit)
        self.pc.append(lit)
        self.known[lit.id] = lit
        if len(self.pc) > self.ex.max_decisions:
            raise glue.GlueHarnessAbort('shapesym: too many symbolic branch decisions on one path')

    def _other_side(self, e):
        s = self.ex.solver
        s.push()
        s.add(e)
        r = str(s.check())
        self.ex.solver_calls += 1
        m = s.model() if r == 'sat' else None
        s.pop()
        if r not in ('sat', 'unsat'):
            raise glue.GlueHarnessAbort(f'shapesym: solver said {r} on a branch condition')
        return m

    def decide_atom(self, atom, fork=True):
        """atom: a non-negated z3 Bool term.  Returns the side taken.  With fork=False the complement is not
        queued (domain limits of `choose`): the execution is restricted to the atom or aborted."""
        k = self.known.get(atom.get_id())
        if k is not None:
            if not fork and not k.pol:
                raise glue.PathAbort('infeasible')
            return k.pol
        v = z3.is_true(self.model.eval(atom, model_completion=True))
        if not fork:
            if not v:
                m2 = self._other_side(atom)
                if m2 is None:
                    raise glue.PathAbort('infeasible')
                self.model = m2
            self._fix(Lit(atom, True))
            return True
        m2 = self._other_side(z3.Not(atom) if v else atom)
        if m2 is not None:
            choice = True
            self.alts.append(self.full() + [Lit(atom, False)])
            if not v:
                self.model = m2
            self.ex.forks += 1
        else:
            choice = v
        self._fix(Lit(atom, choice))
        return choice

    def decide(self, cond):
        if isinstance(cond, bool):
            return cond
        cond = z3.simplify(cond)
        if z3.is_true(cond):
            return True
        if z3.is_false(cond):
            return False
        neg = False
        while z3.is_not(cond):
            cond = cond.arg(0)
            neg = not neg
        return self.decide_atom(cond) != neg

    def query(self, *fs):
        r"""Satisfiability of constraints /\ region /\ decisions /\ fs (per-path obligations; with no fs it is the
        reachability twin of this path)."""
        s = self.ex.solver
        s.push()
        if fs:
            s.add(*fs)
        r = str(s.check())
        self.ex.solver_calls += 1
        m = s.model() if r == 'sat' else None
        s.pop()
        return r, m


class Explorer:
    def __init__(self, constraints=(), max_paths=5000000, max_decisions=200, deadline=None):
        self.solver = z3.Solver()
        self.solver.set('timeout', 20000)
        self.constraints = list(constraints)
        self.solver.add(*self.constraints)
        self.stack = []
        self.max_paths = max_paths
        self.max_decisions = max_decisions
        self.deadline = deadline
        self.solver_calls = 0
        self.forks = 0
        self.paths = 0
        self.domains = {}      # name -> (z3 Int, n options, [atoms x == i])
        self.bools = {}
        self.complete = False

    # ---- exploration ---------------------------------------------------------------------------------
    def run(self, body, on_path=None, keep_paths=True):
        """Explore `body()` (a function returning a value or a coroutine) over the whole constrained input space.
        `on_path(path, query)` is called when a path is finished, while the solver still holds its path
        condition: query(*formulas) -> ('sat'|'unsat'|'unknown', model).  Returns the list of Path."""
        work = [[]]
        outs = []
        self.complete = False
        r0 = str(self.solver.check())
        self.solver_calls += 1
        if r0 == 'unsat':          # the constraints admit no input at all: nothing to explore
            self.complete = True
            return outs
        if r0 != 'sat':
            raise HarnessError(f'shapesym: constraints are {r0}')
        try:
            while work:
                if self.deadline is not None and time.time() > self.deadline:
                    return outs          # incomplete: self.complete stays False
                region = work.pop()
                self.paths += 1
                if self.paths > self.max_paths:
                    raise HarnessError('shapesym: path budget exceeded')
                ctx = _Ctx(self, region)
                prev = glue._CTX
                glue._CTX = ctx
                p = None
                try:
                    r = body()
                    if asyncio.iscoroutine(r):
                        loop = asyncio.new_event_loop()
                        try:
                            r = loop.run_until_complete(r)
                        finally:
                            loop.close()
                    p = Path(ctx.full(), value=r, choices=ctx.choices)
                except glue.PathAbort:
                    pass
                except glue.GlueHarnessAbort as e:
                    raise HarnessError(str(e))
                except HarnessError:
                    raise
                except Exception as e:  # the code under test raised: an outcome of this path
                    p = Path(ctx.full(), exc=e, choices=ctx.choices)
                finally:
                    glue._CTX = prev
                work.extend(ctx.alts)
                if p is not None:
                    if keep_paths:
                        outs.append(p)
                    else:
                        outs.append(Path(p.lits))
                    if on_path is not None:
                        on_path(p, ctx.query)
            self.complete = True
            return outs
        finally:
            if self.stack:
                self.solver.pop(len(self.stack))
                del self.stack[:]

    def domain_constraints(self):
        return [z3.And(d[0] >= 0, d[0] < d[1]) for d in self.domains.values()]

    def exhaustive(self, paths):
        r"""One solver verdict that the explored path conditions cover the whole input space:
        constraints /\ domains /\ not(pc_1) /\ ... /\ not(pc_n) is unsat."""
        if not self.complete:
            return 'unknown'
        s = z3.Solver()
        s.set('timeout', 300000)
        s.add(*self.constraints)
        s.add(*self.domain_constraints())
        for p in paths:
            s.add(z3.Or(*[l.negated().expr() for l in p.lits]) if p.lits else z3.BoolVal(False))
        self.solver_calls += 1
        return str(s.check())

    def sat(self, *fs):
        r"""Satisfiability of constraints /\ fs (outside a run)."""
        s = self.solver
        s.push()
        s.add(*fs)
        r = str(s.check())
        m = s.model() if r == 'sat' else None
        s.pop()
        self.solver_calls += 1
        return r, m


def choose(name, options):
    """Solver-chosen shape: one concrete option per explored path, the integer `name` stays symbolic for the
    solver (domain 0..len-1).  Options the constraints exclude are never executed."""
    ctx = glue._CTX
    if ctx is None:
        raise HarnessError('choose() outside a shapesym run')
    options = list(options)
    n = len(options)
    d = ctx.ex.domains.get(name)
    if d is None or d[1] != n:
        x = z3.Int(name)
        d = (x, n, [x == i for i in range(n)])
        ctx.ex.domains[name] = d
    atoms = d[2]
    for i in range(n - 1):
        if ctx.decide_atom(atoms[i]):
            ctx.choices[name] = i
            return options[i]
    # the remaining value of the domain 0..n-1: no fork (values outside the domain are not inputs), but the
    # literal is recorded so that the path condition stays exact, after checking that it is feasible
    ctx.decide_atom(atoms[n - 1], fork=False)
    ctx.choices[name] = n - 1
    return options[-1]


def sbool(name):
    ctx = glue._CTX
    b = z3.Bool(name)
    if ctx is not None:
        ctx.ex.bools[name] = b
    return SBool(b)


def model_int(m, x, default=0):
    v = m.eval(x, model_completion=True)
    try:
        return v.as_long()
    except Exception:
        return default


def model_bool(m, b):
    return z3.is_true(m.eval(b, model_completion=True))


def raised_inside(e, root):
    """True when exception `e` was raised by code whose file lies under `root` (the repository): such an exception
    is behaviour of the code under test; anything else is a bug of the harness."""
    import os
    tb = e.__traceback__
    last = None
    while tb is not None:
        last = tb
        tb = tb.tb_next
    if last is None:
        return False
    fn = os.path.realpath(last.tb_frame.f_code.co_filename)
    return fn.startswith(os.path.realpath(root).rstrip('/') + '/')
