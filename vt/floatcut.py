"""E2 helper: the "float cut" (DESIGN §3.2).

CrossHair models Python `float` as mathematical reals, which is (a) not what the interpreter computes and
(b) slow (non-linear real arithmetic on every path).  For a small set of *recognised float idioms* this
module rewrites the AST of the REAL function (parsed from its file under /repo at run time) into integer
arithmetic, compiles the result in memory in a copy of the defining module's namespace and returns it.
Nothing is written to disk and no repository code is copied.

Every rewrite is guarded twice:

* statically  - a rule fires only when the expression has exactly the recognised shape; if an edit changes
                the idiom, nothing is rewritten and the caller checks the UNCUT function (typically
                inconclusive, never a different function).  `CutResult.applied` lists every rewrite (rule,
                line, source before/after) so the check can record it and demand the matching lemma.
* dynamically - the replacement is a call of a helper that first checks the lemma's side conditions on the
                actual (symbolic) operands (`int`-typed, inside the range the lemma was proved for) and
                raises CutRangeError otherwise; under CrossHair that surfaces as a counterexample which
                then fails to replay on the uncut function => HarnessError (inconclusive), never a pass.

Each rule has a Float64 lemma (`lemma_jobs`) in SMT-LIB2 (QF_BVFP: operands are 64-bit vectors converted
with to_fp, Python `a / b` on ints < 2^53 = fp.div RNE of the exact conversions, `int(x)` = fp.to_sbv RTZ,
`math.ceil` = fp.roundToIntegral RTP) stating that the float expression and the integer replacement agree
on the whole range the helper admits.  The lemma must be `unsat` (negated equality) to justify the cut;
its reachability twin (same range constraints, no negated goal) must be `sat`.
Division lemmas are split by divisor and by binary exponent of the dividend (a bit-blasted Float64
divider with both operands free does not finish; with the divisor fixed and the exponent fixed it takes
seconds).
"""
import ast
import copy
import importlib
import os

from . import loader, smt
from .common import HarnessError


class CutRangeError(Exception):
    """A cut helper was called outside the range/type its FP lemma covers."""


# ------------------------------------------------------------------------------------------------
# runtime helpers (injected into the namespace of the cut function)
# ------------------------------------------------------------------------------------------------
class Limits:
    """Ranges the helpers admit; the props module sets them to the ranges its lemmas cover."""

    def __init__(self, **kw):
        self.rdiv_a_bits = 31      # int(a / n + 0.5): 0 <= a < 2^bits
        self.rdiv_n_max = 4        # 1 <= n <= n_max
        self.rint_bits = 33        # int(i + 0.5): 0 <= i < 2^bits
        self.__dict__.update(kw)


def _is_int(x):
    return isinstance(x, int) and not isinstance(x, bool)


def make_helpers(lim):
    def fc_rdiv(a, n):
        # int(a / n + 0.5)  ==  (2a + n) // 2n      [lemma rdiv]
        if not (_is_int(a) and _is_int(n)):
            raise CutRangeError(f'rdiv operands not int: {type(a).__name__}, {type(n).__name__}')
        if not (0 <= a < (1 << lim.rdiv_a_bits) and 1 <= n <= lim.rdiv_n_max):
            raise CutRangeError('rdiv operands out of lemma range')
        return (2 * a + n) // (2 * n)

    def fc_rint(i):
        # int(i + 0.5) == i  for a non-negative int i   [lemma rint]
        if not _is_int(i):
            raise CutRangeError(f'rint operand not int: {type(i).__name__}')
        if not 0 <= i < (1 << lim.rint_bits):
            raise CutRangeError('rint operand out of lemma range')
        return i

    return {'__fc_rdiv': fc_rdiv, '__fc_rint': fc_rint, '__fc_CutRangeError': CutRangeError}


# ------------------------------------------------------------------------------------------------
# rewrite rules
# ------------------------------------------------------------------------------------------------
def _call(name, *args):
    return ast.Call(func=ast.Name(id=name, ctx=ast.Load()), args=list(args), keywords=[])


def _is_const(n, v):
    return isinstance(n, ast.Constant) and type(n.value) is type(v) and n.value == v


class _Cutter(ast.NodeTransformer):
    def __init__(self, text, rules):
        self.text = text
        self.rules = rules
        self.applied = []

    def _note(self, rule, node, new):
        self.applied.append({'rule': rule, 'line': node.lineno, 'before': ast.unparse(node),
                             'after': ast.unparse(new)})
        return ast.copy_location(new, node)

    def visit_Call(self, node):
        self.generic_visit(node)
        f = node.func
        # int(X + 0.5)
        if (isinstance(f, ast.Name) and f.id == 'int' and len(node.args) == 1 and not node.keywords
                and isinstance(node.args[0], ast.BinOp) and isinstance(node.args[0].op, ast.Add)
                and _is_const(node.args[0].right, 0.5)):
            x = node.args[0].left
            if isinstance(x, ast.BinOp) and isinstance(x.op, ast.Div):
                if 'rdiv' in self.rules:
                    return self._note('rdiv', node, _call('__fc_rdiv', x.left, x.right))
            elif 'rint' in self.rules:
                return self._note('rint', node, _call('__fc_rint', x))
        return node


ALL_RULES = ('rdiv', 'rint')


class CutResult:
    def __init__(self, fn, applied, node, text, cut_text, ns):
        self.fn = fn                # the compiled (possibly rewritten) function object
        self.applied = applied      # list of {'rule','line','before','after'}; empty => fn is the uncut source
        self.node = node
        self.text = text            # real source text of the function
        self.cut_text = cut_text    # unparsed rewritten function
        self.ns = ns


def find_function(tree, qualname):
    """'Class.method' or 'function' (also nested 'outer.inner') -> the (Async)FunctionDef node."""
    body = tree.body
    node = None
    for part in qualname.split('.'):
        node = None
        for n in body:
            if isinstance(n, (ast.FunctionDef, ast.AsyncFunctionDef, ast.ClassDef)) and n.name == part:
                node = n
        if node is None:
            raise HarnessError(f'{qualname}: {part} not found')
        body = node.body
    if not isinstance(node, (ast.FunctionDef, ast.AsyncFunctionDef)):
        raise HarnessError(f'{qualname} is not a function')
    return node


def cut(relpath, qualname, module, rules=ALL_RULES, limits=None, extra_ns=None, keep_decorators=False):
    """Parse `qualname` from /repo/<relpath>, rewrite the recognised float idioms, compile in memory in a
    copy of `module`'s namespace (a module object or dotted name).  Returns CutResult."""
    if isinstance(module, str):
        module = importlib.import_module(module)
    text = loader.read(relpath)
    tree = ast.parse(text)
    node = find_function(tree, qualname)
    seg = ast.get_source_segment(text, node)
    new = copy.deepcopy(node)
    if not keep_decorators:
        new.decorator_list = []
    c = _Cutter(text, set(rules))
    new = c.visit(new)
    mod = ast.Module(body=[new], type_ignores=[])
    ast.fix_missing_locations(mod)
    ns = dict(vars(module))
    ns.update(make_helpers(limits or Limits()))
    ns.update(extra_ns or {})
    exec(compile(mod, f'<floatcut {relpath}:{qualname}>', 'exec'), ns)
    return CutResult(ns[node.name], c.applied, node, seg, ast.unparse(new), ns)


# ------------------------------------------------------------------------------------------------
# Float64 lemmas (SMT-LIB2 text)
# ------------------------------------------------------------------------------------------------
_HDR = '(set-logic QF_BVFP)\n'
_F = '(_ to_fp 11 53)'


def _bv(v):
    return f'(_ bv{v} 64)'


def lemma_rdiv(n, lo, hi, goal=True):
    """0 <= lo <= a < hi, divisor n constant:  to_sbv_RTZ(fp.add(fp.div(a, n), 0.5)) == (2a+n) div 2n."""
    t = _HDR + '(declare-const a (_ BitVec 64))\n'
    t += f'(assert (bvuge a {_bv(lo)}))\n(assert (bvult a {_bv(hi)}))\n'
    t += f'(define-fun n () (_ BitVec 64) {_bv(n)})\n'
    t += f'(define-fun q () Float64 (fp.div RNE ({_F} RNE a) ({_F} RNE n)))\n'
    t += f'(define-fun y () Float64 (fp.add RNE q ({_F} RNE 0.5)))\n'
    t += '(define-fun r () (_ BitVec 64) ((_ fp.to_sbv 64) RTZ y))\n'
    t += f'(define-fun e () (_ BitVec 64) (bvudiv (bvadd (bvmul {_bv(2)} a) n) (bvmul {_bv(2)} n)))\n'
    if goal:
        t += '(assert (not (= r e)))\n'
    return t


def lemma_rint(bits, goal=True):
    """0 <= i < 2^bits: to_sbv_RTZ(fp.add(to_fp(i), 0.5)) == i."""
    t = _HDR + '(declare-const i (_ BitVec 64))\n'
    t += f'(assert (bvult i {_bv(1 << bits)}))\n'
    t += f'(define-fun y () Float64 (fp.add RNE ({_F} RNE i) ({_F} RNE 0.5)))\n'
    t += '(define-fun r () (_ BitVec 64) ((_ fp.to_sbv 64) RTZ y))\n'
    if goal:
        t += '(assert (not (= r i)))\n'
    return t


def lemma_jobs(rule, lim, timeout_s=120):
    """[(key, smt_text_goal, smt_text_twin, description)] covering exactly what the helper of `rule` admits."""
    jobs = []
    if rule == 'rdiv':
        for n in range(1, lim.rdiv_n_max + 1):
            if n & (n - 1) == 0:
                ranges = [(0, 1 << lim.rdiv_a_bits)]          # power-of-two divisor: one easy query
            else:
                ranges = [(0, 1 << 16)] + [(1 << k, 1 << (k + 1)) for k in range(16, lim.rdiv_a_bits)]
            for lo, hi in ranges:
                jobs.append((f'rdiv n={n} a in [{lo},{hi})', lemma_rdiv(n, lo, hi), lemma_rdiv(n, lo, hi, False),
                             'Float64: int(a / n + 0.5) == (2a+n)//(2n)'))
    elif rule == 'rint':
        jobs.append((f'rint i < 2^{lim.rint_bits}', lemma_rint(lim.rint_bits), lemma_rint(lim.rint_bits, False),
                     'Float64: int(i + 0.5) == i for int i >= 0'))
    else:
        raise HarnessError(f'no lemma for rule {rule}')
    return jobs


def prove(R, rules, lim, timeout_s=120, workers=8, solver='z3new', second=None):
    """Decide the lemmas for `rules` (set of rule names actually applied).  Records one obligation per lemma
    query on R; returns True iff every lemma is unsat and every twin sat.  `second`: also ask that solver and
    require agreement (split => HarnessError)."""
    jobs = []
    meta = {}
    for rule in sorted(rules):
        for key, goal, twin, desc in lemma_jobs(rule, lim, timeout_s):
            jobs.append((('g', key), goal, solver, timeout_s))
            jobs.append((('t', key), twin, solver, timeout_s))
            if second:
                jobs.append((('s', key), goal, second, timeout_s))
            meta[key] = desc
    if not jobs:
        return True
    res = smt.solve_many(jobs, workers=workers)
    ok = True
    for key, desc in meta.items():
        g = res[('g', key)]
        t = res[('t', key)]
        verdict = g[0]
        if second:
            s = res[('s', key)]
            if {verdict, s[0]} == {'sat', 'unsat'}:
                raise HarnessError(f'FP lemma {key}: solvers disagree ({solver}={verdict}, {second}={s[0]})')
            if verdict != 'unsat' and s[0] == 'unsat':
                verdict = 'unsat'
        if verdict == 'sat':
            raise HarnessError(f'FP lemma {key} is FALSE (model {g[1]}): the cut rule is not justified on this range')
        reach = t[0] == 'sat'
        good = verdict == 'unsat' and reach
        ok = ok and good
        R.ob(f'FP lemma {desc} [{key}]', 'discharged' if good else 'not_discharged', g[2],
             {'solver': solver, 'verdict': g[0], 'twin': t[0], **({'second': res[('s', key)][0]} if second else {})},
             nontrivial=reach)
    return ok
