"""E2 helper: the "float cut" (DESIGN §3.2).

CrossHair models Python `float` as mathematical reals, which is (a) not what the interpreter computes and
(b) slow (non-linear real arithmetic on every path).  For a small set of *recognised float idioms* this
module rewrites the AST of the REAL function (parsed from its file under /repo at run time) into integer
arithmetic, compiles the result in memory in a copy of the defining module's namespace and returns it.
Nothing is written to disk and no repository code is copied.

Every rewrite is guarded twice:

* statically  - a rule fires only when the expression has exactly the recognised shape; if an edit changes
                the idiom, nothing is rewritten and the caller checks the UNCUT function (typically
                inconclusive, never a different function).  `CutResult.applied` lists every rewrite (rule,
                line, source before/after) so the check can record it and demand the matching lemma.
* dynamically - the replacement is a call of a helper that first checks the lemma's side conditions on the
                actual (symbolic) operands (`int`-typed, inside the range the lemma was proved for) and
                raises CutRangeError otherwise; under CrossHair that surfaces as a counterexample which
                then fails to replay on the uncut function => HarnessError (inconclusive), never a pass.

Each rule has a Float64 lemma (`lemma_jobs`) in SMT-LIB2 (QF_BVFP: operands are 64-bit vectors converted
with to_fp, Python `a / b` on ints < 2^53 = fp.div RNE of the exact conversions, `int(x)` = fp.to_sbv RTZ,
`math.ceil` = fp.roundToIntegral RTP) stating that the float expression and the integer replacement agree
on the whole range the helper admits.  The lemma must be `unsat` (negated equality) to justify the cut;
its reachability twin (same range constraints, no negated goal) must be `sat`.
Division lemmas are split by divisor and by binary exponent of the dividend (a bit-blasted Float64
divider with both operands free does not finish; with the divisor fixed and the exponent fixed it takes
seconds).
"""
import ast
import copy
import importlib
import os

from . import loader, smt
from .common import HarnessError


class CutRangeError(Exception):
    """A cut helper was called outside the range/type its FP lemma covers."""


# ------------------------------------------------------------------------------------------------
# runtime helpers (injected into the namespace of the cut function)
# ------------------------------------------------------------------------------------------------
class Limits:
    """Ranges the helpers admit; the props module sets them to the ranges its lemmas cover."""

    def __init__(self, **kw):
        self.rdiv_a_bits = 31      # int(a / n + 0.5): 0 <= a < 2^bits
        self.rdiv_n_max = 4        # 1 <= n <= n_max
        self.rint_bits = 33        # int(i + 0.5): 0 <= i < 2^bits
        self.mdiv_Bs = ()          # ceil((M / B) * 1000): admitted divisors B (bytes per core)
        self.mdiv_pmax = 10        # buckets (250*2^(p-1), 250*2^p], p <= pmax, and one open top bucket
        self.mdiv_m_bits = 44      # 0 <= M < 2^bits
        self.clog2_bits = 28       # ceil(log2(X / 1000)): 1 <= X < 2^bits  (bits <= 30: table ends at 1000*2^21)
        self.scale_Bs = ()         # int((X / 1000) * B): admitted B; X in {250 * 2^j, 0 <= j <= scale_jmax}
        self.scale_jmax = 21       # x*B must stay below 2^63 in the lemma: x <= 250*2^21 < 2^29, B < 2^34
        self.cdiv_bits = 47        # ceil(A / 2^a / 2^b / ...): 0 <= A < 2^bits
        self.__dict__.update(kw)


def _is_int(x):
    return isinstance(x, int) and not isinstance(x, bool)


def make_helpers(lim):
    """Two modes.  JUSTIFIED (default): a helper computes the integer replacement only when the operands satisfy the
    side conditions of its Float64 lemma and raises CutRangeError otherwise - this is the only mode whose 'Confirmed'
    discharges an obligation.  SEARCH (lim.search = True): no side conditions; the helper returns the exact
    real-valued / integer reading of the idiom (or evaluates the literal float expression when the operands are not
    ints).  Nothing proved in search mode counts; it only PROPOSES counterexamples, and every proposal is replayed on
    the real uncut code before it is reported.  Lemmas are needed to discharge, not to refute."""
    import math

    def search():
        return bool(getattr(lim, 'search', False) or getattr(lim, 'mdiv_tight', False))

    def fc_rdiv(a, n):
        # int(a / n + 0.5)  ==  trunc((2a + n) / 2n)  (int() truncates toward zero)      [lemma rdiv]
        if not (_is_int(a) and _is_int(n)):
            if search():
                return int(a / n + 0.5)
            raise CutRangeError(f'rdiv operands not int: {type(a).__name__}, {type(n).__name__}')
        if not search() and not (-(1 << lim.rdiv_a_bits) <= a < (1 << lim.rdiv_a_bits) and 1 <= n <= lim.rdiv_n_max):
            raise CutRangeError('rdiv operands out of lemma range')
        if not n >= 1:
            return int(a / n + 0.5)
        t = 2 * a + n
        if t >= 0:
            return t // (2 * n)
        return -((-t) // (2 * n))

    def fc_rint(i):
        # int(i + 0.5) == i for an int i >= 0, == i + 1 for an int i < 0 (truncation toward zero)      [lemma rint]
        if not _is_int(i):
            if search():
                return int(i + 0.5)
            raise CutRangeError(f'rint operand not int: {type(i).__name__}')
        if not search() and not -(1 << lim.rint_bits) < i < (1 << lim.rint_bits):
            raise CutRangeError('rint operand out of lemma range')
        if i >= 0:
            return i
        return i + 1

    def fc_ceil_mdiv(m, b, k):
        # math.ceil((m / b) * 1000): NOT equal to the exact ceiling in Float64 (off by one ulp-induced unit for some m),
        # but it always lies in the same power-of-two bucket (250*2^(p-1), 250*2^p] as the exact value  [lemma mdiv].
        # The helper returns an ARBITRARY member of that bucket (chosen by the slack NONDET[b], a symbolic input of the
        # harness): an over-approximation of the float result, sound for universally quantified properties.
        # Written without branches on symbolic values (sums of comparison results) so that CrossHair does not fork.
        if search():
            # the float result is modelled as the exact ceiling (what the float expression yields except for rare
            # one-off cases inside a bucket); any divisor / factor / unit
            if _is_int(m) and _is_int(b) and _is_int(k) and b > 0:
                return -((-k * m) // b)
            return math.ceil((m / b) * k)
        if not (_is_int(m) and _is_int(b) and k == 1000):
            raise CutRangeError('mdiv operands not int / factor not 1000')
        if b not in lim.mdiv_Bs or not 0 <= m < (1 << lim.mdiv_m_bits):
            raise CutRangeError('mdiv operands out of lemma range')
        slack = nondet(b)
        if not (_is_int(slack) and 0 <= slack < (1 << 30)):
            raise CutRangeError('mdiv slack must be an int in [0, 2^30)')
        t = [-1] + [250 << p for p in range(lim.mdiv_pmax + 1)]      # t[p+1] = 250*2^p, t[0] = -1
        lo = -1                                                        # lower end (exclusive) of the bucket of m
        w = t[1] - t[0]                                                # width of the bucket of m
        for p in range(lim.mdiv_pmax + 1):
            above = 4 * m > (b << p)                                   # exact: ceil(1000 m / b) > 250 * 2^p
            lo = lo + above * (t[p + 1] - t[p])
            nxt = (t[p + 2] - t[p + 1]) if p < lim.mdiv_pmax else (1 << 31)   # the top bucket is open: width "infinite"
            w = w + above * (nxt - (t[p + 1] - t[p]))
        over = slack > w - 1
        return lo + 1 + slack - over * (slack - (w - 1))               # lo + 1 + min(slack, w - 1)

    def fc_ceil_log2_div(x, k):
        # math.ceil(math.log2(x / 1000)) == least p with x <= 1000 * 2^p      [lemma clog2 + libm assumption]
        ok = _is_int(x) and k == 1000
        if ok and not search() and not (1 <= x < (1 << lim.clog2_bits) and lim.clog2_bits <= 30):
            ok = False
        if not ok and not search():
            raise CutRangeError('clog2 operand not int / divisor not 1000 / out of lemma range')
        if not (_is_int(x) and _is_int(k) and k > 0):
            return math.ceil(math.log2(x / k))
        if search() and not x >= 1:
            return math.ceil(math.log2(x / k))       # raises ValueError like the real code
        plo, phi = (CLOG2_PLO, CLOG2_PHI) if not search() else (-40, 50)
        p = plo
        for q in range(plo, phi):
            p = p + (((x << -q) > k) if q < 0 else (x > (k << q)))
        return p

    def fc_pow2_scale(p, k):
        # int(2**p * 1000) == 1000 * 2^p for an int p in [-3, PHI]      [lemma pow2scale; p < 0 goes through floats]
        if not (_is_int(p) and k == 1000 and -3 <= p <= CLOG2_PHI):
            if search():
                return int(2 ** p * k)
            raise CutRangeError('pow2scale exponent not int / factor not 1000 / out of lemma range')
        v = 0
        for q in range(-3, CLOG2_PHI + 1):
            v = v + (p == q) * ((1000 << q) if q >= 0 else (1000 >> -q))
        return v

    def fc_imax(a, b):
        # max(a, b) on two ints, without a branch: b + [a > b] * (a - b)      [lemma imax, integers]
        if not (_is_int(a) and _is_int(b)):
            return max(a, b)
        return b + (a > b) * (a - b)

    def fc_await(aw):
        # `await aw` when the awaitable completes without suspending
        it = aw.__await__()
        try:
            next(it)
        except StopIteration as e:
            return e.value
        raise CutRangeError('deasync: awaitable suspended')

    def fc_aiter(ait):
        # `async for x in ait` when no step suspends
        it = ait.__aiter__()
        while True:
            try:
                yield fc_await(it.__anext__())
            except StopAsyncIteration:
                return

    def fc_scale(x, k, b):
        # int((x / 1000) * b) == x * b // 1000 for x = 250 * 2^j      [lemma scale]
        if search():
            if _is_int(x) and _is_int(b) and _is_int(k) and k > 0 and x >= 0 and b >= 0:
                return x * b // k                   # trunc(x * b / k): the real-valued reading
            return int((x / k) * b)
        if not (_is_int(x) and _is_int(b) and k == 1000):
            raise CutRangeError('scale operands not int / divisor not 1000')
        if b not in lim.scale_Bs:
            raise CutRangeError('scale factor not in lemma table')
        hit = False
        for j in range(lim.scale_jmax + 1):
            hit = hit | (x == (250 << j))
        if not hit:
            raise CutRangeError('scale operand is not 250 * 2^j')
        return x * b // 1000

    def fc_ceil_div(a, d):
        # math.ceil(a / 2^i / 2^j / ...) == -(-a // 2^(i+j+...))      [lemma cdiv]
        if not _is_int(a):
            if search():
                return math.ceil(a / d)
            raise CutRangeError('cdiv operand not int')
        if not search() and not 0 <= a < (1 << lim.cdiv_bits):
            raise CutRangeError('cdiv operand out of lemma range')
        return -(-a // d)

    return {'__fc_rdiv': fc_rdiv, '__fc_rint': fc_rint, '__fc_ceil_mdiv': fc_ceil_mdiv,
            '__fc_ceil_log2_div': fc_ceil_log2_div, '__fc_scale': fc_scale, '__fc_ceil_div': fc_ceil_div,
            '__fc_pow2_scale': fc_pow2_scale, '__fc_imax': fc_imax, '__fc_await': fc_await, '__fc_aiter': fc_aiter,
            '__fc_CutRangeError': CutRangeError}


CLOG2_PLO, CLOG2_PHI = -10, 21
NONDET = {}


def nondet(key):
    """Slack values for over-approximating cuts; the harness fills NONDET with symbolic inputs before each call."""
    if key not in NONDET:
        raise CutRangeError(f'no slack value provided for {key}')
    return NONDET[key]


# ------------------------------------------------------------------------------------------------
# rewrite rules
# ------------------------------------------------------------------------------------------------
def _call(name, *args):
    return ast.Call(func=ast.Name(id=name, ctx=ast.Load()), args=list(args), keywords=[])


def _is_const(n, v):
    return isinstance(n, ast.Constant) and type(n.value) is type(v) and n.value == v


class _Cutter(ast.NodeTransformer):
    def __init__(self, text, rules):
        self.text = text
        self.rules = rules
        self.applied = []

    def _note(self, rule, node, new):
        self.applied.append({'rule': rule, 'line': node.lineno, 'before': ast.unparse(node),
                             'after': ast.unparse(new)})
        return ast.copy_location(new, node)

    def visit_Call(self, node):
        self.generic_visit(node)
        f = node.func
        # int(X + 0.5)
        if (isinstance(f, ast.Name) and f.id == 'int' and len(node.args) == 1 and not node.keywords
                and isinstance(node.args[0], ast.BinOp) and isinstance(node.args[0].op, ast.Add)
                and _is_const(node.args[0].right, 0.5)):
            x = node.args[0].left
            if isinstance(x, ast.BinOp) and isinstance(x.op, ast.Div):
                if 'rdiv' in self.rules:
                    return self._note('rdiv', node, _call('__fc_rdiv', x.left, x.right))
            elif 'rint' in self.rules:
                return self._note('rint', node, _call('__fc_rint', x))
        # max(A, B)
        if (isinstance(f, ast.Name) and f.id == 'max' and len(node.args) == 2 and not node.keywords
                and not any(isinstance(x, ast.Starred) for x in node.args) and 'imax' in self.rules):
            return self._note('imax', node, _call('__fc_imax', node.args[0], node.args[1]))
        # int(2 ** P * 1000)
        if (isinstance(f, ast.Name) and f.id == 'int' and len(node.args) == 1 and not node.keywords
                and 'pow2scale' in self.rules):
            a = node.args[0]
            if (isinstance(a, ast.BinOp) and isinstance(a.op, ast.Mult) and _is_const(a.right, 1000)
                    and isinstance(a.left, ast.BinOp) and isinstance(a.left.op, ast.Pow) and _is_const(a.left.left, 2)):
                return self._note('pow2scale', node, _call('__fc_pow2_scale', a.left.right, a.right))
        # int((X / 1000) * B)
        if (isinstance(f, ast.Name) and f.id == 'int' and len(node.args) == 1 and not node.keywords
                and 'scale' in self.rules):
            a = node.args[0]
            if (isinstance(a, ast.BinOp) and isinstance(a.op, ast.Mult) and isinstance(a.left, ast.BinOp)
                    and isinstance(a.left.op, ast.Div) and _is_const(a.left.right, 1000)):
                return self._note('scale', node, _call('__fc_scale', a.left.left, a.left.right, a.right))
        if _is_math(f, 'ceil') and len(node.args) == 1 and not node.keywords:
            a = node.args[0]
            # math.ceil((M / B) * 1000)
            if ('mdiv' in self.rules and isinstance(a, ast.BinOp) and isinstance(a.op, ast.Mult)
                    and _is_const(a.right, 1000) and isinstance(a.left, ast.BinOp) and isinstance(a.left.op, ast.Div)):
                return self._note('mdiv', node, _call('__fc_ceil_mdiv', a.left.left, a.left.right, a.right))
            # math.ceil(math.log2(X / 1000))
            if ('clog2' in self.rules and isinstance(a, ast.Call) and _is_math(a.func, 'log2') and len(a.args) == 1
                    and isinstance(a.args[0], ast.BinOp) and isinstance(a.args[0].op, ast.Div)
                    and _is_const(a.args[0].right, 1000)):
                return self._note('clog2', node, _call('__fc_ceil_log2_div', a.args[0].left, a.args[0].right))
        return node

    def _visit_body(self, node):
        """statement pair   v = A / c1 / c2 ...   ;   v = math.ceil(v)     (c_i powers of two, A a plain name)"""
        self.generic_visit(node)
        if 'cdiv' not in self.rules:
            return node
        body = node.body
        i = 0
        while i + 1 < len(body):
            s1, s2 = body[i], body[i + 1]
            m = _div_chain(s1)
            if (m and isinstance(s2, ast.Assign) and len(s2.targets) == 1 and isinstance(s2.targets[0], ast.Name)
                    and s2.targets[0].id == m[0] and isinstance(s2.value, ast.Call) and _is_math(s2.value.func, 'ceil')
                    and len(s2.value.args) == 1 and isinstance(s2.value.args[0], ast.Name)
                    and s2.value.args[0].id == m[0]):
                d = 1
                for c in m[2]:
                    d *= c
                new = ast.Assign(targets=[ast.Name(id=m[0], ctx=ast.Store())],
                                 value=_call('__fc_ceil_div', ast.Name(id=m[1], ctx=ast.Load()), ast.Constant(value=d)))
                ast.fix_missing_locations(ast.copy_location(new, s1))
                self.applied.append({'rule': 'cdiv', 'line': s1.lineno,
                                     'before': ast.unparse(s1) + '; ' + ast.unparse(s2), 'after': ast.unparse(new),
                                     'divisors': m[2]})
                body[i:i + 2] = [ast.copy_location(new, s1)]
            i += 1
        return node

    visit_FunctionDef = _visit_body

    def visit_AsyncFunctionDef(self, node):
        node = self._visit_body(node)
        if 'deasync' not in self.rules:
            return node
        # `async def` -> `def`; `await E` -> `__fc_await(E)`; `async for` -> `for ... in __fc_aiter(E)`;
        # `async with` is not supported (left alone => the function stays async).  The helpers drive the awaitable /
        # async iterator synchronously and raise CutRangeError if it suspends, so the rewrite is exact whenever the
        # harness' fakes never suspend.  Reason: CrossHair 0.0.110's opcode tracer mis-reads the value stack inside
        # coroutine frames that contain `async for` (segfault on some expression shapes).
        if any(isinstance(n, (ast.AsyncWith, ast.Yield, ast.YieldFrom)) for n in _own_nodes(node)):
            return node
        new = _DeAsync().visit(node)
        fn = ast.FunctionDef(name=new.name, args=new.args, body=new.body, decorator_list=new.decorator_list,
                             returns=new.returns, type_comment=None, type_params=getattr(new, 'type_params', []))
        self.applied.append({'rule': 'deasync', 'line': node.lineno, 'before': f'async def {node.name}',
                             'after': f'def {node.name} (await / async for driven synchronously)'})
        return ast.copy_location(fn, node)


def _own_nodes(fn):
    """Nodes of `fn` excluding nested function/class bodies."""
    stack = list(fn.body)
    while stack:
        n = stack.pop()
        yield n
        for c in ast.iter_child_nodes(n):
            if not isinstance(c, (ast.FunctionDef, ast.AsyncFunctionDef, ast.Lambda, ast.ClassDef)):
                stack.append(c)


class _DeAsync(ast.NodeTransformer):
    def __init__(self):
        self.depth = 0

    def _nested(self, node):
        return node          # nested defs / lambdas keep their own awaits

    def visit_FunctionDef(self, node):
        return node

    visit_Lambda = visit_FunctionDef
    visit_ClassDef = visit_FunctionDef

    def visit_AsyncFunctionDef(self, node):
        if self.depth:
            return node
        self.depth += 1
        self.generic_visit(node)
        self.depth -= 1
        return node

    def visit_Await(self, node):
        self.generic_visit(node)
        return ast.copy_location(_call('__fc_await', node.value), node)

    def visit_AsyncFor(self, node):
        self.generic_visit(node)
        new = ast.For(target=node.target, iter=_call('__fc_aiter', node.iter), body=node.body, orelse=node.orelse,
                      type_comment=None)
        return ast.copy_location(new, node)


def _is_math(f, name):
    return (isinstance(f, ast.Attribute) and f.attr == name and isinstance(f.value, ast.Name) and f.value.id == 'math')


def _div_chain(stmt):
    """`v = A / c1 / c2 / ...` with A a Name and every c_i an int power of two -> (v, A, [c1, c2, ...])."""
    if not (isinstance(stmt, ast.Assign) and len(stmt.targets) == 1 and isinstance(stmt.targets[0], ast.Name)):
        return None
    e = stmt.value
    cs = []
    while isinstance(e, ast.BinOp) and isinstance(e.op, ast.Div):
        c = e.right
        if not (isinstance(c, ast.Constant) and type(c.value) is int and c.value > 1 and c.value & (c.value - 1) == 0):
            return None
        cs.append(c.value)
        e = e.left
    if not cs or not isinstance(e, ast.Name):
        return None
    return stmt.targets[0].id, e.id, cs[::-1]


ALL_RULES = ('rdiv', 'rint', 'mdiv', 'clog2', 'scale', 'cdiv', 'pow2scale', 'imax')   # 'deasync' is opt-in


class CutResult:
    def __init__(self, fn, applied, node, text, cut_text, ns):
        self.fn = fn                # the compiled (possibly rewritten) function object
        self.applied = applied      # list of {'rule','line','before','after'}; empty => fn is the uncut source
        self.node = node
        self.text = text            # real source text of the function
        self.cut_text = cut_text    # unparsed rewritten function
        self.ns = ns


def find_function(tree, qualname):
    """'Class.method' or 'function' (also nested 'outer.inner') -> the (Async)FunctionDef node."""
    body = tree.body
    node = None
    for part in qualname.split('.'):
        node = None
        for n in body:
            if isinstance(n, (ast.FunctionDef, ast.AsyncFunctionDef, ast.ClassDef)) and n.name == part:
                node = n
        if node is None:
            raise HarnessError(f'{qualname}: {part} not found')
        body = node.body
    if not isinstance(node, (ast.FunctionDef, ast.AsyncFunctionDef)):
        raise HarnessError(f'{qualname} is not a function')
    return node


def cut(relpath, qualname, module, rules=ALL_RULES, limits=None, extra_ns=None, keep_decorators=False):
    """Parse `qualname` from /repo/<relpath>, rewrite the recognised float idioms, compile in memory in a
    copy of `module`'s namespace (a module object or dotted name).  Returns CutResult."""
    if isinstance(module, str):
        module = importlib.import_module(module)
    text = loader.read(relpath)
    tree = ast.parse(text)
    node = find_function(tree, qualname)
    seg = ast.get_source_segment(text, node)
    new = copy.deepcopy(node)
    if not keep_decorators:
        new.decorator_list = []
    c = _Cutter(text, set(rules))
    new = c.visit(new)
    mod = ast.Module(body=[new], type_ignores=[])
    ast.fix_missing_locations(mod)
    ns = dict(vars(module))
    ns.update(make_helpers(limits or Limits()))
    ns.update(extra_ns or {})
    exec(compile(mod, f'<floatcut {relpath}:{qualname}>', 'exec'), ns)
    res = CutResult(ns[node.name], c.applied, node, seg, ast.unparse(new), ns)
    res.module = module
    res.qualname = qualname
    res.ref = f'{relpath}:{node.lineno} {qualname}'
    return res


def install(res):
    """Make a cut module-level function visible to its real callers: every attribute of every loaded in-repo
    module that IS the original function object is rebound to the cut function (this covers `from x import f`
    copies).  Only done inside CrossHair worker processes; returns the list of patched 'module.attr' names.
    The cut function itself keeps running in a copy of its module's namespace taken at cut time, so cut callees
    must be installed BEFORE their callers are cut."""
    import sys
    if not res.applied:
        return []
    orig = getattr(res.module, res.node.name, None)
    if orig is None or '.' in res.qualname:
        raise HarnessError(f'install: {res.qualname} is not a module-level function')
    patched = []
    for mname, m in list(sys.modules.items()):
        if m is None or mname.split('.')[0] not in loader.INREPO:
            continue
        for attr, val in list(vars(m).items()):
            if val is orig:
                setattr(m, attr, res.fn)
                patched.append(f'{mname}.{attr}')
    res.orig = orig
    return patched


# ------------------------------------------------------------------------------------------------
# Float64 lemmas (SMT-LIB2 text)
# ------------------------------------------------------------------------------------------------
_HDR = '(set-logic QF_BVFP)\n'
_F = '(_ to_fp 11 53)'


def _bv(v):
    return f'(_ bv{v} 64)'


def _sbv(v):
    return _bv(v % (1 << 64))


def lemma_rdiv(n, lo, hi, goal=True):
    """lo <= a < hi (signed), divisor n constant:  to_sbv_RTZ(fp.add(fp.div(a, n), 0.5)) == trunc((2a+n) / 2n)
    (bvsdiv truncates toward zero, like Python's int())."""
    t = _HDR + '(declare-const a (_ BitVec 64))\n'
    t += f'(assert (bvsge a {_sbv(lo)}))\n(assert (bvslt a {_sbv(hi)}))\n'
    t += f'(define-fun n () (_ BitVec 64) {_bv(n)})\n'
    t += f'(define-fun q () Float64 (fp.div RNE ({_F} RNE a) ({_F} RNE n)))\n'
    t += f'(define-fun y () Float64 (fp.add RNE q ({_F} RNE 0.5)))\n'
    t += '(define-fun r () (_ BitVec 64) ((_ fp.to_sbv 64) RTZ y))\n'
    t += f'(define-fun e () (_ BitVec 64) (bvsdiv (bvadd (bvmul {_bv(2)} a) n) (bvmul {_bv(2)} n)))\n'
    if goal:
        t += '(assert (not (= r e)))\n'
    return t


def lemma_rdiv_mul(n, lo, hi, goal=True):
    """Same statement as lemma_rdiv with the truncated quotient e introduced by its defining inequalities (no bit-vector
    divider; cvc5 decides a whole half-range in one query):  num = 2a+n >= 0: 2n*e <= num < 2n*e + 2n;
    num < 0: e <= 0 and 2n*(-e) <= -num < 2n*(-e) + 2n."""
    t = _HDR + '(declare-const a (_ BitVec 64))\n(declare-const e (_ BitVec 64))\n'
    t += f'(assert (bvsge a {_sbv(lo)}))\n(assert (bvslt a {_sbv(hi)}))\n'
    t += f'(assert (bvslt e {_bv(1 << 40)}))\n(assert (bvsgt e {_sbv(-(1 << 40))}))\n'
    t += f'(define-fun num () (_ BitVec 64) (bvadd (bvmul {_bv(2)} a) {_bv(n)}))\n'
    n2 = _bv(2 * n)
    pos = f'(and (bvsge e {_bv(0)}) (bvsle (bvmul {n2} e) num) (bvslt num (bvadd (bvmul {n2} e) {n2})))'
    neg = (f'(and (bvsle e {_bv(0)}) (bvsle (bvmul {n2} (bvneg e)) (bvneg num)) '
           f'(bvslt (bvneg num) (bvadd (bvmul {n2} (bvneg e)) {n2})))')
    t += f'(assert (ite (bvsge num {_bv(0)}) {pos} {neg}))\n'
    t += f'(define-fun q () Float64 (fp.div RNE ({_F} RNE a) ({_F} RNE {_bv(n)})))\n'
    t += f'(define-fun y () Float64 (fp.add RNE q ({_F} RNE 0.5)))\n'
    t += '(define-fun r () (_ BitVec 64) ((_ fp.to_sbv 64) RTZ y))\n'
    if goal:
        t += '(assert (not (= r e)))\n'
    return t


def lemma_rdiv_mul_neg(n, hi, goal=True):
    """lemma_rdiv_mul on the negative half -hi <= a < 0, written over ap = -a > 0 and ep = -e >= 0:
    2ap <= n: e = 0;  else 2n*ep <= 2ap - n < 2n*ep + 2n."""
    t = _HDR + '(declare-const ap (_ BitVec 64))\n(declare-const ep (_ BitVec 64))\n'
    t += f'(assert (bvuge ap {_bv(1)}))\n(assert (bvule ap {_bv(hi)}))\n(assert (bvult ep {_bv(1 << 40)}))\n'
    t += '(define-fun a () (_ BitVec 64) (bvneg ap))\n'
    n2 = _bv(2 * n)
    t += f'(define-fun d () (_ BitVec 64) (bvsub (bvmul {_bv(2)} ap) {_bv(n)}))\n'
    t += (f'(assert (ite (bvule (bvmul {_bv(2)} ap) {_bv(n)}) (= ep {_bv(0)}) '
          f'(and (bvule (bvmul {n2} ep) d) (bvult d (bvadd (bvmul {n2} ep) {n2})))))\n')
    t += f'(define-fun q () Float64 (fp.div RNE ({_F} RNE a) ({_F} RNE {_bv(n)})))\n'
    t += f'(define-fun y () Float64 (fp.add RNE q ({_F} RNE 0.5)))\n'
    t += '(define-fun r () (_ BitVec 64) ((_ fp.to_sbv 64) RTZ y))\n'
    if goal:
        t += '(assert (not (= r (bvneg ep))))\n'
    return t


def lemma_rint(bits, goal=True):
    """-2^bits < i < 2^bits (signed): to_sbv_RTZ(fp.add(to_fp(i), 0.5)) == (i if i >= 0 else i + 1)."""
    t = _HDR + '(declare-const i (_ BitVec 64))\n'
    t += f'(assert (bvslt i {_bv(1 << bits)}))\n(assert (bvsgt i {_sbv(-(1 << bits))}))\n'
    t += f'(define-fun y () Float64 (fp.add RNE ({_F} RNE i) ({_F} RNE 0.5)))\n'
    t += '(define-fun r () (_ BitVec 64) ((_ fp.to_sbv 64) RTZ y))\n'
    if goal:
        t += f'(assert (not (= r (ite (bvsge i {_bv(0)}) i (bvadd i {_bv(1)})))))\n'
    return t


def lemma_mdiv(b, p, pmax, m_bits, goal=True):
    """Bucket lemma for r = to_sbv_RTP(fp.mul(fp.div(m, b), 1000)) (= math.ceil((m / b) * 1000)):
       p = 0      : 0 <= m <= b/4                  =>  0 <= r <= 250
       1..pmax    : 2^(p-1) b/4 < m <= 2^p b/4     =>  250*2^(p-1) < r <= 250*2^p
       pmax + 1   : 2^pmax b/4 < m < 2^m_bits      =>  r > 250*2^pmax        (b is a multiple of 4)"""
    assert b % 4 == 0
    t = _HDR + '(declare-const m (_ BitVec 64))\n'
    lo = None if p == 0 else (b << (p - 1)) // 4
    hi = (b << p) // 4 if p <= pmax else None
    if lo is not None:
        t += f'(assert (bvugt m {_bv(lo)}))\n'
    t += f'(assert (bvule m {_bv(hi)}))\n' if hi is not None else f'(assert (bvult m {_bv(1 << m_bits)}))\n'
    t += f'(define-fun q () Float64 (fp.div RNE ({_F} RNE m) ({_F} RNE {_bv(b)})))\n'
    t += f'(define-fun y () Float64 (fp.mul RNE q ({_F} RNE 1000.0)))\n'
    t += '(define-fun r () (_ BitVec 64) ((_ fp.to_sbv 64) RTP y))\n'
    conj = []
    if p == 0:
        conj += [f'(bvsge r {_bv(0)})', f'(bvsle r {_bv(250)})']
    else:
        conj.append(f'(bvsgt r {_bv(250 << (p - 1))})')
        if p <= pmax:
            conj.append(f'(bvsle r {_bv(250 << p)})')
    if goal:
        t += f'(assert (not (and {" ".join(conj)} true)))\n'
    return t


def lemma_clog2(k, bits, goal=True):
    """1 <= x < 2^bits:  (x <= 1000*2^k  =>  fl(x/1000) <= 2^k)  and  (x > 1000*2^k  =>  fl(x/1000) >= 2^k (1 + 2^-31))."""
    import fractions
    t = _HDR + '(declare-const x (_ BitVec 64))\n'
    t += f'(assert (bvuge x {_bv(1)}))\n(assert (bvult x {_bv(1 << bits)}))\n'
    t += f'(define-fun y () Float64 (fp.div RNE ({_F} RNE x) ({_F} RNE 1000.0)))\n'
    pw = fractions.Fraction(2) ** k
    up = pw * (1 + fractions.Fraction(1, 2 ** 31))          # exactly representable (k >= -11: 2^(k-31) >= ulp)
    le = f'(bvule (bvshl x {_bv(-k)}) {_bv(1000)})' if k < 0 else f'(bvule x {_bv(1000 << k)})'

    def lit(fr):
        return f'(fp.div RNE ({_F} RNE {_bv(fr.numerator)}) ({_F} RNE {_bv(fr.denominator)}))'   # exact: den is 2^j

    t += f'(define-fun pw () Float64 {lit(pw)})\n(define-fun up () Float64 {lit(up)})\n'
    if goal:
        t += f'(assert (not (and (=> {le} (fp.leq y pw)) (=> (not {le}) (fp.geq y up)))))\n'
    return t


def lemma_scale(b, jmax, goal=True):
    """x = 250 * 2^j, 0 <= j <= jmax:  to_sbv_RTZ(fp.mul(fp.div(x, 1000), b)) == x * b div 1000."""
    t = _HDR + '(declare-const j (_ BitVec 64))\n'
    t += f'(assert (bvule j {_bv(jmax)}))\n'
    t += f'(define-fun x () (_ BitVec 64) (bvshl {_bv(250)} j))\n'
    t += f'(define-fun y () Float64 (fp.mul RNE (fp.div RNE ({_F} RNE x) ({_F} RNE 1000.0)) ({_F} RNE {_bv(b)})))\n'
    t += '(define-fun r () (_ BitVec 64) ((_ fp.to_sbv 64) RTZ y))\n'
    # x * b < 2^64 must not wrap: x < 2^32, b < 2^34 (asserted by the caller's table)
    if goal:
        t += f'(assert (not (= r (bvudiv (bvmul x {_bv(b)}) {_bv(1000)}))))\n'
    return t


def lemma_cdiv(divisors, bits, goal=True):
    """0 <= a < 2^bits: to_sbv_RTP(a / c1 / c2 / ...) == (a + D - 1) div D, D = prod c_i (powers of two)."""
    d = 1
    t = _HDR + '(declare-const a (_ BitVec 64))\n' + f'(assert (bvult a {_bv(1 << bits)}))\n'
    e = f'({_F} RNE a)'
    for c in divisors:
        e = f'(fp.div RNE {e} ({_F} RNE {_bv(c)}))'
        d *= c
    t += f'(define-fun r () (_ BitVec 64) ((_ fp.to_sbv 64) RTP {e}))\n'
    if goal:
        t += f'(assert (not (= r (bvudiv (bvadd a {_bv(d - 1)}) {_bv(d)}))))\n'
    return t


def lemma_jobs(rule, lim, timeout_s=120):
    """[(key, goal, twin, description[, solver[, second]])] covering exactly what the helper of `rule` admits.
    `solver` overrides the primary solver for that lemma; `second` = [(solver, text), ...] is an alternative
    decision of the same statement (all texts must be unsat) used when a second opinion is requested."""
    jobs = []
    if rule == 'rdiv':
        for n in range(1, lim.rdiv_n_max + 1):
            hi = 1 << lim.rdiv_a_bits
            desc = 'Float64: int(a / n + 0.5) == trunc((2a+n)/(2n)), a of either sign'
            if n & (n - 1) == 0:                                  # power-of-two divisor: one easy query
                jobs.append((f'rdiv n={n} a in [-{hi},{hi})', lemma_rdiv(n, -hi, hi), lemma_rdiv(n, -hi, hi, False), desc))
            else:
                # cvc5 decides the multiplication form over a whole half-range; z3 needs the divider form split by the
                # binary exponent of |a| (second opinion)
                pos = [(0, 1 << 16)] + [(1 << k, 1 << (k + 1)) for k in range(16, lim.rdiv_a_bits)]
                neg = [(-h, -lo) for lo, h in pos]
                jobs.append((f'rdiv n={n} a in [0,{hi})', lemma_rdiv_mul(n, 0, hi), lemma_rdiv_mul(n, 0, hi, False), desc,
                             'cvc5', [('z3new', lemma_rdiv(n, lo, h)) for lo, h in pos]))
                jobs.append((f'rdiv n={n} a in [-{hi},0)', lemma_rdiv_mul_neg(n, hi), lemma_rdiv_mul_neg(n, hi, False), desc,
                             'cvc5', [('z3new', lemma_rdiv(n, lo, h)) for lo, h in neg]))
    elif rule == 'rint':
        jobs.append((f'rint |i| < 2^{lim.rint_bits}', lemma_rint(lim.rint_bits), lemma_rint(lim.rint_bits, False),
                     'Float64: int(i + 0.5) == i for int i >= 0, == i + 1 for int i < 0'))
    elif rule == 'mdiv':
        for b in lim.mdiv_Bs:
            for p in range(lim.mdiv_pmax + 2):
                jobs.append((f'mdiv B={b} bucket {p}', lemma_mdiv(b, p, lim.mdiv_pmax, lim.mdiv_m_bits),
                             lemma_mdiv(b, p, lim.mdiv_pmax, lim.mdiv_m_bits, False),
                             'Float64: ceil((m / B) * 1000) lies in the same bucket (250*2^(p-1), 250*2^p] as ceil(1000m/B)'))
    elif rule == 'clog2':
        for k in range(CLOG2_PLO - 1, CLOG2_PHI + 1):
            jobs.append((f'clog2 k={k} x < 2^{lim.clog2_bits}', lemma_clog2(k, lim.clog2_bits),
                         lemma_clog2(k, lim.clog2_bits, False),
                         'Float64: x <= 1000*2^k => x/1000 <= 2^k; x > 1000*2^k => x/1000 >= 2^k(1+2^-31)'))
    elif rule == 'scale':
        for b in lim.scale_Bs:
            assert b < (1 << 34) and lim.scale_jmax <= 21
            jobs.append((f'scale B={b} x=250*2^j j<={lim.scale_jmax}', lemma_scale(b, lim.scale_jmax),
                         lemma_scale(b, lim.scale_jmax, False), 'Float64: int((x / 1000) * B) == x*B//1000 for x = 250*2^j'))
    elif rule == 'cdiv':
        for divs in getattr(lim, 'cdiv_divisors', [(1024, 1024, 1024)]):
            jobs.append((f'cdiv {list(divs)} a < 2^{lim.cdiv_bits}', lemma_cdiv(divs, lim.cdiv_bits),
                         lemma_cdiv(divs, lim.cdiv_bits, False), 'Float64: ceil(a / c1 / c2 / ...) == -(-a // (c1*c2*...))'))
    elif rule == 'pow2scale':
        for q in (-3, -2, -1):
            jobs.append((f'pow2scale p={q}', lemma_pow2scale(q), _HDR + '(assert true)\n',
                         'Float64: int(2**p * 1000) == 1000 >> -p for p in {-3,-2,-1} (p >= 0 is integer arithmetic)'))
    elif rule == 'imax':
        jobs.append(('imax', '(set-logic QF_NIA)\n(declare-const a Int)\n(declare-const b Int)\n'
                     '(assert (not (= (ite (> a b) a b) (+ b (* (ite (> a b) 1 0) (- a b))))))\n',
                     '(set-logic QF_LIA)\n(declare-const a Int)\n(declare-const b Int)\n(assert (> a b))\n',
                     'Int: max(a, b) == b + [a > b] * (a - b)'))
    else:
        raise HarnessError(f'no lemma for rule {rule}')
    return jobs


def lemma_pow2scale(q):
    """to_sbv_RTZ(fp.mul(2^q, 1000)) == 1000 / 2^-q for q in {-3,-2,-1} (2^q written as the exact quotient 1 / 2^-q)."""
    t = _HDR
    t += f'(define-fun pw () Float64 (fp.div RNE ({_F} RNE {_bv(1)}) ({_F} RNE {_bv(1 << -q)})))\n'
    t += f'(define-fun r () (_ BitVec 64) ((_ fp.to_sbv 64) RTZ (fp.mul RNE pw ({_F} RNE 1000.0))))\n'
    t += f'(assert (not (= r {_bv(1000 >> -q)})))\n'
    return t


def libm_pow2_points():
    """2 ** p for a negative int p is the exactly representable float 2^p (checked concretely; used by pow2scale)."""
    import fractions
    n = 0
    for q in (-3, -2, -1):
        if fractions.Fraction(2 ** q) != fractions.Fraction(1, 1 << -q):
            raise HarnessError(f'2**{q} is not exact on this platform')
        n += 1
    return n


def libm_log2_points():
    """The part of the clog2 justification that SMT-LIB cannot express (libm): math.log2 is exact on the powers of
    two of the table (checked here concretely, returns the number of points) and - ASSUMED - monotone with absolute
    error < 2^-32 on [2^-11, 2^22]."""
    import math
    n = 0
    for k in range(CLOG2_PLO - 1, CLOG2_PHI + 2):
        if math.log2(2.0 ** k) != float(k):
            raise HarnessError(f'math.log2(2**{k}) is not exact on this platform')
        n += 1
    return n


def prove(R, rules, lim, timeout_s=120, workers=8, solver='z3new', second=None):
    """Decide the lemmas for `rules` (set of rule names actually applied).  Records one obligation per lemma on R;
    returns True iff every lemma is unsat and every twin sat.  `second`: also ask that solver (or the lemma's own
    alternative decision) and require agreement (sat vs unsat => HarnessError; a timeout of the second opinion is
    recorded but does not block)."""
    jobs = []
    meta = {}
    for rule in sorted(rules):
        for job in lemma_jobs(rule, lim, timeout_s):
            key, goal, twin, desc = job[:4]
            prim = job[4] if len(job) > 4 and job[4] else solver
            alts = []
            if second:
                alts = job[5] if len(job) > 5 and job[5] else [(second if second != prim else 'z3new', goal)]
            jobs.append((('g', key), goal, prim, timeout_s))
            jobs.append((('t', key), twin, prim, timeout_s))
            for i, (s2, text) in enumerate(alts):
                jobs.append((('s', key, i), text, s2, timeout_s))
            meta[key] = (desc, prim, alts)
    if not jobs:
        return True
    res = smt.solve_many(jobs, workers=workers)
    ok = True
    for key, (desc, prim, alts) in meta.items():
        g = res[('g', key)]
        t = res[('t', key)]
        verdict = g[0]
        sec = None
        if alts:
            vs = [res[('s', key, i)][0] for i in range(len(alts))]
            sec = 'sat' if 'sat' in vs else 'unsat' if all(v == 'unsat' for v in vs) else 'unknown'
            if {verdict, sec} == {'sat', 'unsat'}:
                raise HarnessError(f'FP lemma {key}: solvers disagree ({prim}={verdict}, {alts[0][0]}={sec})')
            if verdict not in ('sat', 'unsat') and sec in ('sat', 'unsat'):
                verdict = sec
        if verdict == 'sat':
            raise HarnessError(f'FP lemma {key} is FALSE (model {g[1]}): the cut rule is not justified on this range')
        reach = t[0] == 'sat'
        good = verdict == 'unsat' and reach
        ok = ok and good
        detail = {'solver': prim, 'verdict': g[0], 'twin': t[0]}
        if alts:
            detail['second'] = {'solver': alts[0][0], 'queries': len(alts), 'verdict': sec,
                                'secs': round(sum(res[('s', key, i)][2] for i in range(len(alts))), 1)}
        R.ob(f'FP lemma {desc} [{key}]', 'discharged' if good else 'not_discharged', g[2], detail, nontrivial=reach)
    return ok


def require_verdicts(res):
    """`res` = chrun.run(...) result.  A CrossHair worker that neither confirmed, refuted, reported 'Not confirmed' /
    'Unable to meet precondition' nor hit the hard timeout has CRASHED (import error, segfault of the tracer, ...):
    that is a harness failure (exit 2), never a quiet not_discharged."""
    bad = []
    for target, (verdict, msg, _dt) in res.items():
        if verdict == 'unknown' and not any(k in msg for k in ('Not confirmed', 'Unable to meet precondition', '[hard timeout]')):
            bad.append(f'{target}: {msg.strip()[-200:] or "<no output: worker died>"}')
    if bad:
        raise HarnessError(f'{len(bad)} CrossHair worker(s) produced no verdict (crashed): ' + ' | '.join(bad[:3]))


def two_phase(gm, refuted, replay, pct, prefix='S_', workers=8):
    """Turn CrossHair 'refuted' verdicts into replayed findings.  Principle: lemmas are needed to DISCHARGE; for REFUTING
    any model may propose candidates because every report is replayed on the real uncut code.

    refuted: {condition name: (crosshair message, argument names)};  replay(name, args) -> None (property holds on the
    real code) or a description.  Phase 1 replays CrossHair's own counterexample - including the input on which a cut
    helper raised CutRangeError (operands left the lemma range; that is not a verdict).  Whatever does not reproduce is
    searched again in phase 2 with the twin condition `<prefix><name>`, which runs the same code with the helpers in
    SEARCH mode (exact real-valued reading of every idiom, no side conditions, nothing discharged), and the twin's
    counterexample is replayed.  Returns {name: {'args','result','how','twin','secs','msg'}}; result None => nothing
    reproduced (the obligation stays open)."""
    from . import chrun
    out = {}
    need = []
    for fn, (msg, argn) in refuted.items():
        a = chrun.parse_counterexample(msg, argn)
        if a is None and 'CutRangeError' not in msg:
            raise HarnessError(f'cannot parse CrossHair counterexample: {msg}')
        r = replay(fn, a) if a is not None else None
        out[fn] = {'args': a, 'result': r, 'how': 'direct', 'twin': None, 'secs': 0.0, 'msg': msg}
        if r is None:
            out[fn]['how'] = 'cut-range' if 'CutRangeError' in msg else 'not-reproduced'
            need.append(fn)
    if need:
        tres = chrun.run([f'{gm}.{prefix}{fn}' for fn in need], per_condition_timeout=pct, workers=workers)
        require_verdicts(tres)
        for fn in need:
            tv, tmsg, tdt = tres[f'{gm}.{prefix}{fn}']
            o = out[fn]
            o['twin'], o['secs'] = tv, tdt
            if tv == 'refuted':
                a2 = chrun.parse_counterexample(tmsg, refuted[fn][1])
                if a2 is None:
                    raise HarnessError(f'cannot parse CrossHair counterexample: {tmsg}')
                r = replay(fn, a2)
                if r is not None:
                    o.update(args=a2, result=r, how='search', msg=tmsg)
    return out
