"""E2 "symbolic scheduler harness": CrossHair drives the REAL asyncio machinery through a schedule of
symbolic integers (DESIGN 3.2).

A harness module (harness/<ID>_*.py) defines a *scenario* coroutine: a director that runs on a real
asyncio event loop and executes k steps.  Each step's action number, its "drain" bit (do the ready
callbacks run before the next action?) and the numeric parameters (weights, clock increments, keys)
are CrossHair symbolic values, so one CrossHair condition covers every schedule of that shape; only
"Confirmed over all paths" discharges it.  The classes under test and asyncio's Event/Future/Task are
the real ones.  What this module provides:

* DetLoop        - asyncio.BaseEventLoop (the real scheduler) with a deterministic clock and a null I/O
                   selector (CrossHair makes time.* symbolic, which the stock loop answers with
                   NotDeterministic); SelectorDetLoop is the same on the stock SelectorEventLoop.
* run_det / run_plain - run a scenario on a fresh DetLoop (under CrossHair) or on the STOCK asyncio
                   loop (concrete replay of a counterexample, no CrossHair, no DetLoop).
* step / settle  - one loop iteration / run until no callback is ready (the drain bit's meaning).
* Prune          - raised by a scenario when a step's action is not enabled: the schedule is outside
                   the quantified set and the condition is vacuously true on that path.
* gen_shards / run_shards - split one condition into per-process CrossHair conditions by FIXING the
                   first schedule choices / parameters (cartesian product of explicit value lists),
                   generated as real source text with chrun.gen_module, with a reachability twin each.
* discharge      - turn shard verdicts into obligations; counterexamples are replayed on plain asyncio
                   before they are reported.
"""
import asyncio
import importlib
import importlib.util
import itertools
import os
import sys

from . import chrun
from .common import REPO, HarnessError


class Prune(Exception):
    """The chosen action is not enabled in the current state (schedule not well-formed)."""


class _NullSelector:
    """No file descriptor is ever registered in these harnesses: nothing to poll."""

    def select(self, timeout=None):
        return []

    def close(self):
        pass


class DetLoop(asyncio.BaseEventLoop):
    """asyncio's real scheduler (BaseEventLoop: call_soon, the ready queue, _run_once, Task stepping) with
    a director-controlled clock and a null I/O selector.  Measured 2x the CrossHair throughput of the
    SelectorEventLoop variant below (no socketpair/epoll object per explored path); the callbacks run
    and their order are the same because both inherit them from BaseEventLoop."""

    def __init__(self):
        super().__init__()
        self._selector = _NullSelector()
        self.now = 0.0

    def _process_events(self, event_list):
        pass

    def _write_to_self(self):
        pass

    def time(self):
        return self.now


class SelectorDetLoop(asyncio.SelectorEventLoop):
    """The stock selector loop with only the clock replaced (VT_SCHED_LOOP=selector selects it)."""

    def __init__(self):
        super().__init__()
        self.now = 0.0

    def time(self):
        return self.now


def _quiet(loop, context):
    """Loop exception handler: "Task exception was never retrieved" and the like are expected in fault-injection
    schedules; formatting them through logging is pure overhead (and, under CrossHair, most of a path's cost)."""


def run_det(coro):
    loop = SelectorDetLoop() if os.environ.get('VT_SCHED_LOOP') == 'selector' else DetLoop()
    loop.set_exception_handler(_quiet)
    try:
        return loop.run_until_complete(coro)
    finally:
        loop.close()


def run_plain(coro):
    """Concrete replay: the stock event loop of this Python, exactly what `asyncio.run` would use."""
    loop = asyncio.new_event_loop()
    loop.set_exception_handler(_quiet)
    try:
        return loop.run_until_complete(coro)
    finally:
        loop.close()


def concretize(x, lo, hi):
    """Turn a symbolic int known to lie in lo..hi into a concrete one by branching (one path per value), so
    that it can index lists and select actions without CrossHair realising it behind our back."""
    if not (lo <= x <= hi):
        raise Prune()
    while lo < hi:
        mid = (lo + hi) // 2
        if x <= mid:
            hi = mid
        else:
            lo = mid + 1
    return lo


async def step():
    """Yield to the loop for exactly one iteration (every callback that is ready now runs once)."""
    await asyncio.sleep(0)


SETTLE_CAP = 24


async def settle():
    """Drain: iterate the loop until no callback is ready (timers never exist in these harnesses: clocks
    and sleeps are stubs).  `_ready` is BaseEventLoop's run queue; bounded so a livelock is reported."""
    loop = asyncio.get_running_loop()
    for _ in range(SETTLE_CAP):
        await asyncio.sleep(0)
        if not loop._ready:
            return
    raise AssertionError('livelock: callbacks still ready after %d loop iterations' % SETTLE_CAP)


async def cleanup(tasks):
    """Cancel whatever is still pending and let the cancellations run, so that no task outlives its loop
    (called from a scenario's `finally`; never part of the oracle)."""
    live = False
    for t in tasks:
        if t is not None and not t.done():
            t.cancel()
            live = True
    if live:
        for _ in range(6):
            await asyncio.sleep(0)
    for t in tasks:
        if t is not None and t.done() and not t.cancelled():
            t.exception()


def freeze():
    """Call at the end of a harness module: everything imported so far (z3, crosshair, the repository modules) is
    moved to the GC's permanent generation.  CrossHair runs gc.collect() around every path; with a large heap
    that was a third of the run time.  No effect on program semantics."""
    import gc
    gc.collect()
    gc.freeze()


def load_file(modname, relpath):
    """Import one repository file by path under a private module name (no package side effects)."""
    if modname in sys.modules:
        return sys.modules[modname]
    spec = importlib.util.spec_from_file_location(modname, os.path.join(REPO, relpath))
    m = importlib.util.module_from_spec(spec)
    sys.modules[modname] = m
    spec.loader.exec_module(m)
    return m


# ---------------------------------------------------------------------------------------------------
# sharding
# ---------------------------------------------------------------------------------------------------
_FN = '''
def {kind}_{tag}({sig}) -> bool:
    """
{pre}
    post: _
    """
    return _{kind}({call})
'''


def _tagval(v):
    return {True: 'T', False: 'F'}.get(v, str(v)) if isinstance(v, bool) else str(v).replace('-', 'm')


def gen_shards(modname, harness_module, params, shard_on, extra_pre=(), entry=('check', 'reach'), const=None,
               prefix='', meta=None):
    """params: [(name, 'int', lo, hi) | (name, 'bool')] in the positional order of the harness entry points
    `check(*params)` and `reach(*params)`.  shard_on: {name: [values]} - one shard per element of the
    cartesian product; the lists must cover the parameter's whole declared range for the claim to be
    "all schedules" (asserted here).  const: {name: value} parameters held constant in every shard (a stated
    bound, not a coverage claim).  Returns (generated module name, [shard dict])."""
    const = dict(const or {})
    byname = {p[0]: p for p in params}
    for n, vals in shard_on.items():
        p = byname[n]
        full = [False, True] if p[1] == 'bool' else list(range(p[2], p[3] + 1))
        if sorted(vals) != full:
            raise HarnessError(f'shard values for {n} do not cover its range {full}')
    names = list(shard_on)
    free = [p for p in params if p[0] not in shard_on and p[0] not in const]
    sig = ', '.join(f'{p[0]}: {p[1]}' for p in free)
    pres = [f'    pre: {p[2]} <= {p[0]} <= {p[3]}' for p in free if p[1] == 'int'] + [f'    pre: {e}' for e in extra_pre]
    out = [f'from {harness_module} import {entry[0]} as _check, {entry[1]} as _reach\n']
    shards = []
    for combo in itertools.product(*[shard_on[n] for n in names]):
        tag = prefix + ('_'.join(f'{n}{_tagval(v)}' for n, v in zip(names, combo)) or 'all')
        fixed = {**const, **dict(zip(names, combo))}
        call = ', '.join(repr(fixed[p[0]]) if p[0] in fixed else p[0] for p in params)
        for kind in ('check', 'reach'):
            out.append(_FN.format(kind=kind, tag=tag, sig=sig, pre='\n'.join(pres), call=call))
        shards.append({'tag': tag, 'fixed': fixed, 'free': [p[0] for p in free], 'meta': dict(meta or {})})
    gm = chrun.gen_module(modname, '\n'.join(out))
    for s in shards:
        s['check'] = f'{gm}.check_{s["tag"]}'
        s['reach'] = f'{gm}.reach_{s["tag"]}'
    return gm, shards


def run_shards(shards, per_condition_timeout, workers=8):
    """Runs every shard's condition and reachability twin (one CrossHair process each, <= `workers` at a
    time, twins first: they stop at the first complete schedule).  Adds to each shard: verdict, msg, secs,
    reach_verdict, reach_msg, reach_secs, cex (full argument dict of a counterexample)."""
    targets = [s['reach'] for s in shards] + [s['check'] for s in shards]
    res = chrun.run(targets, per_condition_timeout=per_condition_timeout, workers=workers)
    for s in shards:
        s['verdict'], s['msg'], s['secs'] = res[s['check']]
        s['reach_verdict'], s['reach_msg'], s['reach_secs'] = res[s['reach']]
        s['cex'] = None
        if s['verdict'] == 'refuted':
            args = chrun.parse_counterexample(s['msg'], s['free'])
            if args is None:
                raise HarnessError(f'cannot parse CrossHair counterexample: {s["msg"]}')
            s['cex'] = {**s['fixed'], **args}
    return shards


def discharge(R, shards, title, replay_fn, describe, seen=None):
    """One obligation per shard of one group (= one harness shape).  replay_fn(args, meta) -> (ok, cls, why)
    runs the schedule on plain asyncio on the real class; a CrossHair counterexample whose replay says ok is
    a harness error.  One VIOLATION / KNOWN-FINDING line per distinct finding class (`seen` may be shared
    between groups).  Vacuity: a shard whose twin is refuted is non-trivial; a shard whose condition AND twin
    are both confirmed contains no well-formed schedule at all (fixing its first choices excluded them) and is
    recorded as discharged but trivial; if NO shard of the group has a refuted twin the whole group is not
    discharged.  Returns {class: status}."""
    seen = {} if seen is None else seen
    any_reach = any(s['reach_verdict'] == 'refuted' for s in shards)
    for s in shards:
        name = f'{title} [{s["tag"]}]'
        reach = s['reach_verdict'] == 'refuted'
        det = {'twin': s['reach_verdict'], 'twin_secs': round(s['reach_secs'], 1)}
        if s['verdict'] == 'confirmed':
            if reach:
                R.ob(name, 'discharged', s['secs'], det, nontrivial=True)
            elif s['reach_verdict'] == 'confirmed' and any_reach:
                det['note'] = 'no well-formed schedule in this shard (twin confirmed): vacuously true'
                R.ob(name, 'discharged', s['secs'], det, nontrivial=False)
            else:
                R.ob(name, 'not_discharged', s['secs'], det, nontrivial=False)
        elif s['verdict'] == 'refuted':
            ok, cls, why = replay_fn(s['cex'], s['meta'])
            if ok:
                raise HarnessError(f'CrossHair counterexample does not reproduce on plain asyncio: {s["cex"]}')
            if cls not in seen:
                seen[cls] = R.finding(cls, f'{describe(s["cex"], s["meta"])} -> {why}',
                                      {'args': s['cex'], 'meta': s['meta']})
            R.ob(name, seen[cls], s['secs'], {'class': cls, 'cex': s['cex'], 'why': why, **det}, nontrivial=True)
        else:
            R.ob(name, 'not_discharged', s['secs'], {'crosshair': s['msg'][-200:], **det})
        R.sample({'shard': s['tag'], 'verdict': s['verdict'], 'secs': round(s['secs'], 1), 'twin': s['reach_verdict'],
                  'cex': s['cex']})
    return seen
