"""natsym: run real (async) Python natively on z3-backed proxy values, exploring every feasible branch.

The code under test is the repository's own, imported through vt.loader and executed by CPython.  Inputs are
proxies (`SInt`, `SBool`) that carry z3 terms.  When Python needs a concrete truth value of a proxy (`if`,
`assert`, `and/or/not`, `min/max`, `bool()`), the active context asks z3 which sides are feasible under the path
condition, takes one and schedules the other: depth-first search over decision prefixes by re-execution.  Every
non-constant condition met on a path is recorded (forced ones too), so a replayed prefix lines up with the
original run exactly.  The result is the list of feasible paths, each with its path condition (z3 formulas), its
return value or exception, and the harness-side `choose` selections.  Verdicts are then single z3 queries over
`OR_i (pc_i and not post_i)` — not a sample of runs.

`SInt` renders itself through `str()` / f-strings as a token `⟦k⟧`; `term_of_token` maps it back, so a fake
peer that receives a formatted header can recover the exact z3 term the real expression computed.

With plain Python ints/bools the same harness code is an ordinary concrete run (used for replay).
"""
import asyncio
import re

import z3

from .common import HarnessError


class PathAbort(BaseException):
    """Unwinds an infeasible / pruned path (BaseException: `except Exception` in tested code cannot eat it)."""


_CTX = None


class Ctx:
    def __init__(self, explorer, prefix):
        self.ex = explorer
        self.prefix = prefix
        self.decisions = []   # every non-constant condition met, forced or free, in order
        self.pc = []
        self.alts = []
        self.tokens = []
        self.notes = {}
        self.seen = {}        # z3 ast id of a condition already decided on this path -> the side taken
        self._keep = []       # keeps those asts alive so that ids are not reused

    def decide(self, cond):
        if isinstance(cond, bool):
            return cond
        cond = z3.simplify(cond)
        if z3.is_true(cond):
            return True
        if z3.is_false(cond):
            return False
        cid = cond.get_id()
        if cid in self.seen:
            return self.seen[cid]
        if z3.is_not(cond) and cond.arg(0).get_id() in self.seen:
            return not self.seen[cond.arg(0).get_id()]
        choice = self._decide_new(cond)
        self.seen[cid] = choice
        self._keep.append(cond)
        return choice

    def _decide_new(self, cond):
        i = len(self.decisions)
        if i < len(self.prefix):
            choice = self.prefix[i]
        else:
            s = self.ex.solver
            s.push()
            s.add(*self.pc)
            s.push()
            s.add(cond)
            rt = str(s.check())
            s.pop()
            s.push()
            s.add(z3.Not(cond))
            rf = str(s.check())
            s.pop()
            s.pop()
            self.ex.solver_calls += 2
            if 'unknown' in (rt, rf):
                raise HarnessError('natsym: feasibility query returned unknown')
            t_ok, f_ok = rt == 'sat', rf == 'sat'
            if t_ok and f_ok:
                choice = True
                self.alts.append(self.decisions + [False])
            elif t_ok:
                choice = True
            elif f_ok:
                choice = False
            else:
                raise PathAbort('infeasible path')
        self.decisions.append(choice)
        self.pc.append(cond if choice else z3.Not(cond))
        if len(self.decisions) > self.ex.max_decisions:
            raise HarnessError('natsym: too many symbolic branch decisions on one path')
        return choice

    def token(self, e):
        self.tokens.append(e)
        return f'⟦{len(self.tokens) - 1}⟧'


def _decide(cond):
    if _CTX is None:
        raise HarnessError('symbolic value branched on outside a natsym run')
    return _CTX.decide(cond)


def _b(o):
    if isinstance(o, SBool):
        return o.e
    if isinstance(o, bool):
        return z3.BoolVal(o)
    if isinstance(o, SInt):
        return o.e != 0
    if isinstance(o, int):
        return z3.BoolVal(o != 0)
    raise HarnessError(f'cannot use {type(o).__name__} as a symbolic bool')


class SBool:
    __slots__ = ('e',)

    def __init__(self, e):
        self.e = e

    def __bool__(self):
        return _decide(self.e)

    def __invert__(self):
        return SBool(z3.Not(self.e))

    def __and__(self, o):
        return SBool(z3.And(self.e, _b(o)))

    __rand__ = __and__

    def __or__(self, o):
        return SBool(z3.Or(self.e, _b(o)))

    __ror__ = __or__

    def __eq__(self, o):
        if isinstance(o, (bool, SBool)):
            return SBool(self.e == _b(o))
        if isinstance(o, (int, SInt)):
            return SInt(z3.If(self.e, 1, 0)) == o
        return False

    def __ne__(self, o):
        r = self.__eq__(o)
        return (not r) if isinstance(r, bool) else SBool(z3.Not(r.e))

    def __hash__(self):
        raise TypeError('symbolic bool is unhashable')

    def __int__(self):
        return 1 if bool(self) else 0

    def __index__(self):
        return int(self)

    def __add__(self, o):
        return SInt(z3.If(self.e, 1, 0)) + o

    __radd__ = __add__

    # bool ordering (False < True), needed when tuples of proxies are sorted
    def __lt__(self, o):
        return SInt(z3.If(self.e, 1, 0)) < o

    def __le__(self, o):
        return SInt(z3.If(self.e, 1, 0)) <= o

    def __gt__(self, o):
        return SInt(z3.If(self.e, 1, 0)) > o

    def __ge__(self, o):
        return SInt(z3.If(self.e, 1, 0)) >= o

    def __repr__(self):
        return f'SBool({self.e})'


class SInt:
    __slots__ = ('e',)

    def __init__(self, e):
        self.e = e

    @staticmethod
    def _o(o):
        if isinstance(o, SInt):
            return o.e
        if isinstance(o, bool):
            return z3.IntVal(1 if o else 0)
        if isinstance(o, int):
            return z3.IntVal(o)
        if isinstance(o, SBool):
            return z3.If(o.e, 1, 0)
        return None

    def _bin(self, o, f):
        x = self._o(o)
        if x is None:
            return NotImplemented
        return SInt(f(self.e, x))

    def _cmp(self, o, f):
        x = self._o(o)
        if x is None:
            return NotImplemented
        return SBool(f(self.e, x))

    def __add__(self, o):
        return self._bin(o, lambda a, b: a + b)

    __radd__ = __add__

    def __sub__(self, o):
        return self._bin(o, lambda a, b: a - b)

    def __rsub__(self, o):
        return self._bin(o, lambda a, b: b - a)

    def __mul__(self, o):
        return self._bin(o, lambda a, b: a * b)

    __rmul__ = __mul__

    def __floordiv__(self, o):
        # Python floor division for a positive divisor coincides with SMT-LIB div
        x = self._o(o)
        if x is None:
            return NotImplemented
        if not _decide(x > 0):
            raise HarnessError('natsym: floor division by a non-positive symbolic divisor is not modelled')
        return SInt(self.e / x)

    def __mod__(self, o):
        x = self._o(o)
        if x is None:
            return NotImplemented
        if not _decide(x > 0):
            raise HarnessError('natsym: modulo by a non-positive symbolic divisor is not modelled')
        return SInt(self.e % x)

    def __divmod__(self, o):
        return self // o, self % o

    def __neg__(self):
        return SInt(-self.e)

    def __pos__(self):
        return self

    def __eq__(self, o):
        x = self._o(o)
        if x is None:
            return False
        return SBool(self.e == x)

    def __ne__(self, o):
        x = self._o(o)
        if x is None:
            return True
        return SBool(self.e != x)

    def __lt__(self, o):
        return self._cmp(o, lambda a, b: a < b)

    def __le__(self, o):
        return self._cmp(o, lambda a, b: a <= b)

    def __gt__(self, o):
        return self._cmp(o, lambda a, b: a > b)

    def __ge__(self, o):
        return self._cmp(o, lambda a, b: a >= b)

    def __bool__(self):
        return _decide(self.e != 0)

    def __hash__(self):
        return id(self)

    def __index__(self):
        # len(), range(), slicing, bytes(n): CPython needs a machine integer.  The value is concretised by case
        # split inside the explorer's index bounds; values outside are pruned and recorded (Explorer.pruned).
        return concretize(self)

    def __repr__(self):
        return f'SInt({self.e})'

    def __format__(self, spec):
        if spec not in ('', 'd'):
            raise HarnessError(f'symbolic int formatted with spec {spec!r}')
        return str(self)

    def __str__(self):
        if _CTX is None:
            return f'<sym {self.e}>'
        return _CTX.token(self.e)


def concretize(x, lo=None, hi=None):
    """Case split of a symbolic integer over [lo, hi] (default: the explorer's index bounds).  The region outside
    the interval is cut off: its condition is recorded in Explorer.pruned so that coverage stays checkable."""
    if isinstance(x, bool):
        return int(x)
    if isinstance(x, int):
        return x
    if isinstance(x, SBool):
        return 1 if bool(x) else 0
    if _CTX is None:
        raise HarnessError('symbolic int concretised outside a natsym run')
    ex = _CTX.ex
    lo = ex.index_bounds[0] if lo is None else lo
    hi = ex.index_bounds[1] if hi is None else hi
    e = z3.simplify(x.e)
    if z3.is_int_value(e):
        return e.as_long()
    if not _CTX.decide(z3.And(e >= lo, e <= hi)):
        ex.pruned.append(z3.And(*_CTX.pc))
        raise PathAbort('index outside the concretisation bounds')
    for v in range(lo, hi):
        if _CTX.decide(e == v):
            return v
    _CTX.pc.append(e == hi)
    return hi


class SEnum:
    """A value from a finite universe of Python objects (strings, None, Enum members), symbolic in which one:
    `term` is a z3 Int index into `universe`.  `==`/`!=` give SBool; `.value()` case-splits to the concrete member
    (used where the value has to be handed to code that hashes it or passes it to C)."""
    __slots__ = ('e', 'universe')

    def __init__(self, e, universe):
        self.e = e
        self.universe = list(universe)

    def domain(self):
        return z3.And(self.e >= 0, self.e < len(self.universe))

    def _idx(self, o):
        for i, u in enumerate(self.universe):
            if u is o or (type(u) is type(o) and u == o):
                return i
        return None

    def __eq__(self, o):
        if isinstance(o, SEnum):
            conds = [z3.And(self.e == i, o.e == j) for i, u in enumerate(self.universe)
                     for j, w in enumerate(o.universe) if u is w or (type(u) is type(w) and u == w)]
            return SBool(z3.Or(*conds) if conds else z3.BoolVal(False))
        i = self._idx(o)
        if i is None:
            return False
        return SBool(self.e == i)

    def __ne__(self, o):
        r = self.__eq__(o)
        return (not r) if isinstance(r, bool) else SBool(z3.Not(r.e))

    def __hash__(self):
        raise HarnessError('symbolic enum hashed: call .value() before handing it to a set/dict')

    def __bool__(self):
        return bool(self.value())

    def value(self):
        if _CTX is None:
            raise HarnessError('symbolic enum concretised outside a natsym run')
        n = len(self.universe)
        for i in range(n - 1):
            if _CTX.decide(self.e == i):
                return self.universe[i]
        _CTX.pc.append(self.e == n - 1)
        return self.universe[n - 1]

    def is_(self, o):
        """z3 formula `self is member o` (for oracles)."""
        i = self._idx(o)
        return z3.BoolVal(False) if i is None else self.e == i

    def __repr__(self):
        return f'SEnum({self.e} in {self.universe})'


TOKEN_RE = r'⟦\d+⟧'


def term_of_token(tok):
    m = re.fullmatch(r'⟦(\d+)⟧', tok)
    if not m or _CTX is None:
        raise HarnessError(f'not a live token: {tok!r}')
    return SInt(_CTX.tokens[int(m.group(1))])


def term(x):
    """z3 Int term of a proxy or a Python int/bool."""
    if isinstance(x, SInt):
        return x.e
    if isinstance(x, SBool):
        return z3.If(x.e, 1, 0)
    if isinstance(x, bool):
        return z3.IntVal(1 if x else 0)
    if isinstance(x, int):
        return z3.IntVal(x)
    raise HarnessError(f'not an integer value: {x!r}')


def bterm(x):
    return _b(x)


def choose(name, options):
    """Harness-side shape choice: one concrete option per explored path, recorded as `name == index` in the path
    condition (so the solver, not the harness, picks the shape in the final query)."""
    options = list(options)
    if _CTX is None:
        raise HarnessError('choose() outside a natsym run')
    x = z3.Int(name)
    _CTX.ex.choice_vars[name] = (x, options)
    for i, o in enumerate(options[:-1]):
        if _CTX.decide(x == i):
            _CTX.notes[name] = o
            return o
    _CTX.pc.append(x == len(options) - 1)
    _CTX.notes[name] = options[-1]
    return options[-1]


def note(key, value):
    """Attach harness-side information to the current path (read back from Outcome.notes)."""
    if _CTX is not None:
        _CTX.notes[key] = value


class Outcome:
    def __init__(self, pc, value=None, exc=None, notes=None, decisions=None):
        self.pc = pc
        self.value = value
        self.exc = exc
        self.notes = notes or {}
        self.decisions = decisions or []

    @property
    def cond(self):
        return z3.And(*self.pc) if self.pc else z3.BoolVal(True)


class Explorer:
    def __init__(self, constraints=(), max_paths=5000, max_decisions=60, timeout_ms=20000, index_bounds=(0, 8)):
        self.solver = z3.Solver()
        self.solver.set('timeout', timeout_ms)
        self.constraints = list(constraints)
        self.solver.add(*self.constraints)
        self.max_paths = max_paths
        self.max_decisions = max_decisions
        self.solver_calls = 0
        self.paths = 0
        self.choice_vars = {}
        self.index_bounds = index_bounds
        self.pruned = []      # path conditions cut off by concretize() (outside the index bounds)

    def run(self, body):
        """body() -> value or coroutine.  Returns one Outcome per feasible path."""
        global _CTX
        work = [[]]
        outs = []
        while work:
            prefix = work.pop()
            self.paths += 1
            if self.paths > self.max_paths:
                raise HarnessError('natsym: path budget exceeded')
            ctx = Ctx(self, prefix)
            prev = _CTX
            _CTX = ctx
            try:
                r = body()
                if asyncio.iscoroutine(r):
                    loop = asyncio.new_event_loop()
                    try:
                        r = loop.run_until_complete(r)
                    finally:
                        _CTX = None   # finalisers of abandoned async generators must not branch
                        try:
                            loop.run_until_complete(loop.shutdown_asyncgens())
                        except Exception:
                            pass
                        loop.close()
                outs.append(Outcome(ctx.pc, value=r, notes=ctx.notes, decisions=ctx.decisions))
            except PathAbort:
                pass
            except HarnessError:
                raise
            except Exception as e:  # the code under test raised: an outcome, not a harness failure
                outs.append(Outcome(ctx.pc, exc=e, notes=ctx.notes, decisions=ctx.decisions))
            finally:
                _CTX = prev
            work.extend(ctx.alts)
        return outs

    def covers(self, outs, extra=()):
        """z3 check that the explored paths plus the regions cut off by the index bounds are exhaustive under the
        constraints: returns 'unsat' when constraints ∧ ¬(pc_1 ∨ … ∨ pc_n ∨ pruned_1 ∨ …) has no model."""
        s = z3.Solver()
        s.set('timeout', 60000)
        s.add(*self.constraints)
        s.add(*extra)
        for name, (x, options) in self.choice_vars.items():
            s.add(x >= 0, x < len(options))
        conds = [o.cond for o in outs] + list(self.pruned)
        s.add(z3.Not(z3.Or(*conds)) if conds else z3.BoolVal(True))
        return str(s.check())
