"""intpy: a small symbolic interpreter for the integer arithmetic of (async) Python functions, AST -> z3 Int/Bool.

It executes a function body statement by statement over an environment name -> value where a value is
  * a z3 Int / Bool term (Python ints and bools),
  * a tuple of values, a Closure (nested def / functools.partial), or
  * Opaque: anything that is not integer arithmetic (streams, reports, byte strings, file-system objects).
Local names carry no meaning for the interpreter: whatever the function calls its variables, the result is the
list of EVENTS — calls made on opaque objects (e.g. `multi_part_create`, `create_part`, `open_from`, `readexactly`,
`write`) with their integer arguments as z3 terms, each under its path guard and inside its loop context.

Control flow
  if / conditional expression on an integer test   both sides, values merged with ite; a side that returns or raises
                                                    ends there and the rest runs under the negated test
  if on an opaque test (e.g. `len(b) == 0`)         allowed only when the branch merely raises / logs
  for x in range(n)  and  [g(x) for x in range(n)]  ONE symbolic iteration: x is a fresh integer, 0 <= x < n is recorded
  while test:                                       summarised as a transition: the integer locals assigned in the body
                                                    become fresh symbols (the loop state); recorded are the initial
                                                    values, the guard, the body's events and the next-state terms
  try / with / async with / await                   transparent; except-handlers run on a copy of the state and their
                                                    events are kept (flagged) so that callers can compare them
  calls: nested defs and methods listed in `methods` are inlined; `retry_transient_errors(f, *a)` and
  `functools.partial(f, *a)` are understood; `input_calls` maps a callee name to a symbolic input (e.g. `.size()`).
Anything else that would have to produce an integer (bit operations, floats, string arithmetic, comprehension
shapes other than the above, `global`, generators, recursion) raises HarnessError: the caller must not guess.
"""
import ast

import z3

from .common import HarnessError


class Opaque:
    def __init__(self, tag, origin=None):
        self.tag = tag
        self.origin = origin

    def __repr__(self):
        return f'<{self.tag}>'


class Closure:
    def __init__(self, node, env, bound=(), self_obj=None):
        self.node, self.env, self.bound, self.self_obj = node, env, tuple(bound), self_obj


class _Return(Exception):
    def __init__(self, value):
        self.value = value


class _Raise(Exception):
    pass


def is_int(v):
    return isinstance(v, z3.ArithRef)


def is_bool(v):
    return isinstance(v, z3.BoolRef)


class Interp:
    def __init__(self, methods=None, input_calls=None, attr_symbols=None, max_depth=6):
        self.methods = methods or {}            # name -> FunctionDef node (methods of `self` that may be inlined)
        self.input_calls = input_calls or {}    # callee attribute/name -> z3 term
        self.attr_symbols = attr_symbols or {}  # unparsed attribute text -> z3 term
        self.events = []
        self.loops = []
        self.pc = []           # current path guard (list of z3 Bool)
        self.ctx = []          # loop contexts
        self.exits = []        # (kind, guard, events-at-that-point-index)
        self.depth = 0
        self.max_depth = max_depth
        self.in_handler = 0
        self.fresh = 0

    # ---- helpers
    def guard(self):
        return z3.And(*self.pc) if self.pc else z3.BoolVal(True)

    def truth(self, v):
        if is_bool(v):
            return v
        if is_int(v):
            return v != 0
        return None

    def event(self, kind, args, kwargs, node):
        e = {'kind': kind, 'args': args, 'kwargs': kwargs, 'guard': self.guard(), 'ctx': list(self.ctx),
             'handler': self.in_handler > 0, 'line': getattr(node, 'lineno', 0), 'src': ast.unparse(node)[:160]}
        self.events.append(e)
        return e

    # ---- expressions
    def ev(self, n, env):
        if isinstance(n, ast.Await):
            return self.ev(n.value, env)
        if isinstance(n, ast.Constant):
            if isinstance(n.value, bool):
                return z3.BoolVal(n.value)
            if isinstance(n.value, int):
                return z3.IntVal(n.value)
            return Opaque(f'const {n.value!r}')
        if isinstance(n, ast.Name):
            if n.id in env:
                return env[n.id]
            return Opaque(f'name {n.id}')
        if isinstance(n, ast.Attribute):
            key = ast.unparse(n)
            for k, t in self.attr_symbols.items():
                if key == k or key.endswith('.' + k):
                    return t
            return Opaque(f'attr {key}')
        if isinstance(n, ast.Tuple):
            return tuple(self.ev(e, env) for e in n.elts)
        if isinstance(n, ast.BinOp):
            a, c = self.ev(n.left, env), self.ev(n.right, env)
            if not (is_int(a) and is_int(c)):
                if isinstance(a, Opaque) or isinstance(c, Opaque):
                    return Opaque('binop on opaque')
                raise HarnessError(f'intpy: non-integer operands in {ast.unparse(n)}')
            if isinstance(n.op, ast.Add):
                return a + c
            if isinstance(n.op, ast.Sub):
                return a - c
            if isinstance(n.op, ast.Mult):
                return a * c
            if isinstance(n.op, ast.FloorDiv):
                # Python floors, SMT-LIB div is Euclidean: they agree for a positive divisor (recorded as a side condition)
                self.side.append(c > 0)
                return a / c
            if isinstance(n.op, ast.Mod):
                self.side.append(c > 0)
                return a % c
            raise HarnessError(f'intpy: operator {type(n.op).__name__} is outside integer arithmetic: {ast.unparse(n)}')
        if isinstance(n, ast.UnaryOp):
            a = self.ev(n.operand, env)
            if isinstance(n.op, ast.Not):
                t = self.truth(a)
                return Opaque('not opaque') if t is None else z3.Not(t)
            if isinstance(n.op, ast.USub) and is_int(a):
                return -a
            if isinstance(n.op, ast.UAdd) and is_int(a):
                return a
            if isinstance(a, Opaque):
                return Opaque('unary on opaque')
            raise HarnessError(f'intpy: {ast.unparse(n)}')
        if isinstance(n, ast.BoolOp):
            vals = [self.ev(v, env) for v in n.values]
            ts = [self.truth(v) for v in vals]
            if any(t is None for t in ts):
                return Opaque('boolop on opaque')
            return z3.And(*ts) if isinstance(n.op, ast.And) else z3.Or(*ts)
        if isinstance(n, ast.Compare):
            terms = [self.ev(n.left, env)] + [self.ev(c, env) for c in n.comparators]
            if any(isinstance(t, (Opaque, tuple, Closure)) for t in terms):
                return Opaque('comparison with opaque')
            terms = [z3.If(t, 1, 0) if is_bool(t) else t for t in terms]
            out = []
            for op, a, c in zip(n.ops, terms, terms[1:]):
                f = {ast.Lt: lambda x, y: x < y, ast.LtE: lambda x, y: x <= y, ast.Gt: lambda x, y: x > y,
                     ast.GtE: lambda x, y: x >= y, ast.Eq: lambda x, y: x == y, ast.NotEq: lambda x, y: x != y}.get(type(op))
                if f is None:
                    return Opaque('comparison operator')
                out.append(f(a, c))
            return z3.And(*out) if len(out) > 1 else out[0]
        if isinstance(n, ast.IfExp):
            t = self.truth(self.ev(n.test, env))
            a, c = self.ev(n.body, env), self.ev(n.orelse, env)
            if t is None:
                if isinstance(a, Opaque) and isinstance(c, Opaque):
                    return Opaque('ifexp')
                raise HarnessError(f'intpy: integer chosen by a non-integer test: {ast.unparse(n)}')
            if is_int(a) and is_int(c):
                return z3.If(t, a, c)
            if is_bool(a) and is_bool(c):
                return z3.If(t, a, c)
            if isinstance(a, Opaque) or isinstance(c, Opaque):
                return Opaque('ifexp')
            raise HarnessError(f'intpy: mixed conditional expression {ast.unparse(n)}')
        if isinstance(n, ast.Call):
            return self.call(n, env)
        if isinstance(n, ast.NamedExpr):
            v = self.ev(n.value, env)
            env[n.target.id] = v
            return v
        if isinstance(n, (ast.JoinedStr, ast.Dict, ast.List, ast.Set, ast.Subscript, ast.Lambda, ast.Starred)):
            for c in ast.walk(n):
                if isinstance(c, ast.Call):
                    self.ev(c, env)
            return Opaque(type(n).__name__)
        raise HarnessError(f'intpy: expression {ast.unparse(n)[:80]}')

    # ---- calls
    def call(self, n, env):
        fname = ast.unparse(n.func)
        short = n.func.attr if isinstance(n.func, ast.Attribute) else (n.func.id if isinstance(n.func, ast.Name) else fname)
        # symbolic iteration hidden in a starred comprehension argument: g(*[h(x) for x in range(n)])
        args = []
        for a in n.args:
            if isinstance(a, ast.Starred) and isinstance(a.value, ast.ListComp):
                args.append(self.comprehension(a.value, env))
            elif isinstance(a, ast.ListComp):
                args.append(self.comprehension(a, env))
            else:
                args.append(self.ev(a, env))
        kwargs = {k.arg: self.ev(k.value, env) for k in n.keywords if k.arg}
        if isinstance(n.func, ast.Name):
            if short in ('min', 'max') and args and all(is_int(a) for a in args):
                r = args[0]
                for a in args[1:]:
                    r = z3.If(a <= r, a, r) if short == 'min' else z3.If(a >= r, a, r)
                return r
            if short == 'divmod' and len(args) == 2 and all(is_int(a) for a in args):
                self.side.append(args[1] > 0)
                return (args[0] / args[1], args[0] % args[1])
            if short == 'abs' and len(args) == 1 and is_int(args[0]):
                return z3.If(args[0] >= 0, args[0], -args[0])
            if short in ('int', 'bool') and len(args) == 1:
                if short == 'int' and is_bool(args[0]):
                    return z3.If(args[0], 1, 0)
                if short == 'bool' and self.truth(args[0]) is not None:
                    return self.truth(args[0])
                if is_int(args[0]):
                    return args[0]
            if short in ('len', 'isinstance', 'repr', 'str', 'type', 'print'):
                return Opaque(short)
            if short == 'range':
                return ('range',) + tuple(args)
            if short in env and isinstance(env[short], Closure):
                return self.invoke(env[short], args, kwargs, n)
        if short == 'retry_transient_errors' and args:
            return self.apply(args[0], args[1:], kwargs, n, n.args[0])
        if fname in ('functools.partial', 'partial') and args:
            f = args[0]
            if isinstance(f, Closure):
                return Closure(f.node, f.env, f.bound + tuple(args[1:]), f.self_obj)
            return Opaque('partial')
        if short in self.input_calls:
            self.event(short, args, kwargs, n)
            return self.input_calls[short]
        if isinstance(n.func, ast.Attribute) and ast.unparse(n.func.value) == 'self' and short in self.methods:
            return self.invoke(Closure(self.methods[short], {}, (), 'self'), args, kwargs, n)
        self.event(short, args, kwargs, n)
        return Opaque(f'result of {short}', origin=short)

    def apply(self, f, args, kwargs, node, fnode):
        if isinstance(f, Closure):
            return self.invoke(f, list(args), kwargs, node)
        # self._method passed as a value
        if isinstance(fnode, ast.Attribute) and ast.unparse(fnode.value) == 'self':
            if fnode.attr in self.methods:
                return self.invoke(Closure(self.methods[fnode.attr], {}, (), 'self'), list(args), kwargs, node)
            self.event(fnode.attr, list(args), kwargs, node)
            return Opaque(f'result of {fnode.attr}', origin=fnode.attr)
        self.event('apply', list(args), kwargs, node)
        return Opaque('apply')

    def invoke(self, clo, args, kwargs, node):
        if self.depth >= self.max_depth:
            raise HarnessError('intpy: call depth exceeded (recursion?)')
        fn = clo.node
        params = [a.arg for a in fn.args.args]
        if params and params[0] == 'self':
            params = params[1:]
        vals = list(clo.bound) + list(args)
        env = dict(clo.env)
        defaults = fn.args.defaults
        for k, p in enumerate(params):
            if k < len(vals):
                env[p] = vals[k]
            elif p in kwargs:
                env[p] = kwargs[p]
            else:
                d = k - (len(params) - len(defaults))
                env[p] = self.ev(defaults[d], env) if d >= 0 else Opaque(f'missing {p}')
        for a, dflt in zip(fn.args.kwonlyargs, fn.args.kw_defaults):
            env[a.arg] = kwargs.get(a.arg, self.ev(dflt, env) if dflt is not None else Opaque(a.arg))
        self.depth += 1
        n0 = len(self.pc)
        try:
            self.block(fn.body, env)
            return Opaque('None')
        except _Return as r:
            return r.value
        finally:
            del self.pc[n0:]      # an early return inside the callee does not constrain the caller
            self.depth -= 1

    def comprehension(self, comp, env):
        if len(comp.generators) != 1 or comp.generators[0].ifs or comp.generators[0].is_async:
            raise HarnessError(f'intpy: comprehension shape {ast.unparse(comp)[:80]}')
        gen = comp.generators[0]
        it = self.ev(gen.iter, env)
        if not (isinstance(it, tuple) and it and it[0] == 'range' and len(it) == 2 and isinstance(gen.target, ast.Name)):
            raise HarnessError(f'intpy: only `for x in range(n)` comprehensions are integer loops: {ast.unparse(comp)[:80]}')
        x = self.loop_symbol(gen.target.id)
        n = it[1]
        loop = {'kind': 'range', 'var': x, 'name': gen.target.id, 'n': n, 'guard': self.guard(), 'events': [],
                'line': comp.lineno}
        self.loops.append(loop)
        env2 = dict(env)
        env2[gen.target.id] = x
        self.ctx.append(loop)
        n0 = len(self.pc)
        self.pc.append(z3.And(x >= 0, x < n))
        k0 = len(self.events)
        try:
            v = self.ev(comp.elt, env2)
            # elements that are thunks are run (bounded_gather2 / gather call them)
            if isinstance(v, Closure):
                v = self.invoke(v, [], {}, comp)
        finally:
            del self.pc[n0:]
            self.ctx.pop()
        loop['events'] = self.events[k0:]
        return Opaque('list of per-iteration results')

    def loop_symbol(self, name):
        k = self.fresh_names.get(name, 0)
        self.fresh_names[name] = k + 1
        return z3.Int(name if k == 0 else f'{name}!{k}')

    fresh_names = None
    side = None

    # ---- statements
    def run(self, fn, args):
        self.fresh_names = {}
        self.side = []
        env = dict(args)
        try:
            self.block(fn.body, env)
        except _Return:
            pass
        except _Raise:
            pass
        return env

    def assign(self, target, v, env):
        if isinstance(target, ast.Name):
            env[target.id] = v
        elif isinstance(target, (ast.Tuple, ast.List)):
            if not isinstance(v, tuple) or len(v) != len(target.elts):
                if isinstance(v, Opaque):
                    for t in target.elts:
                        self.assign(t, Opaque('unpacked'), env)
                    return
                raise HarnessError(f'intpy: cannot unpack into {ast.unparse(target)}')
            for t, x in zip(target.elts, v):
                self.assign(t, x, env)
        elif isinstance(target, (ast.Attribute, ast.Subscript)):
            pass    # stores into objects are not integer locals
        else:
            raise HarnessError(f'intpy: assignment target {ast.unparse(target)}')

    def block(self, stmts, env):
        for k, st in enumerate(stmts):
            self.stmt(st, env, stmts[k + 1:])

    def _only_raises(self, body):
        for st in body:
            for n in ast.walk(st):
                if isinstance(n, (ast.Assign, ast.AugAssign, ast.AnnAssign, ast.Return, ast.While, ast.For, ast.With,
                                  ast.AsyncWith)):
                    return False
        return True

    def stmt(self, st, env, rest):
        if isinstance(st, ast.Assign):
            v = self.ev(st.value, env)
            for t in st.targets:
                self.assign(t, v, env)
        elif isinstance(st, ast.AnnAssign):
            if st.value is not None:
                self.assign(st.target, self.ev(st.value, env), env)
        elif isinstance(st, ast.AugAssign):
            cur = self.ev(st.target, env)
            v = self.ev(ast.BinOp(left=st.target, op=st.op, right=st.value), env) if not isinstance(cur, Opaque) else Opaque('aug')
            self.assign(st.target, v, env)
        elif isinstance(st, ast.Expr):
            self.ev(st.value, env)
        elif isinstance(st, ast.Return):
            raise _Return(self.ev(st.value, env) if st.value is not None else Opaque('None'))
        elif isinstance(st, ast.Raise):
            raise _Raise()
        elif isinstance(st, ast.Assert):
            t = self.truth(self.ev(st.test, env))
            if t is not None:
                self.event('assert', [t], {}, st)
        elif isinstance(st, (ast.Pass, ast.Nonlocal, ast.Import, ast.ImportFrom)):
            pass
        elif isinstance(st, (ast.FunctionDef, ast.AsyncFunctionDef)):
            env[st.name] = Closure(st, env)
        elif isinstance(st, ast.If):
            self.if_(st, env)
        elif isinstance(st, (ast.With, ast.AsyncWith)):
            for item in st.items:
                v = self.ev(item.context_expr, env)
                if item.optional_vars is not None:
                    self.assign(item.optional_vars, v, env)
            self.block(st.body, env)
        elif isinstance(st, ast.Try):
            # handlers are alternative continuations: run them on a copy, keep their events flagged
            for h in st.handlers:
                henv = dict(env)
                if h.name:
                    henv[h.name] = Opaque('exception')
                self.in_handler += 1
                try:
                    self.block(h.body, henv)
                except (_Return, _Raise):
                    pass
                finally:
                    self.in_handler -= 1
            try:
                self.block(st.body, env)
                self.block(st.orelse, env)
            finally:
                saved = len(self.events)
                try:
                    self.block(st.finalbody, env)
                except (_Return, _Raise):
                    del self.events[saved:]
        elif isinstance(st, ast.While):
            self.while_(st, env)
        elif isinstance(st, (ast.For, ast.AsyncFor)):
            self.for_(st, env)
        else:
            raise HarnessError(f'intpy: statement {type(st).__name__} is not supported: {ast.unparse(st)[:80]}')

    def if_(self, st, env):
        tv = self.ev(st.test, env)
        t = self.truth(tv)
        if t is None:
            if self._only_raises(st.body) and self._only_raises(st.orelse):
                return
            raise HarnessError(f'intpy: branch on a non-integer condition changes integer state: {ast.unparse(st.test)}')
        outcomes = []
        for cond, body in ((t, st.body), (z3.Not(t), st.orelse)):
            e2 = dict(env)
            n0 = len(self.pc)
            self.pc.append(cond)
            k0 = len(self.events)
            try:
                self.block(body, e2)
                outcomes.append((cond, e2, None))
            except _Return as r:
                self.exits.append({'kind': 'return', 'guard': self.guard(), 'events': self.events[k0:], 'value': r.value})
                outcomes.append((cond, None, 'exit'))
            except _Raise:
                self.exits.append({'kind': 'raise', 'guard': self.guard(), 'events': self.events[k0:]})
                outcomes.append((cond, None, 'exit'))
            finally:
                del self.pc[n0:]
        live = [(c, e) for c, e, x in outcomes if x is None]
        if not live:
            raise _Raise()
        if len(live) == 1:
            c, e = live[0]
            env.clear()
            env.update(e)
            if any(x == 'exit' for _, _, x in outcomes):
                self.pc.append(c)     # the rest of the function runs only when this side was taken
            return
        (c1, e1), (c2, e2) = live
        for k in set(e1) | set(e2):
            a, b = e1.get(k), e2.get(k)
            if a is b:
                env[k] = a
            elif (is_int(a) and is_int(b)) or (is_bool(a) and is_bool(b)):
                env[k] = z3.If(c1, a, b)
            elif a is None or b is None:
                env[k] = Opaque('defined on one branch')
            elif isinstance(a, (Opaque, Closure)) and isinstance(b, (Opaque, Closure)):
                env[k] = a
            else:
                raise HarnessError(f'intpy: variable {k} is an integer on one branch only')

    def _assigned(self, body):
        names = []
        for st in body:
            for n in ast.walk(st):
                if isinstance(n, (ast.Assign, ast.AugAssign, ast.AnnAssign)):
                    tg = n.targets if isinstance(n, ast.Assign) else [n.target]
                    for t in tg:
                        for x in ast.walk(t):
                            if isinstance(x, ast.Name) and x.id not in names:
                                names.append(x.id)
        return names

    def while_(self, st, env):
        if st.orelse:
            raise HarnessError('intpy: while/else')
        carried = [n for n in self._assigned(st.body) if n in env and is_int(env[n])]
        state = {n: self.loop_symbol(n) for n in carried}
        init = {n: env[n] for n in carried}
        e2 = dict(env)
        e2.update(state)
        g = self.truth(self.ev(st.test, e2))
        if g is None:
            raise HarnessError(f'intpy: while on a non-integer condition: {ast.unparse(st.test)}')
        loop = {'kind': 'while', 'state': state, 'init': init, 'guard_term': g, 'guard': self.guard(), 'line': st.lineno}
        self.loops.append(loop)
        self.ctx.append(loop)
        n0 = len(self.pc)
        self.pc.append(g)
        k0 = len(self.events)
        try:
            self.block(st.body, e2)
        except (_Return, _Raise):
            raise HarnessError('intpy: loop body leaves the loop on an integer condition')
        finally:
            del self.pc[n0:]
            self.ctx.pop()
        loop['events'] = self.events[k0:]
        loop['next'] = {n: e2[n] for n in carried}
        for n in carried:
            env[n] = self.loop_symbol(n + '_after')
        for n in self._assigned(st.body):
            if n not in carried:
                env[n] = e2.get(n, Opaque(n))

    def stepped_for(self, st, env, it):
        """`for x in range(a, b[, step])` with integer terms: represented like a while loop whose single state variable is
        x (init a, guard x < b with step >= 1, next x + step), so that consumers reason about it by induction over x."""
        a, b = it[1], it[2]
        step = it[3] if len(it) == 4 else 1
        if st.orelse:
            raise HarnessError('intpy: for/else')
        carried = [n for n in self._assigned(st.body) if n in env and is_int(env[n]) and n != st.target.id]
        if carried:
            raise HarnessError(f'intpy: stepped range loop with loop-carried integers {carried}')
        name = st.target.id
        x = self.loop_symbol(name)
        g = z3.And(step >= 1, x < b) if not isinstance(step, int) else (x < b if step >= 1 else None)
        if g is None:
            raise HarnessError(f'intpy: range() with a non-positive constant step: {ast.unparse(st.iter)}')
        loop = {'kind': 'while', 'state': {name: x}, 'init': {name: a if not isinstance(a, int) else z3.IntVal(a)},
                'guard_term': g, 'guard': self.guard(), 'line': st.lineno}
        self.loops.append(loop)
        e2 = dict(env)
        e2[name] = x
        self.ctx.append(loop)
        n0 = len(self.pc)
        self.pc.append(g)
        k0 = len(self.events)
        try:
            self.block(st.body, e2)
        except (_Return, _Raise):
            raise HarnessError('intpy: loop body leaves the loop on an integer condition')
        finally:
            del self.pc[n0:]
            self.ctx.pop()
        loop['events'] = self.events[k0:]
        loop['next'] = {name: x + step}
        for n in self._assigned(st.body):
            env[n] = e2.get(n, Opaque(n)) if not is_int(e2.get(n)) else Opaque(n)
        env[name] = Opaque(name)

    def for_(self, st, env):
        it = self.ev(st.iter, env)
        if (isinstance(it, tuple) and it and it[0] == 'range' and len(it) in (3, 4) and isinstance(st.target, ast.Name)
                and all(is_int(t) or isinstance(t, int) for t in it[1:])):
            return self.stepped_for(st, env, it)
        if not (isinstance(it, tuple) and it and it[0] == 'range' and len(it) == 2 and isinstance(st.target, ast.Name)):
            if self._only_raises(st.body):
                return
            raise HarnessError(f'intpy: only `for x in range(n)` is an integer loop: {ast.unparse(st.iter)}')
        carried = [n for n in self._assigned(st.body) if n in env and is_int(env[n])]
        if carried:
            raise HarnessError(f'intpy: range loop with loop-carried integers {carried}')
        x = self.loop_symbol(st.target.id)
        loop = {'kind': 'range', 'var': x, 'name': st.target.id, 'n': it[1], 'guard': self.guard(), 'line': st.lineno}
        self.loops.append(loop)
        e2 = dict(env)
        e2[st.target.id] = x
        self.ctx.append(loop)
        n0 = len(self.pc)
        self.pc.append(z3.And(x >= 0, x < it[1]))
        k0 = len(self.events)
        try:
            self.block(st.body, e2)
        finally:
            del self.pc[n0:]
            self.ctx.pop()
        loop['events'] = self.events[k0:]
