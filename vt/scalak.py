"""E3 twin of pyk for the tiny Scala subset used by is/hail/variant/Call.scala and Genotype.scala.

There is no Scala compiler in the sandbox: the `.scala` files are tokenised and the `def`s that a check
needs are parsed (lazily) into a small AST, which is evaluated over z3 terms with JVM semantics:
Int = (_ BitVec 32) with wrap-around, `/` `%` truncating, `<<`/`>>`/`>>>` with the count masked to 5 bits,
Double = Float64 RNE, Int.toDouble exact, Double.toInt saturating truncation (NaN -> 0), Math.sqrt =
fp.sqrt RNE (java.lang.Math.sqrt is correctly rounded), Boolean.toInt = 1/0 (is.hail RichBoolean),
`assert`/`require`/`fatal`/`throw` end the path with an error.  Branching and path bookkeeping are
borrowed from a pyk.Interp (`explore`, `branch`).  Evaluating a def on constant arguments is the
"model-level replay" of a Scala counterexample (labelled as such by the checks).

Supported: objects with defs (default and named arguments, overloading by arity), vals (incl.
Array(...) literals and `.map(Obj.f)`), val/var/assignment/op-assignment, if/else (statement and
expression), blocks, Int/Boolean/Double operators, `.toDouble .toInt .length`, array indexing.
Anything else raises HarnessError when (and only when) a def that uses it is evaluated.
"""
import re

import z3

from . import pyk
from .common import HarnessError
from .pyk import SBool, SFloat, SInt, PyRaise

I32 = z3.BitVecSort(32)
F64 = pyk.F64
RNE = pyk.RNE

_TOKEN = re.compile(r'''
    (?P<ws>[ \t\r]+)
  | (?P<nl>\n)
  | (?P<comment>//[^\n]*|/\*.*?\*/)
  | (?P<float>\d+\.\d+(?:[eE][-+]?\d+)?[dD]?|\d+[dD])
  | (?P<hex>0[xX][0-9a-fA-F]+[lL]?)
  | (?P<int>\d+[lL]?)
  | (?P<char>'(?:\\.|[^'\\])')
  | (?P<ident>[A-Za-z_][A-Za-z_0-9]*|`[^`]+`)
  | (?P<op>>>>=|<<=|>>=|>>>|=>|<-|<<|>>|<=|>=|==|!=|&&|\|\||\+=|-=|\*=|/=|%=|\|=|&=|\^=|[-+*/%<>=!&|^~:.,;(){}\[\]@#?_])
''', re.X | re.S)


class Tok:
    __slots__ = ('kind', 'text', 'nl', 'line')

    def __init__(self, kind, text, nl, line):
        self.kind, self.text, self.nl, self.line = kind, text, nl, line

    def __repr__(self):
        return f'{self.kind}:{self.text}'


def tokenize(src):
    toks = []
    i, n, line = 0, len(src), 1
    nl = False
    while i < n:
        c = src[i]
        # string literals (plain, interpolated, triple-quoted)
        m = re.match(r'[a-z]?"""', src[i:i + 4]) if c in 'sf"r' else None
        if m and src[i:].startswith(m.group(0)):
            j = src.index('"""', i + len(m.group(0)))
            toks.append(Tok('str', src[i:j + 3], nl, line))
            line += src[i:j + 3].count('\n')
            i = j + 3
            nl = False
            continue
        if c == '"' or (c in 'sf' and i + 1 < n and src[i + 1] == '"' and (i == 0 or not (src[i - 1].isalnum() or src[i - 1] == '_'))):
            j = i + (1 if c == '"' else 2)
            interp = c != '"'
            depth = 0
            while j < n:
                ch = src[j]
                if ch == '\\' and depth == 0:
                    j += 2
                    continue
                if interp and ch == '$' and j + 1 < n and src[j + 1] == '{':
                    depth += 1
                    j += 2
                    continue
                if depth and ch == '{':
                    depth += 1
                elif depth and ch == '}':
                    depth -= 1
                elif ch == '"' and depth == 0:
                    break
                j += 1
            toks.append(Tok('str', src[i:j + 1], nl, line))
            i = j + 1
            nl = False
            continue
        m = _TOKEN.match(src, i)
        if not m:
            raise HarnessError(f'scalak: cannot tokenise at line {line}: {src[i:i + 30]!r}')
        kind = m.lastgroup
        text = m.group(0)
        i = m.end()
        if kind == 'nl':
            line += 1
            nl = True
            continue
        if kind in ('ws',):
            continue
        if kind == 'comment':
            line += text.count('\n')
            continue
        toks.append(Tok(kind, text, nl, line))
        nl = False
    return toks


# ---- program structure: objects, defs, vals --------------------------------------------------------
class Def:
    def __init__(self, obj, name, params, body_toks, line, src):
        self.obj, self.name, self.params, self.body_toks, self.line, self.src = obj, name, params, body_toks, line, src
        self.ast = None


class Program:
    MEMBER_START = {'def', 'val', 'var', 'lazy', 'private', 'protected', 'override', 'type', 'object', 'class', 'import',
                    'final', 'implicit', 'case', 'trait', 'sealed', 'abstract'}

    def __init__(self):
        self.objects = {}     # name -> {'defs': {name: [Def]}, 'vals': {name: Def}}
        self.val_cache = {}
        self.files = {}

    def load(self, path, text):
        self.files[path] = text
        toks = tokenize(text)
        lines = text.split('\n')
        i = 0
        while i < len(toks):
            if toks[i].text == 'object' and toks[i].kind == 'ident' and i + 1 < len(toks):
                name = toks[i + 1].text
                j = i + 2
                while j < len(toks) and toks[j].text != '{':
                    j += 1
                end = self._match(toks, j)
                self._members(name, toks[j + 1:end], path, lines)
                i = end + 1
            else:
                i += 1

    @staticmethod
    def _match(toks, j):
        depth = 0
        pairs = {'{': '}', '(': ')', '[': ']'}
        assert toks[j].text in pairs
        k = j
        while k < len(toks):
            t = toks[k].text
            if toks[k].kind == 'op' and t in '{([':
                depth += 1
            elif toks[k].kind == 'op' and t in '})]':
                depth -= 1
                if depth == 0:
                    return k
            k += 1
        raise HarnessError('scalak: unbalanced brackets')

    def _members(self, oname, toks, path, lines):
        obj = self.objects.setdefault(oname, {'defs': {}, 'vals': {}})
        i = 0
        depth = 0
        starts = []
        for k, t in enumerate(toks):
            if t.kind == 'op' and t.text in '{([':
                depth += 1
            elif t.kind == 'op' and t.text in '})]':
                depth -= 1
            elif depth == 0 and t.kind == 'ident' and t.text in self.MEMBER_START and (t.nl or k == 0):
                starts.append(k)
            elif depth == 0 and t.kind == 'op' and t.text == '@' and t.nl:
                starts.append(k)
        starts.append(len(toks))
        for a, b in zip(starts, starts[1:]):
            seg = toks[a:b]
            k = 0
            while k < len(seg) and seg[k].text in ('private', 'protected', 'override', 'final', 'lazy', 'implicit'):
                k += 1
                if k < len(seg) and seg[k].text == '[':
                    k = self._match(seg, k) + 1
            if k >= len(seg):
                continue
            kw = seg[k].text
            if kw == 'def':
                name = seg[k + 1].text
                k += 2
                if k < len(seg) and seg[k].text == '[':
                    k = self._match(seg, k) + 1
                params = []
                if k < len(seg) and seg[k].text == '(':
                    e = self._match(seg, k)
                    params = self._params(seg[k + 1:e])
                    k = e + 1
                # skip result type up to '='
                depth2 = 0
                while k < len(seg):
                    t = seg[k]
                    if t.kind == 'op' and t.text in '([{':
                        depth2 += 1
                    elif t.kind == 'op' and t.text in ')]}':
                        depth2 -= 1
                    elif depth2 == 0 and t.kind == 'op' and t.text == '=':
                        break
                    k += 1
                if k >= len(seg):
                    continue
                body = seg[k + 1:]
                src = '\n'.join(lines[seg[0].line - 1:(seg[-1].line)])
                obj['defs'].setdefault(name, []).append(Def(oname, name, params, body, seg[0].line, src))
            elif kw in ('val', 'var'):
                name = seg[k + 1].text
                k += 2
                while k < len(seg) and not (seg[k].kind == 'op' and seg[k].text == '='):
                    k += 1
                if k >= len(seg):
                    continue
                src = '\n'.join(lines[seg[0].line - 1:(seg[-1].line)])
                obj['vals'][name] = Def(oname, name, [], seg[k + 1:], seg[0].line, src)

    def _params(self, toks):
        """[(name, type text, default tokens or None)]"""
        out = []
        depth = 0
        cur = []
        parts = []
        for t in toks:
            if t.kind == 'op' and t.text in '([{':
                depth += 1
            elif t.kind == 'op' and t.text in ')]}':
                depth -= 1
            if depth == 0 and t.kind == 'op' and t.text == ',':
                parts.append(cur)
                cur = []
            else:
                cur.append(t)
        if cur:
            parts.append(cur)
        for p in parts:
            name = p[0].text
            default = None
            typ = []
            k = 1
            if k < len(p) and p[k].text == ':':
                k += 1
                while k < len(p) and not (p[k].kind == 'op' and p[k].text == '='):
                    typ.append(p[k].text)
                    k += 1
            if k < len(p) and p[k].text == '=':
                default = p[k + 1:]
            out.append((name, ''.join(typ), default))
        return out

    def find_def(self, oname, name, nargs, kwnames=()):
        o = self.objects.get(oname)
        if not o or name not in o['defs']:
            return None
        cands = []
        for d in o['defs'][name]:
            pn = [p[0] for p in d.params]
            required = sum(1 for p in d.params if p[2] is None)
            if nargs + len(kwnames) <= len(pn) and all(k in pn for k in kwnames) and nargs + len(kwnames) >= required - 0:
                # every required parameter must be supplied positionally or by name
                supplied = set(pn[:nargs]) | set(kwnames)
                if all((p[0] in supplied) or p[2] is not None for p in d.params):
                    cands.append(d)
        if len(cands) != 1:
            if not cands:
                return None
            raise HarnessError(f'scalak: ambiguous overload {oname}.{name}/{nargs}')
        return cands[0]


# ---- expression / statement parser ---------------------------------------------------------------------
PREC = [('|', '||'), ('^',), ('&', '&&'), ('==', '!='), ('<', '>', '<=', '>=', '<<', '>>', '>>>'), ('+', '-'), ('*', '/', '%')]
ASSIGN_OPS = {'=', '+=', '-=', '*=', '/=', '%=', '|=', '&=', '^=', '<<=', '>>=', '>>>='}


class Parser:
    def __init__(self, toks):
        self.t = toks
        self.i = 0

    def peek(self, k=0):
        return self.t[self.i + k] if self.i + k < len(self.t) else None

    def at(self, text):
        p = self.peek()
        return p is not None and p.text == text and p.kind in ('op', 'ident')

    def eat(self, text):
        p = self.peek()
        if p is None or p.text != text:
            raise HarnessError(f'scalak: expected {text!r} at line {p.line if p else "EOF"}, found {p.text if p else "EOF"!r}')
        self.i += 1
        return p

    def parse_body(self):
        e = self.stmt()
        if self.peek() is not None:
            raise HarnessError(f'scalak: trailing tokens at line {self.peek().line}: {self.peek().text!r}')
        return e

    def block(self):
        self.eat('{')
        stmts = []
        while not self.at('}'):
            if self.at(';'):
                self.i += 1
                continue
            stmts.append(self.stmt())
        self.eat('}')
        return ('block', stmts)

    def stmt(self):
        p = self.peek()
        if p.kind == 'ident' and p.text in ('val', 'var'):
            self.i += 1
            name = self.peek().text
            self.i += 1
            if self.at(':'):
                self.i += 1
                self.skip_type()
            self.eat('=')
            return ('val', name, self.expr())
        if p.kind == 'ident' and p.text == 'def':
            raise HarnessError(f'scalak: nested def at line {p.line} is outside the subset')
        if p.kind == 'ident' and self.peek(1) is not None and self.peek(1).kind == 'op' and self.peek(1).text in ASSIGN_OPS \
                and p.text not in ('if', 'new', 'throw'):
            name = p.text
            op = self.peek(1).text
            self.i += 2
            return ('assign', name, op, self.expr())
        return self.expr()

    def skip_type(self):
        depth = 0
        while self.peek() is not None:
            p = self.peek()
            if p.kind == 'op' and p.text == '[':
                depth += 1
            elif p.kind == 'op' and p.text == ']':
                depth -= 1
            elif depth == 0 and not (p.kind == 'ident' or (p.kind == 'op' and p.text == '.')):
                break
            elif depth == 0 and p.kind == 'ident' and self.i > 0 and self.t[self.i - 1].kind == 'ident':
                break
            self.i += 1

    def expr(self, level=0):
        if level == len(PREC):
            return self.unary()
        left = self.expr(level + 1)
        while True:
            p = self.peek()
            if p is None or p.kind != 'op' or p.text not in PREC[level] or p.nl:
                return left
            self.i += 1
            right = self.expr(level + 1)
            left = ('bin', p.text, left, right)

    def unary(self):
        p = self.peek()
        if p is not None and p.kind == 'op' and p.text in ('!', '-', '~', '+'):
            self.i += 1
            return ('un', p.text, self.unary())
        return self.postfix()

    def postfix(self):
        e = self.primary()
        while True:
            p = self.peek()
            if p is None:
                return e
            if p.kind == 'op' and p.text == '.':
                self.i += 1
                name = self.peek().text
                self.i += 1
                e = ('sel', e, name)
            elif p.kind == 'op' and p.text == '(' and not p.nl:
                e = ('call', e, *self.args())
            elif p.kind == 'op' and p.text == '[' and not p.nl:
                end = Program._match(self.t, self.i)
                self.i = end + 1
            elif p.kind == 'op' and p.text == ':' and self.peek(1) is not None and self.peek(1).text == '@':
                raise HarnessError(f'scalak: annotation ascription at line {p.line} is outside the subset')
            elif p.kind == 'ident' and p.text == 'match':
                raise HarnessError(f'scalak: match at line {p.line} is outside the subset')
            else:
                return e

    def args(self):
        self.eat('(')
        pos, kw = [], {}
        while not self.at(')'):
            p = self.peek()
            if p.kind == 'ident' and self.peek(1) is not None and self.peek(1).kind == 'op' and self.peek(1).text == '=':
                self.i += 2
                kw[p.text] = self.expr()
            else:
                pos.append(self.expr())
            if self.at(','):
                self.i += 1
        self.eat(')')
        return pos, kw

    def primary(self):
        p = self.peek()
        if p is None:
            raise HarnessError('scalak: unexpected end of body')
        if p.kind == 'int':
            self.i += 1
            if p.text[-1] in 'lL':
                raise HarnessError('scalak: Long literal')
            return ('int', int(p.text))
        if p.kind == 'hex':
            self.i += 1
            return ('int', int(p.text, 16))
        if p.kind == 'float':
            self.i += 1
            return ('double', float(p.text.rstrip('dD')))
        if p.kind == 'str':
            self.i += 1
            return ('str', p.text)
        if p.kind == 'char':
            self.i += 1
            return ('int', ord(eval(p.text)))
        if p.kind == 'op' and p.text == '(':
            self.i += 1
            e = self.expr()
            if self.at(':'):
                raise HarnessError(f'scalak: type ascription at line {p.line} is outside the subset')
            self.eat(')')
            return e
        if p.kind == 'op' and p.text == '{':
            return self.block()
        if p.kind == 'ident':
            if p.text == 'if':
                self.i += 1
                self.eat('(')
                c = self.expr()
                self.eat(')')
                a = self.stmt()
                b = None
                if self.at(';') and self.peek(1) is not None and self.peek(1).text == 'else':
                    self.i += 1
                if self.at('else'):
                    self.i += 1
                    b = self.stmt()
                return ('if', c, a, b)
            if p.text in ('true', 'false'):
                self.i += 1
                return ('bool', p.text == 'true')
            if p.text == 'throw':
                self.i += 1
                e = self.expr()
                return ('throw', e)
            if p.text == 'new':
                self.i += 1
                name = self.peek().text
                self.i += 1
                while self.at('.'):
                    self.i += 2
                a = ([], {})
                if self.at('('):
                    a = self.args()
                return ('new', name, a)
            self.i += 1
            return ('name', p.text)
        raise HarnessError(f'scalak: unexpected token {p.text!r} at line {p.line}')


# ---- evaluator -----------------------------------------------------------------------------------------
class ScalaError(PyRaise):
    pass


class _Unit:
    def __repr__(self):
        return '()'


UNIT = _Unit()


class Evaluator:
    """Evaluates defs of a Program over z3 terms.  `it` is a pyk.Interp used for branch()/pc/side only."""

    def __init__(self, program, it, on_def=None, max_depth=40):
        self.p = program
        self.it = it
        self.on_def = on_def
        self.depth = 0
        self.max_depth = max_depth

    # values: SInt (BV32), SBool, SFloat, python int/bool/float constants are lifted eagerly
    @staticmethod
    def i32(v):
        if isinstance(v, SInt):
            if v.t.size() != 32:
                raise HarnessError('scalak: Int term is not 32 bits wide')
            return v.t
        if isinstance(v, bool):
            raise HarnessError('scalak: Boolean used as Int')
        if isinstance(v, int):
            return z3.BitVecVal(v, 32)
        raise HarnessError(f'scalak: expected Int, got {type(v).__name__}')

    @staticmethod
    def boo(v):
        if isinstance(v, SBool):
            return v.t
        if isinstance(v, bool):
            return z3.BoolVal(v)
        raise HarnessError(f'scalak: expected Boolean, got {type(v).__name__}')

    def dbl(self, v):
        if isinstance(v, SFloat):
            return v.t
        if isinstance(v, float):
            return z3.FPVal(v, F64)
        if isinstance(v, (SInt, int)) and not isinstance(v, bool):
            return z3.fpSignedToFP(RNE, self.i32(v), F64)   # numeric widening Int -> Double is exact
        raise HarnessError(f'scalak: expected Double, got {type(v).__name__}')

    @staticmethod
    def is_double(v):
        return isinstance(v, (SFloat, float))

    def error(self, kind, msg=''):
        raise ScalaError(kind, msg)

    def call(self, oname, name, args, kwargs=None):
        kwargs = kwargs or {}
        d = self.p.find_def(oname, name, len(args), tuple(kwargs))
        if d is None:
            raise HarnessError(f'scalak: no def {oname}.{name}/{len(args)}')
        if d.ast is None:
            d.ast = Parser(d.body_toks).parse_body()
        if self.on_def:
            self.on_def(d)
        env = {}
        for (pn, pt, dflt), v in zip(d.params, args):
            env[pn] = v
        for pn, pt, dflt in d.params:
            if pn in env:
                continue
            if pn in kwargs:
                env[pn] = kwargs[pn]
            elif dflt is not None:
                env[pn] = self.eval(Parser(dflt).parse_body(), {}, d.obj)
            else:
                raise HarnessError(f'scalak: missing argument {pn} of {oname}.{name}')
        self.depth += 1
        if self.depth > self.max_depth:
            raise HarnessError('scalak: recursion too deep')
        try:
            return self.eval(d.ast, env, d.obj)
        finally:
            self.depth -= 1

    def val(self, oname, name):
        key = (oname, name)
        if key not in self.p.val_cache:
            d = self.p.objects[oname]['vals'][name]
            if d.ast is None:
                d.ast = Parser(d.body_toks).parse_body()
            if self.on_def:
                self.on_def(d)
            self.p.val_cache[key] = self.eval(d.ast, {}, oname)
        return self.p.val_cache[key]

    def eval(self, e, env, obj):
        k = e[0]
        if k == 'int':
            if e[1] > 0x7fffffff:
                raise HarnessError('scalak: Int literal out of range')
            return SInt(z3.BitVecVal(e[1], 32))
        if k == 'double':
            return SFloat(z3.FPVal(e[1], F64))
        if k == 'bool':
            return e[1]
        if k == 'str':
            return e[1]
        if k == 'name':
            n = e[1]
            if n in env:
                return env[n]
            o = self.p.objects.get(obj, {})
            if n in o.get('vals', {}):
                return self.val(obj, n)
            if n in self.p.objects:
                return ('object', n)
            if n in o.get('defs', {}):
                return self.call(obj, n, [])
            if n in ('Math', 'math'):
                return ('object', 'Math')
            raise HarnessError(f'scalak: unknown name {n} in {obj}')
        if k == 'block':
            local = dict(env)
            # assignments to variables of the enclosing scope must be visible there
            res = UNIT
            for s in e[1]:
                res = self.exec(s, local, obj)
            for kk in env:
                env[kk] = local[kk]
            return res
        if k in ('val', 'assign'):
            return self.exec(e, env, obj)
        if k == 'if':
            c = self.boo(self.eval(e[1], env, obj))
            if self.it.branch(c):
                r = self.exec(e[2], env, obj)
                return r if e[3] is not None else UNIT
            if e[3] is not None:
                return self.exec(e[3], env, obj)
            return UNIT
        if k == 'un':
            v = self.eval(e[2], env, obj)
            if e[1] == '!':
                return SBool(z3.Not(self.boo(v)))
            if e[1] == '-':
                if self.is_double(v):
                    return SFloat(z3.fpNeg(self.dbl(v)))
                return SInt(-self.i32(v))
            if e[1] == '~':
                return SInt(~self.i32(v))
            return v
        if k == 'bin':
            return self.binop(e[1], e[2], e[3], env, obj)
        if k == 'throw':
            name = e[1][1] if e[1][0] == 'new' else 'Throwable'
            self.error(name, 'throw')
        if k == 'new':
            return ('new', e[1])
        if k == 'sel':
            base = self.eval(e[1], env, obj)
            name = e[2]
            if isinstance(base, tuple) and base[0] == 'object':
                o = self.p.objects.get(base[1])
                if o and name in o['vals']:
                    return self.val(base[1], name)
                return ('method', base[1], name)
            if name == 'toDouble':
                return SFloat(self.dbl(base))
            if name == 'toInt':
                if isinstance(base, (SBool, bool)):
                    return SInt(z3.If(self.boo(base), z3.BitVecVal(1, 32), z3.BitVecVal(0, 32)))
                if self.is_double(base):
                    x = self.dbl(base)
                    lim = z3.FPVal(2147483648.0, F64)
                    return SInt(z3.If(z3.fpIsNaN(x), z3.BitVecVal(0, 32),
                                      z3.If(z3.fpGEQ(x, lim), z3.BitVecVal(0x7fffffff, 32),
                                            z3.If(z3.fpLEQ(x, z3.fpNeg(lim)), z3.BitVecVal(-2147483648, 32),
                                                  z3.fpToSBV(z3.RTZ(), x, I32)))))
                return SInt(self.i32(base))
            if name == 'length' and isinstance(base, list):
                return SInt(z3.BitVecVal(len(base), 32))
            if isinstance(base, list) and name == 'map':
                return ('arraymap', base)
            raise HarnessError(f'scalak: selection .{name} on {type(base).__name__} is outside the subset')
        if k == 'call':
            f, pos, kw = e[1], e[2], e[3]
            # evaluate callee shape without evaluating a bare def name as a call
            if f[0] == 'name' and f[1] not in env:
                n = f[1]
                o = self.p.objects.get(obj, {})
                if n in ('assert', 'require'):
                    c = self.boo(self.eval(pos[0], env, obj))
                    if not self.it.branch(c):
                        self.error('AssertionError' if n == 'assert' else 'IllegalArgumentException', n)
                    return UNIT
                if n == 'fatal':
                    self.error('HailException', 'fatal')
                if n in o.get('vals', {}):
                    return self.index(self.val(obj, n), self.eval(pos[0], env, obj))
                if n in o.get('defs', {}):
                    return self.call(obj, n, [self.eval(a, env, obj) for a in pos], {a: self.eval(v, env, obj) for a, v in kw.items()})
                if n in self.p.objects:
                    return self.call(n, 'apply', [self.eval(a, env, obj) for a in pos], {a: self.eval(v, env, obj) for a, v in kw.items()})
                if n == 'Array' or n == 'ArraySeq' or n == 'IndexedSeq':
                    return [self.eval(a, env, obj) for a in pos]
                raise HarnessError(f'scalak: unknown function {n}')
            fv = self.eval(f, env, obj)
            args = [self.eval(a, env, obj) for a in pos]
            kwargs = {a: self.eval(v, env, obj) for a, v in kw.items()}
            if isinstance(fv, tuple) and fv[0] == 'method':
                if fv[1] == 'Math' and fv[2] == 'sqrt':
                    return SFloat(z3.fpSqrt(RNE, self.dbl(args[0])))
                return self.call(fv[1], fv[2], args, kwargs)
            if isinstance(fv, tuple) and fv[0] == 'object':
                return self.call(fv[1], 'apply', args, kwargs)
            if isinstance(fv, tuple) and fv[0] == 'arraymap':
                g = args[0] if args else None
                if isinstance(g, tuple) and g[0] == 'method':
                    return [self.call(g[1], g[2], [x]) for x in fv[1]]
                raise HarnessError('scalak: .map with this argument is outside the subset')
            if isinstance(fv, list):
                return self.index(fv, args[0])
            raise HarnessError(f'scalak: cannot call {fv!r}')
        raise HarnessError(f'scalak: node {k} is outside the subset')

    def index(self, arr, iv):
        if not isinstance(arr, list):
            raise HarnessError('scalak: indexing a non-array')
        i = self.i32(iv)
        n = len(arr)
        if not self.it.branch(z3.And(i >= 0, i < n)):
            self.error('ArrayIndexOutOfBoundsException')
        acc = arr[n - 1]
        for j in range(n - 2, -1, -1):
            x = arr[j]
            if isinstance(x, (SInt, int)) and isinstance(acc, (SInt, int)):
                acc = SInt(z3.If(i == j, self.i32(x), self.i32(acc)))
            else:
                raise HarnessError('scalak: symbolic index into a non-Int array')
        return acc if isinstance(acc, SInt) else SInt(self.i32(acc))

    def exec(self, s, env, obj):
        if s[0] == 'val':
            env[s[1]] = self.eval(s[2], env, obj)
            return UNIT
        if s[0] == 'assign':
            name, op, rhs = s[1], s[2], s[3]
            if name not in env:
                raise HarnessError(f'scalak: assignment to unknown variable {name}')
            v = self.eval(rhs, env, obj)
            if op != '=':
                v = self.apply_bin(op[:-1], env[name], v)
            env[name] = v
            return UNIT
        return self.eval(s, env, obj)

    def binop(self, op, le, re_, env, obj):
        a = self.eval(le, env, obj)
        if op in ('&&', '||') and isinstance(a, (SBool, bool)):
            at = self.boo(a)
            sa = z3.simplify(at)
            if op == '&&' and z3.is_false(sa):
                return False
            if op == '||' and z3.is_true(sa):
                return True
            # right operand may have effects (errors): fork instead of merging
            if self.it.branch(at) == (op == '||'):
                return op == '||'
            b = self.eval(re_, env, obj)
            return b
        b = self.eval(re_, env, obj)
        return self.apply_bin(op, a, b)

    def apply_bin(self, op, a, b):
        if isinstance(a, (SBool, bool)) and isinstance(b, (SBool, bool)):
            x, y = self.boo(a), self.boo(b)
            if op in ('|', '||'):
                return SBool(z3.Or(x, y))
            if op in ('&', '&&'):
                return SBool(z3.And(x, y))
            if op == '^' or op == '!=':
                return SBool(z3.Xor(x, y))
            if op == '==':
                return SBool(x == y)
            raise HarnessError(f'scalak: Boolean operator {op}')
        if self.is_double(a) or self.is_double(b):
            x, y = self.dbl(a), self.dbl(b)
            if op == '+':
                return SFloat(z3.fpAdd(RNE, x, y))
            if op == '-':
                return SFloat(z3.fpSub(RNE, x, y))
            if op == '*':
                return SFloat(z3.fpMul(RNE, x, y))
            if op == '/':
                return SFloat(z3.fpDiv(RNE, x, y))
            cmpf = {'<': z3.fpLT, '<=': z3.fpLEQ, '>': z3.fpGT, '>=': z3.fpGEQ, '==': z3.fpEQ, '!=': z3.fpNEQ}.get(op)
            if cmpf:
                return SBool(cmpf(x, y))
            raise HarnessError(f'scalak: Double operator {op}')
        x, y = self.i32(a), self.i32(b)
        if op == '+':
            return SInt(x + y)
        if op == '-':
            return SInt(x - y)
        if op == '*':
            return SInt(x * y)
        if op in ('/', '%'):
            if self.it.branch(y == 0):
                self.error('ArithmeticException', '/ by zero')
            # JVM: truncating division; MIN / -1 wraps to MIN (bvsdiv does the same), MIN % -1 == 0
            return SInt(x / y) if op == '/' else SInt(z3.SRem(x, y))
        m = y & z3.BitVecVal(31, 32)
        if op == '<<':
            return SInt(x << m)
        if op == '>>':
            return SInt(x >> m)
        if op == '>>>':
            return SInt(z3.LShR(x, m))
        if op == '|':
            return SInt(x | y)
        if op == '&':
            return SInt(x & y)
        if op == '^':
            return SInt(x ^ y)
        cmpi = {'<': lambda p, q: p < q, '<=': lambda p, q: p <= q, '>': lambda p, q: p > q, '>=': lambda p, q: p >= q,
                '==': lambda p, q: p == q, '!=': lambda p, q: p != q}.get(op)
        if cmpi:
            return SBool(cmpi(x, y))
        raise HarnessError(f'scalak: Int operator {op}')


def concrete(v):
    """value of a term after evaluation on constants -> Python int/bool/float"""
    if isinstance(v, (bool, int, float)):
        return v
    if isinstance(v, SInt):
        r = z3.simplify(v.t)
        if z3.is_bv_value(r):
            return r.as_signed_long()
    if isinstance(v, SBool):
        r = z3.simplify(v.t)
        if z3.is_true(r):
            return True
        if z3.is_false(r):
            return False
    if isinstance(v, SFloat):
        return pyk.fp_value(v.t)
    raise HarnessError(f'scalak: value did not evaluate to a constant: {v!r}')


def run_concrete(program, oname, name, args, kwargs=None):
    """Model-level replay: evaluate Obj.name on constants.  Returns ('ok', value) or ('error', kind)."""
    it = pyk.Interp(width=32)
    ev = Evaluator(program, it)
    lifted = [SInt(z3.BitVecVal(a, 32)) if isinstance(a, int) and not isinstance(a, bool) else a for a in args]
    kw = {k: (SInt(z3.BitVecVal(a, 32)) if isinstance(a, int) and not isinstance(a, bool) else a) for k, a in (kwargs or {}).items()}
    paths = it.explore(lambda i: ev.call(oname, name, lifted, kw))
    if len(paths) != 1:
        raise HarnessError(f'scalak: concrete evaluation of {oname}.{name} forked')
    p = paths[0]
    if p.kind == 'raise':
        return ('error', p.value[0])
    return ('ok', concrete(p.value))
