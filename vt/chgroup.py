"""E2 helper (owned by the C31-C33 builder): run CrossHair on whole generated modules.

`vt.chrun.run` starts one OS process per condition; importing hail costs ~8 s per process, which dominates
when there are a hundred small conditions.  `run_modules` checks every condition of a generated module in
ONE process (`crosshair check --report_all --per_condition_timeout N <module>`) and maps CrossHair's
per-line messages back to the function whose source span contains the reported line.

Verdicts are those of chrun: 'confirmed' ("Confirmed over all paths"), 'refuted' (message holds the call),
'unknown' (anything else, including a condition CrossHair never reported on).
"""
import ast
import concurrent.futures as cf
import os
import re
import subprocess
import time

from .common import VERIF

PY = os.path.join(VERIF, '.venv', 'bin', 'python')


def _spans(path):
    tree = ast.parse(open(path, encoding='utf-8').read())
    return [(n.name, n.lineno, n.end_lineno) for n in tree.body if isinstance(n, ast.FunctionDef)]


def _one(module, pct, hard_timeout, env_extra):
    env = dict(os.environ)
    env['PYTHONPATH'] = VERIF + os.pathsep + env.get('PYTHONPATH', '')
    env['PYTHONDONTWRITEBYTECODE'] = '1'
    env['PYTHONHASHSEED'] = '0'
    env.update(env_extra or {})
    path = os.path.join(VERIF, *module.split('.')) + '.py'
    spans = _spans(path)
    cmd = [PY, '-m', 'crosshair', 'check', '--report_all', '--per_condition_timeout', str(pct), module]
    t = time.time()
    try:
        p = subprocess.run(cmd, cwd=VERIF, env=env, capture_output=True, text=True, timeout=hard_timeout)
        out = p.stdout + p.stderr
    except subprocess.TimeoutExpired as e:
        so = e.stdout or b''
        out = (so.decode() if isinstance(so, bytes) else so) + '\n[hard timeout]'
    dt = time.time() - t
    res = {name: ('unknown', 'no verdict reported', 0.0) for name, _, _ in spans}
    for line in out.splitlines():
        m = re.match(r'(.*?\.py):(\d+): (info|error): (.*)', line)
        if not m or os.path.abspath(m.group(1)) != os.path.abspath(path):
            continue
        ln = int(m.group(2))
        fn = next((name for name, a, b in spans if a <= ln <= b), None)
        if fn is None:
            continue
        kind, msg = m.group(3), m.group(4).strip()
        if kind == 'error':
            res[fn] = ('refuted', msg, dt)
        elif res[fn][0] != 'refuted':
            if msg.startswith('Confirmed over all paths'):
                res[fn] = ('confirmed', msg, dt)
            else:
                res[fn] = ('unknown', msg, dt)
    tail = out.strip()[-600:]
    return module, {k: (v[0], v[1] if v[0] != 'unknown' or v[1] != 'no verdict reported' else 'no verdict reported: ' + tail, dt)
                    for k, v in res.items()}


def run_modules(modules, per_condition_timeout=60, workers=8, env=None, retry=True):
    """modules: list of importable module names under /verif (e.g. from chrun.gen_module).
    Returns {'module.function': (verdict, message, module_seconds)}."""
    out = {}
    if not modules:
        return out
    sizes = {}
    for m in modules:
        sizes[m] = len(_spans(os.path.join(VERIF, *m.split('.')) + '.py'))
    with cf.ThreadPoolExecutor(max_workers=min(workers, len(modules))) as ex:
        futs = [ex.submit(_one, m, per_condition_timeout, per_condition_timeout * sizes[m] * 1.2 + 120, env) for m in modules]
        for f in cf.as_completed(futs):
            module, res = f.result()
            for fn, v in res.items():
                out[f'{module}.{fn}'] = v
    # a condition that hangs inside one path takes the rest of its module with it: conditions that got no verdict
    # at all are re-run one process each
    missing = [k for k, v in out.items() if v[0] == 'unknown' and v[1].startswith('no verdict reported')]
    if missing and retry:
        from . import chrun
        again = chrun.run(missing, per_condition_timeout=per_condition_timeout, workers=workers, env=env)
        for k, v in again.items():
            out[k] = v
    return out
