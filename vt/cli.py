import argparse
import importlib
import os
import sys
import traceback

from . import common


def main():
    ap = argparse.ArgumentParser()
    ap.add_argument('pid')
    ap.add_argument('--tier', default=os.environ.get('VERIF_TIER') or 'quick', choices=['quick', 'thorough'])
    ap.add_argument('--replay')
    a = ap.parse_args()
    mod = importlib.import_module(f'props.{a.pid}')
    if a.replay:
        sys.exit(mod.replay(a.replay))
    R = common.Run(a.pid, a.tier, getattr(mod, 'LEVEL', 'other'), getattr(mod, 'EXPLANATION', ''))
    try:
        mod.run(R)
    except common.HarnessError as e:
        R.fatal(str(e))
    except Exception as e:  # a crash of the machinery is never a pass
        traceback.print_exc()
        R.fatal(f'harness crashed: {type(e).__name__}: {e}')
    sys.exit(R.finish())


if __name__ == '__main__':
    main()
