"""E4: Python string predicates and `re` patterns as z3 regular languages.

Everything is translated from the *real* objects: patterns through `re._parser.parse`, per-character
predicates by evaluating the real compiled expression over all 0x110000 code points.  Languages are
over z3's Unicode strings (code points 0..0x2FFFF); `high_plane_reduction` checks that every code
point above that has the same class signature as some code point below, so a verdict for z3's
alphabet carries to all of Unicode (the languages here are built from character classes and literal
strings only).
"""
import ast
import re
import re._constants as sc
import re._parser as sp
import time

import z3

from .common import HarnessError

ZMAX = 0x2FFFF
PYMAX = 0x10FFFF


# ---- character sets as sorted disjoint inclusive ranges over 0..PYMAX ---------------------------
def ranges_from_pred(pred):
    out = []
    start = None
    for cp in range(PYMAX + 1):
        if 0xD800 <= cp <= 0xDFFF:
            ok = False  # lone surrogates are not characters a client can send in UTF-8
        else:
            ok = bool(pred(chr(cp)))
        if ok and start is None:
            start = cp
        elif not ok and start is not None:
            out.append((start, cp - 1))
            start = None
    if start is not None:
        out.append((start, PYMAX))
    return out


def rs_norm(rs):
    rs = sorted(rs)
    out = []
    for lo, hi in rs:
        if out and lo <= out[-1][1] + 1:
            out[-1] = (out[-1][0], max(out[-1][1], hi))
        else:
            out.append((lo, hi))
    return out


def rs_neg(rs):
    out = []
    prev = 0
    for lo, hi in rs_norm(rs):
        if lo > prev:
            out.append((prev, lo - 1))
        prev = hi + 1
    if prev <= PYMAX:
        out.append((prev, PYMAX))
    return out


def rs_contains(rs, cp):
    return any(lo <= cp <= hi for lo, hi in rs)


_CAT = {}


def category_ranges(cat):
    """Unicode tables of \\d \\w \\s as the *real* re engine sees them (str patterns, no flags)."""
    if cat not in _CAT:
        pat = {sc.CATEGORY_DIGIT: r'\d', sc.CATEGORY_NOT_DIGIT: r'\D', sc.CATEGORY_WORD: r'\w',
               sc.CATEGORY_NOT_WORD: r'\W', sc.CATEGORY_SPACE: r'\s', sc.CATEGORY_NOT_SPACE: r'\S'}.get(cat)
        if pat is None:
            raise HarnessError(f'regex category {cat} not supported')
        c = re.compile(pat)
        _CAT[cat] = ranges_from_pred(lambda ch: c.fullmatch(ch) is not None)
    return _CAT[cat]


def z3_charset(rs):
    parts = []
    for lo, hi in rs_norm(rs):
        if lo > ZMAX:
            continue
        hi = min(hi, ZMAX)
        if lo == hi:
            parts.append(z3.Re(z3.StringVal(chr(lo))))
        else:
            parts.append(z3.Range(z3.StringVal(chr(lo)), z3.StringVal(chr(hi))))
    if not parts:
        return z3.Empty(z3.ReSort(z3.StringSort()))
    return parts[0] if len(parts) == 1 else z3.Union(*parts)


RE_SORT = z3.ReSort(z3.StringSort())


def re_full():
    return z3.Full(RE_SORT)


def re_eps():
    return z3.Re(z3.StringVal(''))


def re_lit(s):
    return z3.Re(z3.StringVal(s))


def re_concat(parts):
    parts = list(parts)
    if not parts:
        return re_eps()
    return parts[0] if len(parts) == 1 else z3.Concat(*parts)


def re_union(parts):
    parts = list(parts)
    if not parts:
        return z3.Empty(RE_SORT)
    return parts[0] if len(parts) == 1 else z3.Union(*parts)


# ---- Python `re` pattern -> z3 regex -------------------------------------------------------------
class ReTranslator:
    """Translate a parsed pattern.  Tracks every character set used (for the high-plane reduction)."""

    def __init__(self, zset=None):
        self.charsets = []
        self.zset = zset or z3_charset   # hook: alphabet-compressed sets (vt/strlang_ext.Reducer.z3set)

    def _set(self, rs):
        rs = rs_norm(rs)
        self.charsets.append(rs)
        return self.zset(rs)

    def _in_ranges(self, items):
        neg = False
        rs = []
        for op, av in items:
            if op is sc.NEGATE:
                neg = True
            elif op is sc.LITERAL:
                rs.append((av, av))
            elif op is sc.RANGE:
                rs.append((av[0], av[1]))
            elif op is sc.CATEGORY:
                rs.extend(category_ranges(av))
            else:
                raise HarnessError(f'regex class item {op} not supported')
        rs = rs_norm(rs)
        return rs_neg(rs) if neg else rs

    def seq(self, items, flags):
        return re_concat([self.node(op, av, flags) for op, av in items])

    def node(self, op, av, flags):
        if op is sc.LITERAL:
            self.charsets.append([(av, av)])
            return re_lit(chr(av))
        if op is sc.NOT_LITERAL:
            return self._set(rs_neg([(av, av)]))
        if op is sc.ANY:
            if flags & re.DOTALL:
                return self._set([(0, PYMAX)])
            return self._set(rs_neg([(10, 10)]))
        if op is sc.IN:
            return self._set(self._in_ranges(av))
        if op is sc.BRANCH:
            return re_union([self.seq(list(b), flags) for b in av[1]])
        if op is sc.SUBPATTERN:
            group, add, dele, p = av
            if add or dele:
                raise HarnessError('inline regex flags not supported')
            return self.seq(list(p), flags)
        if op in (sc.MAX_REPEAT, sc.MIN_REPEAT):
            lo, hi, p = av
            body = self.seq(list(p), flags)
            if hi is sc.MAXREPEAT:
                if lo == 0:
                    return z3.Star(body)
                if lo == 1:
                    return z3.Plus(body)
                return z3.Concat(z3.Loop(body, lo, lo), z3.Star(body))
            if lo == 0 and hi == 1:
                return z3.Option(body)
            return z3.Loop(body, lo, hi)
        raise HarnessError(f'regex construct {op} not supported by the translator')

    def language(self, pattern, how, flags=0):
        """The set of *whole strings* s for which re.<how>(pattern, s) is truthy."""
        if isinstance(pattern, re.Pattern):
            flags |= pattern.flags & ~re.UNICODE
            pattern = pattern.pattern
        if not isinstance(pattern, str):
            raise HarnessError('bytes patterns not supported')
        if flags & ~(re.DOTALL | re.UNICODE):
            raise HarnessError(f'regex flags {flags} not supported')
        parsed = sp.parse(pattern, flags)
        items = list(parsed)
        return self._lang_items(items, how, flags)

    def _lang_items(self, items, how, flags):
        # top-level alternation: distribute anchors per branch
        if len(items) == 1 and items[0][0] is sc.BRANCH:
            return re_union([self._lang_items(list(b), how, flags) for b in items[0][1][1]])
        begin = False
        end = None
        while items and items[0][0] is sc.AT and items[0][1] in (sc.AT_BEGINNING, sc.AT_BEGINNING_STRING):
            begin = True
            items = items[1:]
        if items and items[-1][0] is sc.AT and items[-1][1] in (sc.AT_END, sc.AT_END_STRING):
            end = items[-1][1]
            items = items[:-1]
        if any(op is sc.AT for op, _ in items):
            # anchors nested deeper are left to node(), which rejects them
            pass
        body = self.seq(items, flags)
        if end is sc.AT_END:       # `$`: at end, or just before a final newline
            tail = z3.Option(re_lit('\n'))
        elif end is sc.AT_END_STRING:  # `\Z`
            tail = re_eps()
        else:
            tail = None
        if how == 'fullmatch':
            # fullmatch requires the match to span the string; `$` before a final "\n" cannot consume it
            return body
        if how == 'match':
            return z3.Concat(body, tail if tail is not None else re_full())
        if how == 'search':
            pre = re_eps() if begin else re_full()
            return z3.Concat(pre, body, tail if tail is not None else re_full())
        raise HarnessError(f're method {how} not supported')


# ---- Python boolean string predicates (AST) -> z3 regex ------------------------------------------
class PredTranslator:
    """Symbolically evaluates a small function `f(s) -> bool` (or one that raises to reject) into the
    regular language of accepted strings.  Supported statements: `if COND: return CONST/raise`,
    `return EXPR`, `NAME = re.compile(LIT)`; atoms: `not s`, `s == LIT`, `s.startswith/endswith(LIT)`,
    `LIT in s`, `all/any(P(c) for c in s)` (P evaluated by the real interpreter over all code points),
    `R.match/fullmatch/search(s)`, `re.match/fullmatch/search(LIT, s)`, `len(s) <op> k`, `s is None`.
    Anything else raises HarnessError (the check then exits 2, never 0)."""

    def __init__(self, fn_node, module_globals, arg=None, zset=None):
        self.fn = fn_node
        self.g = module_globals
        self.arg = arg or fn_node.args.args[0].arg
        self.zset = zset or z3_charset
        self.rt = ReTranslator(self.zset)
        self.env = {}  # local name -> compiled re.Pattern
        self.charsets = self.rt.charsets

    # languages are z3 regexes; boolean expr -> language of s making it truthy
    def truthy(self, e):
        A = self.arg
        if isinstance(e, ast.UnaryOp) and isinstance(e.op, ast.Not):
            return z3.Complement(self.truthy(e.operand))
        if isinstance(e, ast.BoolOp):
            parts = [self.truthy(v) for v in e.values]
            return z3.Union(*parts) if isinstance(e.op, ast.Or) else z3.Intersect(*parts)
        if isinstance(e, ast.Name) and e.id == A:
            return z3.Plus(z3.AllChar(RE_SORT))  # non-empty string is truthy
        if isinstance(e, ast.Constant) and isinstance(e.value, bool):
            return re_full() if e.value else z3.Empty(RE_SORT)
        if isinstance(e, ast.Compare) and len(e.ops) == 1:
            l, op, r = e.left, e.ops[0], e.comparators[0]
            if isinstance(op, (ast.Is, ast.IsNot)) and isinstance(r, ast.Constant) and r.value is None \
                    and isinstance(l, ast.Name) and l.id == A:
                return z3.Empty(RE_SORT) if isinstance(op, ast.Is) else re_full()  # s ranges over str
            if isinstance(op, (ast.In, ast.NotIn)) and isinstance(l, ast.Constant) and isinstance(l.value, str) \
                    and isinstance(r, ast.Name) and r.id == A:
                self._lit(l.value)
                lang = z3.Concat(re_full(), re_lit(l.value), re_full())
                return lang if isinstance(op, ast.In) else z3.Complement(lang)
            if isinstance(op, (ast.Eq, ast.NotEq)) and isinstance(l, ast.Name) and l.id == A \
                    and isinstance(r, ast.Constant) and isinstance(r.value, str):
                self._lit(r.value)
                lang = re_lit(r.value)
                return lang if isinstance(op, ast.Eq) else z3.Complement(lang)
            if isinstance(l, ast.Call) and isinstance(l.func, ast.Name) and l.func.id == 'len' \
                    and isinstance(l.args[0], ast.Name) and l.args[0].id == A and isinstance(r, ast.Constant) \
                    and isinstance(r.value, int):
                k = r.value
                any1 = z3.AllChar(RE_SORT)
                le = lambda n: z3.Loop(any1, 0, n) if n >= 0 else z3.Empty(RE_SORT)
                table = {ast.LtE: le(k), ast.Lt: le(k - 1), ast.Gt: z3.Complement(le(k)),
                         ast.GtE: z3.Complement(le(k - 1)),
                         ast.Eq: z3.Loop(any1, k, k) if k >= 0 else z3.Empty(RE_SORT)}
                if type(op) in table:
                    return table[type(op)]
        if isinstance(e, ast.Call):
            f = e.func
            if isinstance(f, ast.Attribute) and isinstance(f.value, ast.Name) and f.value.id == A \
                    and f.attr in ('startswith', 'endswith') and len(e.args) == 1 \
                    and isinstance(e.args[0], ast.Constant) and isinstance(e.args[0].value, str):
                lit = e.args[0].value
                self._lit(lit)
                if f.attr == 'startswith':
                    return z3.Concat(re_lit(lit), re_full())
                return z3.Concat(re_full(), re_lit(lit))
            if isinstance(f, ast.Name) and f.id in ('all', 'any') and len(e.args) == 1 \
                    and isinstance(e.args[0], ast.GeneratorExp):
                gen = e.args[0]
                if len(gen.generators) == 1 and not gen.generators[0].ifs and \
                        isinstance(gen.generators[0].iter, ast.Name) and gen.generators[0].iter.id == A and \
                        isinstance(gen.generators[0].target, ast.Name):
                    var = gen.generators[0].target.id
                    lam = ast.Expression(ast.Lambda(
                        args=ast.arguments(posonlyargs=[], args=[ast.arg(var)], kwonlyargs=[], kw_defaults=[],
                                           defaults=[]), body=gen.elt))
                    ast.fix_missing_locations(lam)
                    fn = eval(compile(lam, '<charpred>', 'eval'), dict(self.g))
                    rs = ranges_from_pred(fn)
                    self.charsets.append(rs)
                    if f.id == 'all':
                        return z3.Star(self.zset(rs))
                    return z3.Concat(re_full(), self.zset(rs), re_full())
            # regex calls
            if isinstance(f, ast.Attribute) and f.attr in ('match', 'fullmatch', 'search'):
                if isinstance(f.value, ast.Name) and f.value.id == 're' and len(e.args) == 2 \
                        and isinstance(e.args[1], ast.Name) and e.args[1].id == A:
                    pat = self._const_pattern(e.args[0])
                    return self.rt.language(pat, f.attr)
                if len(e.args) == 1 and isinstance(e.args[0], ast.Name) and e.args[0].id == A:
                    pat = self._const_pattern(f.value)
                    return self.rt.language(pat, f.attr)
        raise HarnessError(f'string predicate not in the translatable subset: {ast.unparse(e)}')

    def _lit(self, s):
        self.charsets.extend([[(ord(c), ord(c))] for c in s])

    def _const_pattern(self, node):
        if isinstance(node, ast.Constant) and isinstance(node.value, str):
            return node.value
        if isinstance(node, ast.Name):
            if node.id in self.env:
                return self.env[node.id]
            v = self.g.get(node.id)
            if isinstance(v, re.Pattern):
                return v
        if isinstance(node, ast.Call) and isinstance(node.func, ast.Attribute) and node.func.attr == 'compile' \
                and isinstance(node.func.value, ast.Name) and node.func.value.id == 're' \
                and isinstance(node.args[0], ast.Constant):
            fl = 0
            if len(node.args) > 1 or node.keywords:
                raise HarnessError('re.compile with flags not supported')
            return re.compile(node.args[0].value, fl)
        raise HarnessError(f'cannot resolve regex object {ast.unparse(node)}')

    def accepted(self, reject_by_raise=False):
        """Language of strings for which the function returns truthy (or, with reject_by_raise, returns
        without raising)."""
        return self._block(self.fn.body, reject_by_raise)

    def _block(self, stmts, rbr):
        # returns language accepted by executing stmts (falls off the end: accepted iff rbr)
        if not stmts:
            return re_full() if rbr else z3.Empty(RE_SORT)
        st, rest = stmts[0], stmts[1:]
        if isinstance(st, ast.Expr) and isinstance(st.value, ast.Constant):
            return self._block(rest, rbr)  # docstring
        if isinstance(st, ast.Assign) and len(st.targets) == 1 and isinstance(st.targets[0], ast.Name):
            self.env[st.targets[0].id] = self._const_pattern(st.value)
            return self._block(rest, rbr)
        if isinstance(st, ast.Return):
            if rbr:
                return re_full()
            if st.value is None:
                return z3.Empty(RE_SORT)
            return self.truthy(st.value)
        if isinstance(st, ast.Raise):
            return z3.Empty(RE_SORT)
        if isinstance(st, ast.If):
            c = self.truthy(st.test)
            then = self._block(st.body + rest, rbr)
            els = self._block(st.orelse + rest, rbr)
            return z3.Union(z3.Intersect(c, then), z3.Intersect(z3.Complement(c), els))
        raise HarnessError(f'statement not in the translatable subset: {ast.unparse(st)}')


# ---- solver queries -----------------------------------------------------------------------------
def model_string(model, svar):
    v = model.eval(svar, model_completion=True)
    n = z3.simplify(z3.Length(v)).as_long()
    out = []
    for i in range(n):
        c = z3.simplify(z3.StrToCode(z3.SubString(v, i, 1)))
        out.append(chr(c.as_long()))
    return ''.join(out)


def member(lang, extra=None, timeout_ms=60000, exclude=()):
    """Returns ('sat', witness) | ('unsat', None) | ('unknown', None) and seconds."""
    s = z3.String('s')
    sol = z3.Solver()
    sol.set('timeout', timeout_ms)
    sol.add(z3.InRe(s, lang))
    for x in exclude:
        sol.add(s != z3.StringVal(x))
    if extra is not None:
        sol.add(extra(s))
    t = time.time()
    r = str(sol.check())
    dt = time.time() - t
    if r == 'sat':
        return 'sat', model_string(sol.model(), s), dt
    return r, None, dt


def difference(a, b):
    return z3.Intersect(a, z3.Complement(b))


def members(lang, n, timeout_ms=20000, min_len_step=True):
    """Up to n distinct members (used for translator validation).  Asks for growing lengths so the
    points are not all the shortest string."""
    out = []
    s = z3.String('s')
    for want_len in list(range(0, n)):
        sol = z3.Solver()
        sol.set('timeout', timeout_ms)
        sol.add(z3.InRe(s, lang))
        sol.add(z3.Length(s) >= want_len)
        for x in out:
            sol.add(s != z3.StringVal(x))
        if str(sol.check()) != 'sat':
            break
        out.append(model_string(sol.model(), s))
    return out


def high_plane_reduction(charsets):
    """Every code point above z3's alphabet must share its membership signature (over all character
    sets used) with some code point inside it.  Returns (ok, detail)."""
    sets = [rs_norm(c) for c in charsets]
    # boundaries partition the code space into intervals of constant signature
    cuts = {0, PYMAX + 1, ZMAX + 1}
    for rs in sets:
        for lo, hi in rs:
            cuts.add(lo)
            cuts.add(hi + 1)
    cuts = sorted(cuts)
    low_sigs = set()
    high = []
    for a, b in zip(cuts, cuts[1:]):
        sig = tuple(rs_contains(rs, a) for rs in sets)
        if a <= ZMAX:
            low_sigs.add(sig)
        else:
            high.append((a, sig))
    bad = [(a, sig) for a, sig in high if sig not in low_sigs]
    return (not bad), {'intervals': len(cuts) - 1, 'high_intervals': len(high), 'unmatched': bad[:3]}


def load_function(path, name):
    """(FunctionDef node, source text, module globals dict obtained by exec of the module's imports is
    NOT done here) -> returns node and its source segment."""
    text = open(path, encoding='utf-8').read()
    tree = ast.parse(text)
    for n in ast.walk(tree):
        if isinstance(n, (ast.FunctionDef, ast.AsyncFunctionDef)) and n.name == name:
            return n, ast.get_source_segment(text, n), tree
    raise HarnessError(f'function {name} not found in {path}')
