"""Run bookkeeping shared by every check: obligations, evidence, known findings, exit protocol.

Exit codes: 0 held / known findings only; 1 VIOLATION (reproduced on the real code and not listed);
2 INCONCLUSIVE as a *harness error* (source not translatable, counterexample that does not replay,
translator disagrees with the real function).  Obligations that merely time out are recorded as
not discharged and do not change the exit code.
"""
import hashlib
import json
import os
import sys
import time

VERIF = os.path.dirname(os.path.dirname(os.path.abspath(__file__)))
REPO = os.environ.get('VERIF_REPO', '/repo')
KNOWN_FILE = os.path.join(VERIF, 'KNOWN_FINDINGS.jsonl')


def load_known(pid):
    out = {}
    if os.path.exists(KNOWN_FILE):
        for line in open(KNOWN_FILE, encoding='utf-8'):
            line = line.strip()
            if not line or line.startswith('#') or line.startswith('fixed:'):
                continue
            e = json.loads(line)
            if e.get('property') == pid:
                out[e['class']] = e
    return out


def sha(text):
    return hashlib.sha256(text.encode('utf-8', 'surrogatepass')).hexdigest()[:16]


class HarnessError(Exception):
    pass


class Run:
    def __init__(self, pid, tier, level='other', explanation=''):
        self.pid = pid
        self.tier = tier
        self.level = level
        self.explanation = explanation
        self.seed = int(os.environ.get('VERIF_SEED', '0') or 0)
        self.t0 = time.time()
        self.obligs = []          # dicts: name,status,secs,detail
        self.encoded = []         # function refs
        self.assumptions = []
        self.samples = []
        self.bounds = {}
        self.witnesses = 0        # reachability twins that came back sat
        self.validation_points = 0
        self.solver_s = 0.0
        self.violations = []
        self.known_hit = []
        self.inconclusive_fatal = []
        self.known = load_known(pid)
        self.extra = {}
        self.states = 0
        self.transitions = 0
        self.traces_validated = 0

    # ---- recording -------------------------------------------------------------------------
    def encode(self, ref, text=None):
        e = {'ref': ref}
        if text is not None:
            e['sha'] = sha(text)
        if e not in self.encoded:
            self.encoded.append(e)

    def assume(self, *texts):
        for t in texts:
            if t not in self.assumptions:
                self.assumptions.append(t)

    def sample(self, s, cap=12):
        if len(self.samples) < cap:
            self.samples.append(s)

    def ob(self, name, status, secs=0.0, detail=None, nontrivial=None):
        """status: 'discharged' | 'not_discharged' | 'violated' | 'known'.
        nontrivial: True when the obligation's reachability twin was satisfiable."""
        assert status in ('discharged', 'not_discharged', 'violated', 'known'), status
        self.obligs.append({'name': name, 'status': status, 'secs': round(secs, 3), 'detail': detail,
                            'nontrivial': nontrivial})
        self.solver_s += secs
        if nontrivial:
            self.witnesses += 1

    def log(self, *a):
        print(*a, flush=True)

    # ---- findings --------------------------------------------------------------------------
    def finding(self, cls, what, replay):
        """A counterexample that was reproduced on the real code.  `cls` names the finding class; if
        KNOWN_FINDINGS.jsonl lists that class for this property it is a known finding."""
        if cls in self.known:
            if cls not in [k[0] for k in self.known_hit]:
                self.known_hit.append((cls, what))
                print(f'KNOWN-FINDING: property={self.pid} {cls}: {what}', flush=True)
            return 'known'
        os.makedirs(os.path.join(VERIF, 'replays'), exist_ok=True)
        body = json.dumps({'property': self.pid, 'class': cls, 'what': what, 'replay': replay}, indent=1, default=str)
        path = os.path.join(VERIF, 'replays', f'{self.pid}-{sha(body)}.json')
        with open(path, 'w') as f:
            f.write(body)
        self.violations.append((cls, what, path))
        print(f'VIOLATION property={self.pid} replay={path}', flush=True)
        print(f'  class={cls} {what}', flush=True)
        return 'violated'

    def fatal(self, reason):
        self.inconclusive_fatal.append(reason)
        print(f'INCONCLUSIVE property={self.pid} reason={reason}', flush=True)

    # ---- finish ----------------------------------------------------------------------------
    def finish(self):
        n = len(self.obligs)
        disc = sum(1 for o in self.obligs if o['status'] in ('discharged', 'known'))
        nd = [o['name'] for o in self.obligs if o['status'] == 'not_discharged']
        distinct = len({o['name'] for o in self.obligs if o['nontrivial']})
        cov = {
            'explanation': self.explanation,
            'evaluations': max(n, 1) if n else 0,
            'distinct_nontrivial': distinct,
            'rule': 'one evaluation = one solver query / CrossHair condition (an obligation); an obligation is '
                    'non-trivial when its reachability twin (same assumptions, assertion replaced by false) is '
                    'satisfiable, i.e. the assertion is reached by at least one input; distinct = distinct names',
            'samples': self.samples or [o['name'] for o in self.obligs[:5]],
            'obligations': n,
            'discharged': disc,
            'not_discharged': nd,
            'reachability_witnesses': self.witnesses,
            'translator_validation_points': self.validation_points,
            'functions_encoded': self.encoded,
            'bounds': self.bounds,
            'solver_seconds': round(self.solver_s, 2),
            'known_findings_hit': [c for c, _ in self.known_hit],
            'obligation_log': self.obligs if len(self.obligs) <= 400 else self.obligs[:400],
            'trusted_base': self.extra.pop('trusted_base', []),
            'checker_cmd': f'./check {self.pid} --tier {self.tier}',
        }
        if self.level == 'model_checking':
            cov['states'] = max(self.states, 1)
            cov['transitions'] = max(self.transitions, 1)
            cov['traces_validated_against_impl'] = self.traces_validated
        cov.update(self.extra)
        ev = {
            'property_id': self.pid, 'tier': self.tier, 'seed': self.seed, 'level': self.level, 'coverage': cov,
            'assumptions': self.assumptions, 'wall_s': round(time.time() - self.t0, 2),
            'violations': len(self.violations),
        }
        # runs against a scratch copy of the repository (mutation testing) must not overwrite the real evidence
        evdir = os.path.join(VERIF, 'evidence') if os.path.realpath(REPO) == '/repo' else os.path.join(VERIF, 'replays', 'alt-evidence')
        os.makedirs(evdir, exist_ok=True)
        with open(os.path.join(evdir, f'{self.pid}.json'), 'w') as f:
            json.dump(ev, f, indent=1, default=str)
        print(f'[{self.pid}] tier={self.tier} obligations={n} discharged={disc} not_discharged={len(nd)} '
              f'violations={len(self.violations)} known={len(self.known_hit)} wall={ev["wall_s"]}s', flush=True)
        if self.violations:
            return 1
        if self.inconclusive_fatal:
            return 2
        return 0
