"""gluesym: run the repository's *real* Python transaction functions on the symbolic database.

The real coroutine (e.g. batch.front_end.front_end._create_jobs) is executed natively.  Values that
come from symbolic inputs or from the symbolic database are proxies (SInt / SBool over z3 terms).  When
Python branches on a proxy (`if record is None`, `if rv['rc'] != 0`, `if not always_run`), the path
explorer picks a feasible side, records the decision and later re-executes the function for the other
side (DFS over decision prefixes, feasibility by z3).  SQL statements issued through the fake
`gear.Database` go to the sqlsym interpreter, which never forks.  The per-path final databases are merged
with ite over the path conditions, so the result is one symbolic successor state.

With concrete inputs and a concrete database the same machinery is a plain concrete run (replay).
"""
import asyncio
import re
import sys
import types

import z3

from .common import HarnessError
from .sqlsym import ops as sqlops
from .sqlsym.interp import NULL, V, b_and, b_not, b_or, is_sym, ite, merge_db, v_ite

_CTX = None


class PathAbort(BaseException):
    """Raised to unwind when a path is infeasible/too deep (BaseException so that `except Exception` in the
    code under test cannot swallow it)."""


class GlueHarnessAbort(BaseException):
    """Carries a HarnessError through `except Exception` blocks of the code under test."""


class Ctx:
    def __init__(self, explorer, prefix):
        self.ex = explorer
        self.prefix = prefix
        self.decisions = []
        self.pc = []
        self.alts = []

    def decide(self, cond):
        if isinstance(cond, bool):
            return cond
        cond = z3.simplify(cond)
        if z3.is_true(cond):
            return True
        if z3.is_false(cond):
            return False
        # feasibility of both sides under the current path condition (also while replaying a prefix: a branch that
        # was FORCED in the original run was not recorded there, so it must not consume a prefix entry now)
        s = self.ex.solver
        s.push()
        s.add(*self.pc)
        s.push()
        s.add(cond)
        t_ok = str(s.check()) != 'unsat'
        s.pop()
        s.push()
        s.add(z3.Not(cond))
        f_ok = str(s.check()) != 'unsat'
        s.pop()
        s.pop()
        self.ex.solver_calls += 2
        if not t_ok and not f_ok:
            raise PathAbort('infeasible path')
        if not (t_ok and f_ok):
            choice = t_ok
            self.pc.append(cond if choice else z3.Not(cond))
            return choice
        i = len(self.decisions)
        if i < len(self.prefix):
            choice = self.prefix[i]
        else:
            choice = True
            self.alts.append(self.decisions + [False])
        self.decisions.append(choice)
        self.pc.append(cond if choice else z3.Not(cond))
        if len(self.decisions) > self.ex.max_decisions:
            raise HarnessError('glue: too many symbolic branch decisions on one path')
        return choice


class SBool:
    __slots__ = ('e',)

    def __init__(self, e):
        self.e = e

    def __bool__(self):
        if _CTX is None:
            raise HarnessError('symbolic bool evaluated outside a glue run')
        return _CTX.decide(self.e)

    def __invert__(self):
        return SBool(z3.Not(self.e))

    def __and__(self, o):
        return SBool(z3.And(self.e, _b(o)))

    def __or__(self, o):
        return SBool(z3.Or(self.e, _b(o)))

    def __eq__(self, o):
        if isinstance(o, (bool, SBool)):
            return SBool(self.e == _b(o))
        if isinstance(o, int):
            return SBool(z3.If(self.e, 1, 0) == o)
        return NotImplemented

    def __ne__(self, o):
        r = self.__eq__(o)
        return r if r is NotImplemented else SBool(z3.Not(r.e))

    def __hash__(self):
        raise TypeError('symbolic bool is unhashable')

    def __int__(self):
        return 1 if bool(self) else 0

    def __add__(self, o):
        return SInt(z3.If(self.e, 1, 0)) + o

    __radd__ = __add__

    def __repr__(self):
        return _short('SBool', self.e)


def _short(kind, e):
    """cheap text for a proxy: code under test formats values into messages; pretty-printing a large z3 term takes minutes"""
    try:
        if isinstance(e, (bool, int)):
            return f'{kind}({e})'
        return f'{kind}(#{e.hash() & 0xffffff:x})'
    except Exception:
        return f'{kind}(?)'


def _b(o):
    if isinstance(o, SBool):
        return o.e
    if isinstance(o, bool):
        return z3.BoolVal(o)
    if isinstance(o, SInt):
        return o.e != 0
    raise HarnessError(f'cannot use {type(o).__name__} as a symbolic bool')


class SInt:
    __slots__ = ('e', 'S')

    def __init__(self, e, S=None):
        self.e = e
        self.S = S  # interner: lets `x == 'running'` work for interned strings

    def _o(self, o):
        if isinstance(o, SInt):
            return o.e
        if isinstance(o, bool):
            return 1 if o else 0
        if isinstance(o, int):
            return o
        if isinstance(o, SBool):
            return z3.If(o.e, 1, 0)
        if isinstance(o, str) and self.S is not None:
            return self.S.code(o)
        return None

    def _bin(self, o, f):
        x = self._o(o)
        if x is None:
            return NotImplemented
        return SInt(f(self.e, x), self.S)

    def _cmp(self, o, f):
        x = self._o(o)
        if x is None:
            return NotImplemented
        return SBool(f(self.e, x))

    def __add__(self, o):
        return self._bin(o, lambda a, b: a + b)

    __radd__ = __add__

    def __sub__(self, o):
        return self._bin(o, lambda a, b: a - b)

    def __rsub__(self, o):
        return self._bin(o, lambda a, b: b - a)

    def __mul__(self, o):
        return self._bin(o, lambda a, b: a * b)

    __rmul__ = __mul__

    def __neg__(self):
        return SInt(-self.e, self.S)

    def __eq__(self, o):
        if o is None:
            return False
        return self._cmp(o, lambda a, b: a == b)

    def __ne__(self, o):
        if o is None:
            return True
        return self._cmp(o, lambda a, b: a != b)

    def __lt__(self, o):
        return self._cmp(o, lambda a, b: a < b)

    def __le__(self, o):
        return self._cmp(o, lambda a, b: a <= b)

    def __gt__(self, o):
        return self._cmp(o, lambda a, b: a > b)

    def __ge__(self, o):
        return self._cmp(o, lambda a, b: a >= b)

    def __bool__(self):
        return bool(SBool(self.e != 0))

    def __hash__(self):
        raise TypeError('symbolic int is unhashable')

    def __index__(self):
        raise HarnessError('symbolic int used where a concrete int is required')

    def __repr__(self):
        return _short('SInt', self.e)

    def __format__(self, spec):
        return _short('sym', self.e)

    def __str__(self):
        return f'<sym>'

    def is_in(self, options):
        """symbolic membership test helper"""
        return SBool(z3.Or(*[self.e == self._o(x) for x in options]))


def to_py(v, S):
    """V -> Python value or proxy; forks on a symbolic NULL flag."""
    n = v.n
    if not isinstance(n, bool):
        n = _CTX.decide(n) if _CTX is not None else None
        if n is None:
            raise HarnessError('symbolic NULL outside a glue run')
    if n:
        return None
    if is_sym(v.v):
        return SInt(v.v, S)
    if isinstance(v.v, int) and v.v in S.i2s:
        return S.i2s[v.v]
    return v.v


def to_v(x, S):
    if isinstance(x, V):
        return x
    if x is None:
        return NULL
    if isinstance(x, SInt):
        return V(x.e)
    if isinstance(x, SBool):
        return V(z3.If(x.e, z3.IntVal(1), z3.IntVal(0)))
    if isinstance(x, bool):
        return V(1 if x else 0)
    if isinstance(x, int):
        return V(x)
    if isinstance(x, str):
        return V(S.code(x))
    if isinstance(x, float):
        return V(int(x))
    return V(S.code(repr(x)))


# ---- real-shaped pymysql.err ---------------------------------------------------------------------
def pymysql_shim():
    m = sys.modules.get('pymysql')
    if m is not None and getattr(m, '__verif_shim__', False):
        return m
    pm = types.ModuleType('pymysql')
    err = types.ModuleType('pymysql.err')

    class MySQLError(Exception):
        pass

    class DatabaseError(MySQLError):
        pass

    class OperationalError(DatabaseError):
        pass

    class InternalError(DatabaseError):
        pass

    class IntegrityError(DatabaseError):
        pass

    class ProgrammingError(DatabaseError):
        pass

    for c in (MySQLError, DatabaseError, OperationalError, InternalError, IntegrityError, ProgrammingError):
        setattr(err, c.__name__, c)
    pm.err = err
    pm.__verif_shim__ = True
    consts = types.ModuleType('pymysql.constants')
    pm.constants = consts
    sys.modules['pymysql'] = pm
    sys.modules['pymysql.err'] = err
    sys.modules['pymysql.constants'] = consts
    return pm


# ---- fake gear.Database -------------------------------------------------------------------------
class FakeTx:
    def __init__(self, fdb):
        self.fdb = fdb

    @property
    def db(self):
        return self.fdb.state

    def _run(self, sql, args):
        try:
            return self._run1(sql, args)
        except HarnessError as e:
            raise GlueHarnessAbort(str(e)) from e

    def _run1(self, sql, args):
        """Execute embedded SQL on the current symbolic state; statement-level atomicity on errors."""
        fdb = self.fdb
        db = fdb.state
        pm = pymysql_shim()
        hook = fdb.hook(sql, args)
        if hook is not None:
            return hook
        m = re.match(r'\s*CALL\s+(\w+)\s*\(', sql, re.I)
        params = [to_v(a, db.S) for a in (args or ())]
        before_err = dict(db.err)
        db.err = {}
        if m:
            res = sqlops.call(db, m.group(1), params)
            frame_results = res.results
            e = res.errcond
        else:
            text = fdb.rewrite(sql)
            if re.match(r'\s*INSERT\s+INTO\s+`?batches`?\s*\(', text, re.I) and not re.search(r'\(\s*`?id`?\s*,', text):
                text = re.sub(r'\(\s*userdata', '(id, userdata', text, 1)
                text = re.sub(r'VALUES\s*\(', 'VALUES (%s, ', text, 1, flags=re.I)
                params = [V(1)] + params
                fdb.last_insert_id = 1
            snapshot = db.copy()
            fr = sqlops.execute(db, text, params)
            frame_results = fr.results
            e = db.any_err()
            if e is not False:
                merged = merge_db(e, snapshot, db)
                for n in db.t:
                    db.t[n] = merged.t[n]
        errs = dict(db.err)
        db.err = before_err
        for kind, cond in errs.items():
            if _CTX.decide(cond) if not isinstance(cond, bool) else cond:
                if kind.startswith('dup:'):
                    raise pm.err.IntegrityError(1062, f'Duplicate entry for key {kind[4:]}')
                if kind.startswith('signal:'):
                    raise pm.err.OperationalError(1644, kind[7:])
                raise pm.err.InternalError(1, kind)
        fdb.n_statements += 1
        return frame_results

    def _rows(self, results):
        S = self.db.S
        for guard, rows in results:
            for c, vals in rows:
                g = b_and(guard, c)
                if g is False:
                    continue
                yield g, vals

    async def just_execute(self, sql, args=None):
        self._run(sql, args)

    async def execute_and_fetchone(self, sql, args=None, query_name=None):
        res = self._run(sql, args)
        if isinstance(res, HookResult):
            return res.rows[0] if res.rows else None
        S = self.db.S
        for g, vals in self._rows(res):
            if isinstance(g, bool) or _CTX.decide(g):
                return {n: to_py(v, S) for n, v in vals}
        return None

    async def execute_and_fetchall(self, sql, args=None, query_name=None):
        res = self._run(sql, args)
        if isinstance(res, HookResult):
            for r in res.rows:
                yield r
            return
        S = self.db.S
        for g, vals in list(self._rows(res)):
            if isinstance(g, bool) or _CTX.decide(g):
                yield {n: to_py(v, S) for n, v in vals}

    async def execute_insertone(self, sql, args=None, *, query_name=None):
        self._run(sql, args)
        return self.fdb.last_insert_id

    async def execute_update(self, sql, args=None, query_name=None):
        self._run(sql, args)
        la = getattr(self.db, 'last_affected', None)
        if la is None:
            return SInt(self.db.fresh('rowcount'))
        return la if isinstance(la, int) else SInt(la)

    async def execute_many(self, sql, args_array, query_name=None):
        for args in args_array:
            self._run(sql, args)


class HookResult:
    def __init__(self, rows):
        self.rows = rows


class _TxCM:
    def __init__(self, fdb):
        self.fdb = fdb

    async def __aenter__(self):
        self.snapshot = self.fdb.state.copy()
        self.fdb.depth += 1
        return FakeTx(self.fdb)

    async def __aexit__(self, et, ev, tb):
        self.fdb.depth -= 1
        if et is not None:
            # rollback
            for n in self.fdb.state.t:
                self.fdb.state.t[n] = self.snapshot.t[n]
            self.fdb.rollbacks += 1
        return False


def make_fake_database(state, hooks=None, rewrites=None):
    """A gear.database.Database whose transactions run on `state` (a sqlsym DB)."""
    from . import loader
    loader.install()
    pymysql_shim()
    import gear.database as gdb
    gdb.pymysql = sys.modules['pymysql']

    class FakeDatabase(gdb.Database):
        def __init__(self):  # no pool
            self.state = state
            self.hooks = hooks or []
            self.rewrites = rewrites or []
            self.depth = 0
            self.rollbacks = 0
            self.n_statements = 0
            self.last_insert_id = None

        def start(self, read_only=False):
            return _TxCM(self)

        def hook(self, sql, args):
            for pat, fn in self.hooks:
                if re.search(pat, sql, re.S):
                    return HookResult(fn(sql, args))
            return None

        def rewrite(self, sql):
            for pat, rep in self.rewrites:
                sql = re.sub(pat, rep, sql, flags=re.S)
            return sql

    return FakeDatabase()


# ---- path exploration ---------------------------------------------------------------------------
class Outcome:
    def __init__(self, pc, db, value=None, exc=None):
        self.pc = pc
        self.db = db
        self.value = value
        self.exc = exc


class Explorer:
    def __init__(self, constraints=(), max_paths=2000, max_decisions=40):
        self.solver = z3.Solver()
        self.solver.set('timeout', 20000)
        self.solver.add(*constraints)
        self.max_paths = max_paths
        self.max_decisions = max_decisions
        self.solver_calls = 0
        self.paths = 0
        self.choice_vars = {}

    def run(self, pre_db, body):
        """body(db_copy) -> coroutine or value.  Returns list of Outcome (one per feasible path)."""
        global _CTX
        work = [[]]
        outs = []
        while work:
            prefix = work.pop()
            self.paths += 1
            if self.paths > self.max_paths:
                raise HarnessError('glue: path budget exceeded')
            ctx = Ctx(self, prefix)
            db = pre_db.copy()
            prev = _CTX
            _CTX = ctx
            try:
                r = body(db)
                if asyncio.iscoroutine(r):
                    loop = asyncio.new_event_loop()
                    try:
                        r = loop.run_until_complete(r)
                    finally:
                        loop.close()
                outs.append(Outcome(ctx.pc, db, value=r))
            except PathAbort:
                pass
            except GlueHarnessAbort as e:
                raise HarnessError(str(e))
            except HarnessError:
                raise
            except Exception as e:  # the code under test raised: an outcome, not a harness failure
                outs.append(Outcome(ctx.pc, db, exc=e))
            finally:
                _CTX = prev
            work.extend(ctx.alts)
        return outs


def merge_outcomes(outs, pre_db):
    """One symbolic successor state: ite over the path conditions (paths are mutually exclusive and, with
    the explorer's constraints, exhaustive)."""
    if not outs:
        raise HarnessError('glue: no feasible path')
    db = outs[-1].db
    for o in reversed(outs[:-1]):
        cond = z3.And(*o.pc) if o.pc else True
        db = merge_db(cond, o.db, db)
    # env constraints / oob from all paths
    db.env_constraints = list(pre_db.env_constraints)
    seen = set()
    for o in outs:
        for c in o.db.env_constraints:
            k = c.get_id() if is_sym(c) else c
            if k not in seen:
                seen.add(k)
                db.env_constraints.append(c)
    oob = False
    for o in outs:
        cond = z3.And(*o.pc) if o.pc else True
        oob = b_or(oob, b_and(cond, o.db.oob))
    db.oob = oob
    db.fresh_n = max(o.db.fresh_n for o in outs)
    db.fresh_prefix = pre_db.fresh_prefix
    db.err = {}
    return db


def exc_kind(e):
    if e is None:
        return 'ok'
    n = type(e).__name__
    st = getattr(e, 'status', None) or getattr(e, 'status_code', None)
    return f'{n}'


def choose(name, options, db=None):
    """Harness-side symbolic shape choice: returns one concrete option on each explored path; the merged
    result is symbolic in the fresh integer `name` (so the solver, not the harness, picks the shape)."""
    options = list(options)
    if _CTX is None:
        raise HarnessError('choose() outside a glue run')
    x = z3.Int(name)
    _CTX.ex.choice_vars[name] = (x, options)
    for i, o in enumerate(options[:-1]):
        if _CTX.decide(x == i):
            return o
    _CTX.pc.append(x == len(options) - 1)
    return options[-1]
