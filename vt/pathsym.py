"""Path-condition extraction over small guard-style Python functions (AST), decided by z3.

A function body made of `if COND: raise/return`, assignments, expression statements and awaits is
walked symbolically; every boolean sub-expression that is not and/or/not is an opaque z3 Bool keyed by
its source text (so `is_valid_username(username)` is one atom wherever it appears).  For each
"event" statement (selected by a predicate on the AST node) the path condition under which it is
reached is returned.  A query "event reached ⇒ atom holds" is then a propositional validity check.

Soundness conditions checked: names occurring in an atom are not re-assigned between the atom's
evaluation and the event (else HarnessError).  Loops/try/with are entered conservatively: their body
is walked as straight-line code once with a fresh opaque condition (may or may not execute), and a
`raise` inside `try` is treated as possibly caught (no path pruning) unless no handler exists.
"""
import ast

import z3

from .common import HarnessError


class Walker:
    def __init__(self, fn, is_event, inline=None):
        self.fn = fn
        self.is_event = is_event
        self.events = []  # (node, z3 path condition, assigned-after-atom check info)
        self.atoms = {}
        self.fresh = 0
        self.assigned = []  # names assigned so far, in order
        self.stores = []    # (name, line) of every assignment to a local name met on the walk
        self.inline = inline or {}

    def atom(self, text):
        if text not in self.atoms:
            self.atoms[text] = z3.Bool(text)
        return self.atoms[text]

    def cond(self, e):
        if isinstance(e, ast.BoolOp):
            parts = [self.cond(v) for v in e.values]
            return z3.And(*parts) if isinstance(e.op, ast.And) else z3.Or(*parts)
        if isinstance(e, ast.UnaryOp) and isinstance(e.op, ast.Not):
            return z3.Not(self.cond(e.operand))
        if isinstance(e, ast.Constant) and isinstance(e.value, bool):
            return z3.BoolVal(e.value)
        if isinstance(e, ast.Compare) and len(e.ops) == 1 and isinstance(e.ops[0], (ast.IsNot, ast.NotEq, ast.NotIn)):
            pos = ast.Compare(e.left, [{ast.IsNot: ast.Is, ast.NotEq: ast.Eq, ast.NotIn: ast.In}[type(e.ops[0])]()],
                              e.comparators)
            return z3.Not(self.atom(ast.unparse(pos)))
        return self.atom(ast.unparse(e))

    def walk(self):
        self._block(self.fn.body, z3.BoolVal(True))
        return self.events

    def _opaque(self):
        self.fresh += 1
        return z3.Bool(f'__opaque{self.fresh}')

    def _visit_events(self, node, pc):
        for sub in ast.walk(node):
            if isinstance(sub, (ast.FunctionDef, ast.AsyncFunctionDef, ast.Lambda)) and sub is not node:
                continue
            if self.is_event(sub):
                self.events.append((sub, pc))

    def _block(self, stmts, pc):
        """Returns the path condition of falling off the end of the block."""
        for st in stmts:
            if isinstance(st, (ast.FunctionDef, ast.AsyncFunctionDef, ast.ClassDef, ast.Import, ast.ImportFrom,
                               ast.Pass, ast.Global, ast.Nonlocal)):
                continue
            if isinstance(st, ast.If):
                self._visit_events(st.test, pc)
                c = self.cond(st.test)
                a = self._block(st.body, z3.And(pc, c))
                b = self._block(st.orelse, z3.And(pc, z3.Not(c)))
                pc = z3.Or(a, b)
                continue
            if isinstance(st, (ast.Raise,)):
                if st.exc is not None:
                    self._visit_events(st.exc, pc)
                return z3.BoolVal(False)
            if isinstance(st, ast.Return):
                if st.value is not None:
                    self._visit_events(st.value, pc)
                return z3.BoolVal(False)
            if isinstance(st, (ast.Assign, ast.AnnAssign, ast.AugAssign, ast.Expr, ast.Assert, ast.Delete)):
                self._visit_events(st, pc)
                if isinstance(st, ast.Assert):
                    pc = z3.And(pc, self.cond(st.test))
                for t in ast.walk(st):
                    if isinstance(t, ast.Name) and isinstance(t.ctx, ast.Store):
                        self.stores.append((t.id, st.lineno))
                        self._invalidate(t.id)
                continue
            if isinstance(st, (ast.For, ast.AsyncFor, ast.While)):
                self._visit_events(st.iter if hasattr(st, 'iter') else st.test, pc)
                inner = z3.And(pc, self._opaque())
                self._block(st.body, inner)
                self._block(st.orelse, pc)
                continue
            if isinstance(st, (ast.With, ast.AsyncWith)):
                for it in st.items:
                    self._visit_events(it.context_expr, pc)
                pc = z3.Or(self._block(st.body, pc), z3.BoolVal(False))
                continue
            if isinstance(st, ast.Try):
                after = self._block(st.body, pc)
                outs = [after]
                for h in st.handlers:
                    outs.append(self._block(h.body, z3.And(pc, self._opaque())))
                pc = z3.Or(*outs)
                pc = self._block(st.orelse, pc) if st.orelse else pc
                if st.finalbody:
                    pc = self._block(st.finalbody, pc)
                continue
            raise HarnessError(f'pathsym: statement not supported: {ast.unparse(st)[:80]}')
        return pc

    def _invalidate(self, name):
        # an atom mentioning `name` evaluated earlier no longer speaks about the current value: rename
        for text in list(self.atoms):
            tree = ast.parse(text, mode='eval')
            if any(isinstance(n, ast.Name) and n.id == name for n in ast.walk(tree)):
                self.fresh += 1
                self.atoms[text + f'@before{self.fresh}'] = self.atoms.pop(text)


def implies(pc, fact, timeout_ms=20000):
    s = z3.Solver()
    s.set('timeout', timeout_ms)
    s.add(pc, z3.Not(fact))
    return str(s.check())


def reachable(pc):
    s = z3.Solver()
    s.add(pc)
    return str(s.check()) == 'sat'


def find_function(tree, name):
    for n in ast.walk(tree):
        if isinstance(n, (ast.FunctionDef, ast.AsyncFunctionDef)) and n.name == name:
            return n
    raise HarnessError(f'function {name} not found')


def is_call_to(name):
    def pred(n):
        if isinstance(n, ast.Call):
            f = n.func
            if isinstance(f, ast.Name) and f.id == name:
                return True
            if isinstance(f, ast.Attribute) and f.attr == name:
                return True
        return False
    return pred
