"""shapex: path explorer for *symbolic program builders* (E5), in the style of vt.glue.Explorer / glue.choose.

The builder runs natively.  Every `choose(name, options)` stands for a fresh z3 integer `name` in
[0, len(options)); the explorer walks the options exactly like glue.choose (binary decisions `name == i`,
both sides checked for feasibility by z3 under the path condition and the explorer's constraints, DFS over
the alternatives), so pinned or constrained choice variables prune whole subtrees and the solver, not the
harness, determines which shapes exist.  Differences from glue.Explorer that matter for builders with
10^5..10^6 paths:

* a re-executed prefix is replayed from the recorded choices (name, arity, index) without asking the solver
  again; the builder must be deterministic, which is checked on every replayed choice (HarnessError if not);
* the path condition is kept in the solved form  AND_k name_k == index_k ;
* outcomes are handed to a callback as they are produced (nothing is retained).
"""
import z3

from . import glue
from .common import HarnessError

_EQ = {}


def _eq(name, i):
    k = (name, i)
    if k not in _EQ:
        _EQ[k] = z3.Int(name) == i
    return _EQ[k]


class ShapeCtx(glue.Ctx):
    def __init__(self, explorer, trace):
        super().__init__(explorer, [])
        self.trace = trace          # list of (name, arity, index) to replay; the last may be ('resume', i)
        self.pos = 0
        self.rec = []

    def decide(self, cond):
        if isinstance(cond, bool):
            return cond
        raise HarnessError('shapex: only choose() decisions are supported in a ShapeExplorer run')

    def _feasible(self, cond):
        s = self.ex.solver
        s.push()
        s.add(*self.pc)
        s.add(cond)
        r = str(s.check())
        s.pop()
        self.ex.solver_calls += 1
        if r == 'unknown':
            raise HarnessError('shapex: solver returned unknown on a shape decision')
        return r == 'sat'

    def choose(self, name, options):
        k = len(options)
        if k == 0:
            raise HarnessError('choose() with no options')
        start = 0
        if self.pos < len(self.trace):
            nm, kk, idx = self.trace[self.pos]
            if nm != name or kk != k:
                raise HarnessError(f'shapex: builder is not deterministic ({nm}/{kk} vs {name}/{k})')
            self.pos += 1
            if not (isinstance(idx, tuple) and idx[0] == 'resume'):
                self.rec.append((name, k, idx))
                self.pc.append(_eq(name, idx))
                return options[idx]
            start = idx[1]          # options below `start` were taken on earlier paths
        x = z3.Int(name)
        excl = [x != j for j in range(start)]
        for i in range(start, k):
            yes = self._feasible(z3.And(excl + [x == i]))
            if i == k - 1:
                no = False
            else:
                no = self._feasible(z3.And(excl + [x != i, x > i, x < k]))
            if yes:
                if no:
                    self.alts.append(self.rec + [(name, k, ('resume', i + 1))])
                self.rec.append((name, k, i))
                self.pc.append(_eq(name, i))
                return options[i]
            if not no:
                raise glue.PathAbort('infeasible path')
            excl.append(x != i)
        raise glue.PathAbort('infeasible path')


def choose(name, options):
    """Drop-in for glue.choose inside a ShapeExplorer run."""
    ctx = glue._CTX
    if not isinstance(ctx, ShapeCtx):
        raise HarnessError('shapex.choose() outside a ShapeExplorer run')
    options = list(options)
    ctx.ex.choice_vars[name] = (z3.Int(name), options)
    return ctx.choose(name, options)


class ShapeExplorer(glue.Explorer):
    def explore(self, body, on_outcome):
        """body() -> value (may raise glue.PathAbort to drop the path).  on_outcome(pc_list, value)."""
        work = [[]]
        while work:
            trace = work.pop()
            self.paths += 1
            if self.paths > self.max_paths:
                raise HarnessError('shapex: path budget exceeded')
            ctx = ShapeCtx(self, trace)
            prev = glue._CTX
            glue._CTX = ctx
            try:
                r = body()
                ok = True
            except glue.PathAbort:
                ok = False
            finally:
                glue._CTX = prev
            work.extend(ctx.alts)
            if ok:
                on_outcome(ctx.pc, r)
