"""Operation layer: run one stored-procedure call or one embedded SQL statement on a DB (symbolic or
concrete) and collect the result row, error conditions and out-of-key-space flag."""
from . import catalog, parse
from .interp import Frame, Interp, V, NULL, b_and, b_not, b_or, ite, v_ite, merge_db
from ..common import HarnessError


class Result:
    def __init__(self, frame, db_before, db):
        self.frame = frame
        self.results = frame.results
        self.err = dict(db.err)

    def col(self, name, default=NULL):
        """Value of result column `name` of the procedure's final SELECT (merged over branches)."""
        out = default
        for guard, rows in reversed(self.results):
            for c, vals in reversed(rows):
                d = dict(vals)
                if name in d:
                    out = v_ite(b_and(guard, c), d[name], out)
        return out


def to_v(x, db):
    if isinstance(x, V):
        return x
    if x is None:
        return NULL
    if isinstance(x, str):
        return V(db.S.code(x))
    if isinstance(x, bool):
        return V(1 if x else 0)
    return V(x)


def call(db, name, args, atomic_on_error=True):
    """CALL name(args) as one atomic transaction.  On an SQL error the database is left as before."""
    r = catalog.routine(name)
    before = db.copy()
    err_before = dict(db.err)
    db.err = {}
    it = Interp(db)
    fr = Frame(db)
    ins = [p for p in r['params'] if p[0] == 'IN']
    if len(ins) != len(args):
        raise HarnessError(f'{name}: expected {len(ins)} arguments, got {len(args)}')
    for (mode, pname), a in zip(ins, args):
        fr.vars[pname] = to_v(a, db)
    it.run_block(r['body'], fr, True)
    res = Result(fr, before, db)
    e = db.any_err()
    if atomic_on_error and e is not False:
        merged = merge_db(e, before, db)
        for n in db.t:
            db.t[n] = merged.t[n]
    res.errcond = e
    for k, v in err_before.items():
        db.err[k] = b_or(db.err.get(k, False), v)
    return res


_stmt_cache = {}


def parse_sql(text):
    if text not in _stmt_cache:
        try:
            _stmt_cache[text] = parse.parse_statements(text)
        except parse.SqlSyntax as e:
            raise HarnessError(f'cannot parse embedded SQL: {e}: {text[:120]!r}')
    return _stmt_cache[text]


def execute(db, text, params=(), guard=True, frame=None):
    """Run embedded SQL text (one or more statements) with %s parameters.  Returns the frame (results)."""
    it = Interp(db)
    fr = frame or Frame(db)
    fr.sqlparams = [to_v(p, db) for p in params]
    for st in parse_sql(text):
        it.stmt(st, fr, b_and(guard, fr.alive))
    return fr


def select(db, text, params=()):
    """Rows of a SELECT: list of (cond, {name: V})."""
    it = Interp(db)
    fr = Frame(db)
    fr.sqlparams = [to_v(p, db) for p in params]
    sts = parse_sql(text)
    if len(sts) != 1 or sts[0][0] != 'selectstmt':
        raise HarnessError('select(): expected one SELECT')
    return [(c, dict(vals)) for c, vals in it.select_rows(sts[0][1], fr, None)]
