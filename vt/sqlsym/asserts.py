"""Assertion builders (named (name, expr[, relaxed_expr]) triples) shared by the SQL-protocol properties.
All are built from vt.sqlsym.oracle recounts over the current (and, for step relations, the previous) database."""
import z3

from . import model, oracle
from .interp import GLOBAL_S as S
from .interp import b_and, b_not, b_or, i_eq, is_sym, ite, truth

ST = oracle.STATE
LIVE = ('Ready', 'Creating', 'Running')


def imp(a, b):
    if isinstance(a, bool):
        return b if a else True
    if isinstance(b, bool):
        return True if b else b_not(a)
    return z3.Implies(a, b)


def parents_of(db, j):
    """[(parent id, present condition)]"""
    return [(k[2], r.present) for k, r in db.t['job_parents'].rows.items() if k[1] == j]


def has_parent(db, f):
    return b_or(*[p for _, p in parents_of(db, f.j)])


def uncommitted_child(db, f):
    """Finding-class predicate shared by C01/C04/C05/C06/C41: a job of an uncommitted non-initial update with >=1 parent."""
    return b_and(f.present, b_not(f.committed), b_not(i_eq(f.update, 1)), has_parent(db, f))


# ---- C04: lifecycle edges + tallies -------------------------------------------------------------------
ALLOWED = {
    'Pending': ['Pending', 'Ready'],
    'Ready': ['Ready', 'Creating', 'Running'] + model.TERMINAL,
    'Creating': ['Creating', 'Running', 'Ready'] + model.TERMINAL,
    'Running': ['Running', 'Ready'] + model.TERMINAL,
    'Success': ['Success'], 'Failed': ['Failed'], 'Error': ['Error'], 'Cancelled': ['Cancelled'],
}


def lifecycle_edges(prev, db):
    out = []
    pj = {f.j: f for f in oracle.jobs(prev)}
    for f in oracle.jobs(db):
        o = pj[f.j]
        ok = b_or(*[b_and(o.in_state(a), b_or(*[f.in_state(b) for b in bs])) for a, bs in ALLOWED.items()])
        e = imp(b_and(o.present, f.present), ok)
        # known class: commit_batch_update recomputes an uncommitted child that mark_job_complete had readied
        relaxed = imp(b_and(o.present, f.present, b_not(uncommitted_child(prev, o))), ok)
        out.append((f'job {f.j}: state edge allowed', e, relaxed))
        out.append((f'job {f.j}: rows are never deleted', imp(o.present, f.present)))
    return out


def tallies(db):
    out = []
    t = db.t['job_groups_n_jobs_in_complete_states']
    js = oracle.jobs(db)
    for g in oracle.groups(db):
        r = t.rows[(1, g)]
        inside = [(f, b_and(f.present, f.in_subtree(db, g))) for f in js]
        rec = {
            'n_completed': oracle.sum_(oracle.cnt(b_and(c, f.terminal())) for f, c in inside),
            'n_succeeded': oracle.sum_(oracle.cnt(b_and(c, f.in_state('Success'))) for f, c in inside),
            'n_failed': oracle.sum_(oracle.cnt(b_and(c, b_or(f.in_state('Failed'), f.in_state('Error')))) for f, c in inside),
            'n_cancelled': oracle.sum_(oracle.cnt(b_and(c, f.in_state('Cancelled'))) for f, c in inside),
        }
        for col, want in rec.items():
            out.append((f'tally[g{g}].{col} = terminal jobs in subtree', imp(r.present, oracle.eq(r.vals[col].v, want))))
    return out


def fallback_only_when_withdrawn(prev, db):
    """C04 "a Creating or Running job may fall back to Ready when its attempt is withdrawn" / C39 "never double-runs":
    a job that was Creating/Running and is Ready afterwards must have had its (previous) current attempt ended by the
    operation (unschedule_job / deactivate_instance of that attempt's instance set attempts.end_time); otherwise the old
    attempt is still live on its worker while the scheduler may start another one."""
    out = []
    pj = {f.j: f for f in oracle.jobs(prev)}
    att = db.t['attempts']
    for f in oracle.jobs(db):
        o = pj[f.j]
        fell = b_and(o.present, f.present, b_or(o.in_state('Creating'), o.in_state('Running')), f.in_state('Ready'))
        ended = o.attempt_id.n
        for k, r in att.rows.items():
            if k[1] != f.j:
                continue
            ended = b_or(ended, b_and(r.present, b_not(o.attempt_id.n), i_eq(o.attempt_id.v, k[2]), b_not(r.vals['end_time'].n)))
        out.append((f'job {f.j}: falls back to Ready only when its current attempt was withdrawn (ended)', imp(fell, ended)))
    return out


# ---- C05: dependencies --------------------------------------------------------------------------------
def dependencies(db):
    out = []
    js = {f.j: f for f in oracle.jobs(db)}
    for f in js.values():
        ps = parents_of(db, f.j)
        all_term = b_and(*[imp(p, js[pid].terminal()) for pid, p in ps])
        some_bad = b_or(*[b_and(p, js[pid].terminal(), b_not(js[pid].in_state('Success'))) for pid, p in ps])
        n_pending = oracle.sum_(oracle.cnt(b_and(p, b_not(js[pid].terminal()))) for pid, p in ps)
        live = b_or(*[f.in_state(s) for s in LIVE])
        base = b_and(f.present, f.committed)
        unc = uncommitted_child(db, f)
        out.append((f'job {f.j}: Ready/Creating/Running only when every parent is terminal',
                    imp(b_and(f.present, live), all_term)))
        out.append((f'job {f.j}: committed and not Pending => no pending parent',
                    imp(b_and(base, b_not(f.in_state('Pending'))), all_term)))
        out.append((f'job {f.j}: committed with all parents terminal is not left Pending',
                    imp(b_and(base, all_term), b_not(f.in_state('Pending')))))
        out.append((f'job {f.j}: n_pending_parents = non-terminal parents', imp(base, oracle.eq(f.npp, n_pending))))
        out.append((f'job {f.j}: marked cancelled iff some terminal parent did not succeed',
                    imp(base, f.marked_cancelled == some_bad if is_sym(f.marked_cancelled) or is_sym(some_bad)
                        else f.marked_cancelled == some_bad)))
        out.append((f'job {f.j}: a cancelled non-always-run job is never Creating/Running',
                    imp(b_and(f.present, b_or(f.in_state('Creating'), f.in_state('Running')), b_not(f.always_run)),
                        b_not(f.marked_cancelled))))
    return out


# ---- C06: completion of batch / groups ------------------------------------------------------------------
def completion(db):
    out = []
    js = oracle.jobs(db)
    for g in oracle.groups(db):
        r = db.t['job_groups'].rows[(1, g)]
        inside = [(f, b_and(f.present, f.committed, f.in_subtree(db, g))) for f in js]
        n = oracle.sum_(oracle.cnt(c) for f, c in inside)
        all_term = b_and(*[imp(c, f.terminal()) for f, c in inside])
        complete = i_eq(r.vals['state'].v, S.code('complete'))
        out.append((f'job_groups[g{g}].n_jobs = committed jobs in subtree', imp(r.present, oracle.eq(r.vals['n_jobs'].v, n))))
        out.append((f'job_groups[g{g}] complete <=> every committed job in subtree terminal',
                    imp(r.present, complete == all_term if (is_sym(complete) or is_sym(all_term)) else complete == all_term)))
    b = db.t['batches'].rows[(1,)]
    allj = [(f, b_and(f.present, f.committed)) for f in js]
    n = oracle.sum_(oracle.cnt(c) for f, c in allj)
    all_term = b_and(*[imp(c, f.terminal()) for f, c in allj])
    complete = b_not(i_eq(b.vals['state'].v, S.code('running')))
    out.append(('batches.n_jobs = committed jobs', imp(b.present, oracle.eq(b.vals['n_jobs'].v, n))))
    out.append(('batch not running <=> every committed job terminal',
                imp(b.present, complete == all_term if (is_sym(complete) or is_sym(all_term)) else complete == all_term)))
    return out


# ---- C10: free cores ------------------------------------------------------------------------------------
def free_cores(db, was_pending=None):
    """was_pending(instance key) -> condition that the instance is or has been `pending` in this history (the listed
    finding class only concerns attempts that ended while their instance was pending)."""
    out = []
    js = {f.j: f for f in oracle.jobs(db)}
    for k, r in db.t['instances'].rows.items():
        fr = db.t['instances_free_cores_mcpu'].rows[k]
        used = 0
        placed = 0
        for ak, a in db.t['attempts'].rows.items():
            here = b_and(a.present, b_not(a.vals['instance_name'].n), i_eq(a.vals['instance_name'].v, k[0]))
            on = b_and(here, a.vals['end_time'].n)
            used = used + ite(on, js[ak[1]].cores, 0)
            placed = placed + ite(here, js[ak[1]].cores, 0)
        live = b_or(i_eq(r.vals['state'].v, S.code('pending')), i_eq(r.vals['state'].v, S.code('active')))
        inactive = i_eq(r.vals['state'].v, S.code('inactive'))
        free, cores = fr.vals['free_cores_mcpu'].v, r.vals['cores_mcpu'].v
        # relaxed (finding class pending-instance-ended-attempt-keeps-cores): free cores may be UNDER-reported by cores
        # of attempts that already ended on this instance, never over-reported
        out.append((f'{S.name(k[0])}: live => free = cores - cores of unended attempts',
                    imp(b_and(r.present, live), oracle.eq(free, cores - used)),
                    imp(b_and(r.present, live), b_or(oracle.eq(free, cores - used),
                                                     b_and(was_pending(k) if was_pending is not None else True,
                                                           free <= cores - used, free >= cores - placed)))))
        out.append((f'{S.name(k[0])}: inactive => all cores free',
                    imp(b_and(r.present, inactive), oracle.eq(fr.vals['free_cores_mcpu'].v, r.vals['cores_mcpu'].v))))
    return out


def db_unchanged(prev, db, tables=None):
    conds = []
    for name, t in db.t.items():
        if tables is not None and name not in tables:
            continue
        pt = prev.t[name]
        for k, r in t.rows.items():
            pr = pt.rows[k]
            same = _beq(r.present, pr.present)
            conds.append(same)
            for c in t.cols:
                conds.append(imp(r.present, model.cell_equal(r.vals[c], pr.vals[c])))
    return b_and(*conds)


def _beq(a, b):
    if isinstance(a, bool) and isinstance(b, bool):
        return a == b
    return a == b
