"""Operations of the batch service on the bounded database, each executed by the REAL code:
front-end operations run the real aiohttp handlers / transaction functions of
batch/batch/front_end/front_end.py and batch/batch/batch.py through vt.glue (fake gear.Database backed by
the sqlsym interpreter); driver/worker operations are the real stored procedures.

Environment stubs (each is part of every claim that uses this module):
  * authentication decorators are bypassed (handlers are called unwrapped with a given userdata);
  * `json_request(request)` returns the given body; `json.dumps`/SpecWriter/file store are inert;
  * `inst_coll_configs.select_inst_coll` returns a harness-chosen (inst_coll, cores_mcpu) per job;
  * `random.randint(0, n_tokens-1)` returns an arbitrary token in range; `time_msecs()` an arbitrary integer;
  * billing-project lookups of `_create_batch` return an open project with no limit;
  * notifications to the driver (`client_session.patch`, task manager) are dropped.
"""
import builtins
import inspect
import json as _json

import z3

from .. import glue, loader
from ..common import HarnessError
from ..glue import SBool, SInt
from . import model, ops
from .interp import GLOBAL_S, V, b_and, is_sym

_fe = None
_bb = None


def front_end():
    global _fe, _bb
    if _fe is None:
        loader.install()
        glue.pymysql_shim()
        import gear.database as gdb
        import sys
        gdb.pymysql = sys.modules['pymysql']
        from batch.front_end import front_end as fe
        from batch import batch as bb
        fe.pymysql = sys.modules['pymysql']
        _fe, _bb = fe, bb
        # int() must not concretise proxies inside the code under test
        def sym_int(x=0, *a):
            if isinstance(x, (SInt,)):
                return x
            return builtins.int(x, *a)
        fe.int = sym_int
        bb.int = sym_int

        class _Json:
            @staticmethod
            def dumps(o, *a, **k):
                return '<json>'

            loads = staticmethod(_json.loads)
        fe.json = _Json

        async def json_request(request):
            return request._body
        fe.json_request = json_request

        class SpecWriter:
            def __init__(self, fs, batch_id):
                self.token = 'tok'

            def add(self, s):
                return 0

            async def write(self):
                return None
        fe.SpecWriter = SpecWriter
        fe.json_response = lambda d, **k: d
        fe.check_service_account_permissions = lambda user, sa: None
    return _fe, _bb


class _Obj:
    def __init__(self, **k):
        self.__dict__.update(k)
        self._items = {'batch_telemetry': {}}

    def __getitem__(self, k):
        return self._items[k]

    def __setitem__(self, k, v):
        self._items[k] = v

    def __contains__(self, k):
        return k in self._items


class _TaskManager:
    def ensure_future(self, coro):
        if inspect.iscoroutine(coro):
            coro.close()


class _InstCollConfigs:
    def __init__(self, world):
        self.world = world

    def select_inst_coll(self, cloud, machine_type, pool_label, preemptible, worker_type, cores, mem, storage):
        ic, cores_mcpu = self.world.next_job_resources()
        return (ic, cores_mcpu, 1024 * 1024 * 1024, 10), None


class _App(dict):
    def __getitem__(self, k):
        try:
            return dict.__getitem__(self, k)
        except KeyError:
            key = str(k)
            for kk, v in self.items():
                if isinstance(kk, str) and kk in key:
                    return v
            raise


class World:
    """A database plus the stub environment; every op mutates self.db (symbolically or concretely)."""

    USER = 'user1'

    def __init__(self, db, constraints=()):
        self.db = db
        self.constraints = list(constraints)   # assumptions on symbolic inputs (for path feasibility)
        self.job_resources = []
        self.rand = []                         # fresh symbolic ints drawn by stubs (name, lo, hi)
        self.log = []
        self.userdata = {'username': self.USER, 'hail_credentials_secret_name': 'sec', 'tokens_secret_name': 'tok',
                         'is_developer': 0}

    # -- stubs
    def fresh_int(self, name, lo=None, hi=None):
        if self.db.concrete_env is not None:
            return self.db.concrete_env(self.db.fresh_name(name), (lo, hi))
        x = self.db.fresh(name)
        if lo is not None:
            self.db.env_constraints.append(x >= lo)
        if hi is not None:
            self.db.env_constraints.append(x <= hi)
        return SInt(x, self.db.S)

    def next_job_resources(self):
        if not self.job_resources:
            raise HarnessError('world: no resources queued for select_inst_coll')
        return self.job_resources.pop(0)

    def app(self, fdb):
        fe, _ = front_end()
        app = _App()
        app['db'] = fdb
        app['file_store'] = _Obj()
        app['inst_coll_configs'] = _InstCollConfigs(self)
        app['regions'] = {'us-central1': 1}
        app['feature_flags'] = {}
        app['n_tokens'] = self.db.sizes.T
        app['frozen'] = False
        app['task_manager'] = _TaskManager()
        app['hail_credentials'] = _Obj(auth_headers=_noop_async)
        app['client_session'] = _Obj(patch=_noop_async)
        app['gear.auth.client_session'] = app['client_session']
        return app

    # -- running real code
    def run(self, make_coro, label):
        """make_coro(app) -> coroutine.  Explores all feasible paths, merges the successor database and
        returns the list of glue.Outcome (with .exc / .value / .pc)."""
        fe, _ = front_end()
        world = self

        queued = list(self.job_resources)

        def body(db):
            async def runner():
                world.job_resources = list(queued)
                fdb = glue.make_fake_database(db, hooks=HOOKS)
                fe_random, fe_time = fe.random, fe.time_msecs

                class _R:
                    @staticmethod
                    def randint(a, b):
                        return world._with_db(db, lambda: world.fresh_int('py_token', a, b))

                    def __getattr__(self, n):
                        return getattr(fe_random, n)
                fe.random = _R()
                fe.time_msecs = lambda: world._with_db(db, lambda: world.fresh_int('now'))
                try:
                    return await make_coro(world.app(fdb))
                finally:
                    fe.random = fe_random
                    fe.time_msecs = fe_time
            return runner()

        ex = glue.Explorer(self.constraints + [c for c in self.db.env_constraints if is_sym(c)])
        outs = ex.run(self.db, body)
        self.db = glue.merge_outcomes(outs, self.db)
        self.job_resources = []
        self.log.append((label, [(glue.exc_kind(o.exc)) for o in outs]))
        return outs

    def _with_db(self, db, f):
        saved = self.db
        self.db = db
        try:
            return f()
        finally:
            self.db = saved

    # -- front-end operations (real handlers) -----------------------------------------------------
    def request(self, match_info=None, body=None):
        return _Obj(match_info=match_info or {}, _body=body, app=None, query={})

    def _handler(self, name, match_info, body, extra_args=()):
        fe, _ = front_end()
        h = inspect.unwrap(getattr(fe, name))

        def make(app):
            req = self.request(match_info, _clone(body))
            req.app = app
            return h(req, dict(self.userdata), *extra_args)
        return self.run(make, name)

    def create_batch(self, token, n_jobs=0, n_job_groups=0):
        spec = {'billing_project': 'bp1', 'token': token, 'n_jobs': n_jobs, 'n_job_groups': n_job_groups}
        return self._handler('create_batch', {}, spec)

    def create_update(self, token, n_jobs, n_job_groups):
        return self._handler('create_update', {'batch_id': '1'}, {'token': token, 'n_jobs': n_jobs, 'n_job_groups': n_job_groups})

    def create_job_groups(self, update_id, specs):
        return self._handler('create_job_groups', {'batch_id': '1', 'update_id': str(update_id)}, specs)

    def create_jobs(self, update_id, specs, resources):
        """specs: list of job spec dicts (validated form); resources: [(inst_coll name, cores_mcpu)] per job."""
        self.job_resources = list(resources)
        fe, _ = front_end()
        h = fe._create_jobs

        def make(app):
            return h(dict(self.userdata), _clone(specs), 1, update_id, app)
        return self.run(make, 'create_jobs')

    def commit_update(self, update_id):
        return self._handler('commit_update', {'batch_id': '1', 'update_id': str(update_id)}, None)

    def close_batch(self):
        return self._handler('close_batch', {'batch_id': '1'}, None)

    def cancel_job_group(self, job_group_id):
        _, bb = front_end()

        def make(app):
            return bb.cancel_job_group_in_db(app['db'], 1, job_group_id)
        return self.run(make, 'cancel_job_group')

    # -- driver / worker operations (stored procedures) ---------------------------------------------
    def call(self, proc, args):
        res = ops.call(self.db, proc, args)
        self.log.append((proc, None))
        return res


async def _noop_async(*a, **k):
    return {}


async def _await(coro):
    return await coro


def glue_run(coro):
    return coro


def _clone(x):
    if isinstance(x, dict):
        return {k: _clone(v) for k, v in x.items()}
    if isinstance(x, list):
        return [_clone(v) for v in x]
    return x


def _bp_hook(sql, args):
    return [{'status': 'open', 'limit': None}]


def _cost_hook(sql, args):
    return [{'cost': 0}]


HOOKS = [
    (r'FROM billing_project_users\s+INNER JOIN billing_projects', _bp_hook),
    (r'SELECT COALESCE\(SUM\(t\.`usage` \* rate\), 0\) AS cost', _cost_hook),
]


def job_spec(job_id, parents=(), group=0, always_run=False, in_update_parents=()):
    """A validated job spec in the form validate_and_clean_jobs leaves it."""
    return {
        'job_id': job_id, 'absolute_parent_ids': list(parents), 'in_update_parent_ids': list(in_update_parents),
        'absolute_job_group_id': group, 'always_run': always_run,
        'process': {'type': 'docker', 'image': 'ubuntu', 'command': ['true'], 'mount_docker_socket': False},
        'resources': {'cpu': '1', 'memory': 'standard', 'storage': '0'},
    }


def group_spec(job_group_id, parent=0):
    return {'job_group_id': job_group_id, 'absolute_parent_id': parent}
