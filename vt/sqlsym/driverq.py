"""Enabledness of the driver loops, taken from the REAL candidate queries in the driver's Python source.

The SQL strings of PoolScheduler.schedule_loop_body.user_runnable_jobs (pool.py) and
Canceller.cancel_cancelled_ready_jobs_loop_body.user_cancelled_ready_jobs (canceller.py) are pulled out of the
source with `ast`, parsed by the sqlsym parser, and their FROM / WHERE parts are evaluated on the (symbolic or
concrete) database: the job-group query row by row (its `cancelled` item through the real LATERAL sub-select), the
job queries' WHERE clauses on every job row with the parameters the Python loop passes (batch id, the group row's
id, the pool = the job's own inst_coll).  The only hand-written part is the Python control flow between the queries
(`if job_group['cancelled']` / `if not job_group['cancelled']`), which is read off the AST shape and checked.
If the source no longer has that shape a HarnessError is raised (INCONCLUSIVE), never a silent fallback.
"""
import ast

from .. import loader
from ..common import HarnessError
from . import ops, parse
from .interp import GLOBAL_S as S
from .interp import Frame, Interp, Scope, V, b_and, b_not, b_or, i_eq, is_sym, truth

_cache = {}


def _strings_in(fn):
    out = []
    for n in ast.walk(fn):
        if isinstance(n, ast.Constant) and isinstance(n.value, str) and 'SELECT' in n.value and 'FROM' in n.value:
            out.append((n.lineno, n.value))
    out.sort()
    return [s for _, s in out]


def _find(tree, name):
    for n in ast.walk(tree):
        if isinstance(n, (ast.FunctionDef, ast.AsyncFunctionDef)) and n.name == name:
            return n
    raise HarnessError(f'driver query extraction: function {name} not found')


def _select(text):
    sts = ops.parse_sql(text)
    if len(sts) != 1 or sts[0][0] != 'selectstmt' or sts[0][1][0] != 'select':
        raise HarnessError('driver query extraction: expected one SELECT')
    return sts[0][1][1]


def queries(kind):
    """kind 'scheduler' -> (group query, always-run jobs query, runnable jobs query); 'canceller' ->
    (group query, jobs-of-cancelled-group query, marked-jobs query).  Returns parsed select dicts + source texts."""
    if kind in _cache:
        return _cache[kind]
    if kind == 'scheduler':
        rel, outer, inner = 'batch/batch/driver/instance_collection/pool.py', 'schedule_loop_body', 'user_runnable_jobs'
    elif kind == 'jobprivate':
        rel, outer, inner = 'batch/batch/driver/instance_collection/job_private.py', 'create_instances_loop_body', 'user_runnable_jobs'
    else:
        rel, outer, inner = 'batch/batch/driver/canceller.py', 'cancel_cancelled_ready_jobs_loop_body', 'user_cancelled_ready_jobs'
    text = loader.read(rel)
    fn = _find(_find(ast.parse(text), outer), inner)
    strs = _strings_in(fn)
    if len(strs) != 3:
        raise HarnessError(f'{rel}:{inner}: expected 3 candidate queries, found {len(strs)}')
    sels = [_select(s) for s in strs]
    if not (sels[0]['from'] is not None and _mentions(sels[0]['from'], 'job_groups')):
        raise HarnessError(f'{rel}:{inner}: first query is not the job-group query')
    for s in sels[1:]:
        if not _mentions(s['from'], 'jobs'):
            raise HarnessError(f'{rel}:{inner}: job query does not read `jobs`')
    # Python control flow between the queries
    src = ast.get_source_segment(text, fn)
    if kind in ('scheduler', 'jobprivate'):
        if "if not job_group['cancelled']" not in src:
            raise HarnessError('pool.py: the runnable-jobs query is no longer guarded by `if not job_group[\'cancelled\']`')
    else:
        if "if job_group['cancelled']" not in src:
            raise HarnessError('canceller.py: the ready-jobs query is no longer chosen by `if job_group[\'cancelled\']`')
    _cache[kind] = (sels, strs, rel, fn.lineno)
    return _cache[kind]


def _mentions(ref, table):
    if ref[0] == 'table':
        return ref[1] == table
    if ref[0] == 'join':
        return _mentions(ref[2], table) or _mentions(ref[3], table)
    return False


def group_rows(db, sel, user):
    """rows of the job-group query: list of (condition, group id, cancelled condition)"""
    it = Interp(db)
    fr = Frame(db)
    fr.sqlparams = [V(S.code(user))]
    src = it.source_rows(sel['from'], fr, None)
    item = next((e for e, a in sel['items'] if a == 'cancelled'), None)
    if item is None:
        raise HarnessError('job-group query has no `cancelled` item')
    out = []
    for cond, binds in src:
        sc = Scope(None)
        for b in binds:
            sc.bind(b[0], b[1], b[2])
        c = b_and(cond, truth(it.ev(sel['where'], fr, sc)) if sel['where'] is not None else True)
        if c is False:
            continue
        g = it.ev(('col', 'job_groups', 'job_group_id'), fr, sc)
        if is_sym(g.v):
            raise HarnessError('job-group query: symbolic group id')
        out.append((c, g.v, truth(it.ev(item, fr, sc))))
    # several join rows per group (one per cancelled ancestor): fold
    folded = {}
    for c, g, canc in out:
        pc, pk = folded.get(g, (False, False))
        folded[g] = (b_or(pc, c), b_or(pk, b_and(c, canc)))
    return folded


def job_where(db, sel, j, g):
    """condition that the jobs row j satisfies the WHERE clause of a candidate job query (parameters: batch 1, group g,
    pool = the job's own inst_coll)"""
    it = Interp(db)
    tab = db.t['jobs']
    row = tab.rows[(1, j)]
    fr = Frame(db)
    # parameter order in the source: batch_id, job_group_id, inst_coll (pool) [, limit]
    fr.sqlparams = [V(1), V(g), row.vals['inst_coll'], V(10 ** 6)]
    sc = Scope(None)
    sc.bind('jobs', it.table_cols('jobs'), lambda c, tab=tab, row=row: tab.col(row, c))
    w = sel['where']
    n_params = _count_params(w)
    order = _param_columns(w)
    fr.sqlparams = []
    for col in order:
        fr.sqlparams.append({'batch_id': V(1), 'job_group_id': V(g), 'inst_coll': row.vals['inst_coll']}.get(col, V(10 ** 6)))
    if len(fr.sqlparams) != n_params:
        raise HarnessError('candidate job query: unexpected parameter pattern in WHERE')
    return b_and(row.present, truth(it.ev(w, fr, sc)))


def _count_params(e):
    if not isinstance(e, tuple):
        return 0
    if e[0] == 'param':
        return 1
    n = 0
    for x in e[1:]:
        if isinstance(x, tuple):
            n += _count_params(x)
        elif isinstance(x, list):
            n += sum(_count_params(y) for y in x if isinstance(y, tuple))
    return n


def _param_columns(e, out=None):
    """columns compared with %s, in source order: [(col name)...]"""
    out = [] if out is None else out
    if not isinstance(e, tuple):
        return out
    if e[0] == 'bin' and e[1] == '=' and e[3][0] == 'param' and e[2][0] == 'col':
        out.append(e[2][2])
        return out
    if e[0] == 'bin' and e[1] == '=' and e[2][0] == 'param' and e[3][0] == 'col':
        out.append(e[3][2])
        return out
    if e[0] == 'param':
        out.append('?')
        return out
    for x in e[1:]:
        if isinstance(x, tuple):
            _param_columns(x, out)
    return out


def scheduler_selects(db, j, user='user1'):
    """Condition (over the database) that the scheduler's candidate queries return job j (concrete id)."""
    sels, _, _, _ = queries('scheduler')
    groups = group_rows(db, sels[0], user)
    out = False
    for g, (gc, gcanc) in groups.items():
        a = job_where(db, sels[1], j, g)                       # always-run jobs of any running group
        r = b_and(b_not(gcanc), job_where(db, sels[2], j, g))  # other jobs only if the group is not cancelled
        in_g = i_eq(db.t['jobs'].rows[(1, j)].vals['job_group_id'].v, g)
        out = b_or(out, b_and(gc, in_g, b_or(a, r)))
    return out


def no_live_attempt(db, j):
    """HAND-WRITTEN reading of the job-private queries' `HAVING live_attempts = 0` (live_attempts = number of the job's attempts
    whose instance is pending or active): only WHERE clauses are evaluated from the source text."""
    live = False
    for k, r in db.t['attempts'].rows.items():
        if k[1] != j:
            continue
        inst = r.vals['instance_name']
        for ik, ir in db.t['instances'].rows.items():
            st = ir.vals['state'].v
            live = b_or(live, b_and(r.present, b_not(inst.n), i_eq(inst.v, ik[0]), ir.present,
                                    b_or(i_eq(st, S.code('pending')), i_eq(st, S.code('active')))))
    return b_not(live)


def jobprivate_selects(db, j, user='user1', having=True):
    """Condition that JobPrivateInstanceManager.create_instances_loop_body's candidate queries return job j."""
    sels, _, _, _ = queries('jobprivate')
    groups = group_rows(db, sels[0], user)
    out = False
    for g, (gc, gcanc) in groups.items():
        a = job_where(db, sels[1], j, g)
        r = b_and(b_not(gcanc), job_where(db, sels[2], j, g))
        in_g = i_eq(db.t['jobs'].rows[(1, j)].vals['job_group_id'].v, g)
        out = b_or(out, b_and(gc, in_g, b_or(a, r)))
    return b_and(out, no_live_attempt(db, j)) if having else out


def job_in_pool(db, j):
    """the job's instance collection is a pool (else: job-private)"""
    ic = db.t['jobs'].rows[(1, j)].vals['inst_coll'].v
    out = False
    for k, r in db.t['inst_colls'].rows.items():
        out = b_or(out, b_and(i_eq(ic, k[0]), r.present, truth(r.vals['is_pool'])))
    return out


def canceller_selects(db, j, user='user1'):
    sels, _, _, _ = queries('canceller')
    groups = group_rows(db, sels[0], user)
    out = False
    for g, (gc, gcanc) in groups.items():
        a = b_and(gcanc, job_where(db, sels[1], j, g))
        r = b_and(b_not(gcanc), job_where(db, sels[2], j, g))
        in_g = i_eq(db.t['jobs'].rows[(1, j)].vals['job_group_id'].v, g)
        out = b_or(out, b_and(gc, in_g, b_or(a, r)))
    return out


def encode(R):
    for kind in ('scheduler', 'jobprivate', 'canceller'):
        sels, strs, rel, line = queries(kind)
        R.encode(f'{rel}:{line} candidate queries ({kind})', '\n'.join(strs))
