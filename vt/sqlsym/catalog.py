"""Live stored routines of the batch database, read from the migration files in the order build.yaml
lists them (last CREATE wins, DROP removes)."""
import os
import re

from ..common import REPO, HarnessError
from . import parse


def batch_migrations():
    text = open(os.path.join(REPO, 'build.yaml'), encoding='utf-8').read()
    m = re.search(r'databaseName:\s*batch\b(.*?)(?:\n  - kind:|\Z)', text, re.S)
    if not m:
        raise HarnessError('build.yaml: batch database step not found')
    scripts = re.findall(r'script:\s*/io/sql/(\S+)', m.group(1))
    if len(scripts) < 50:
        raise HarnessError('build.yaml: batch migrations list looks truncated')
    return scripts


_cache = {}


def live_routines():
    """{name: {'kind','name','file','text', ... parsed lazily}}"""
    if 'live' in _cache:
        return _cache['live']
    live = {}
    for script in batch_migrations():
        if not script.endswith('.sql'):
            continue
        path = os.path.join(REPO, 'batch', 'sql', script)
        if not os.path.exists(path):
            raise HarnessError(f'migration {script} listed in build.yaml is missing')
        text = open(path, encoding='utf-8').read()
        if '$$' not in text:
            # no routine bodies possible without a delimiter change, except one-statement triggers
            if re.search(r'CREATE\s+(PROCEDURE|TRIGGER|FUNCTION)', text, re.I):
                raise HarnessError(f'{script}: routine without $$ delimiter not supported')
            for ev in re.finditer(r'DROP\s+(PROCEDURE|TRIGGER|FUNCTION)\s+(?:IF\s+EXISTS\s+)?`?(\w+)`?', text, re.I):
                live.pop(ev.group(2), None)
            continue
        for ev in parse.scan_routines(text):
            if ev[0] == 'drop':
                live.pop(ev[2], None)
            else:
                _, kind, name, rest = ev
                line = text[:text.find(rest)].count('\n') + 1 if rest in text else 0
                live[name] = {'kind': kind, 'name': name, 'file': f'batch/sql/{script}', 'line': line, 'rest': rest}
    _cache['live'] = live
    return live


def routine(name):
    live = live_routines()
    if name not in live:
        raise HarnessError(f'routine {name} is not defined by the migrations')
    r = live[name]
    if 'body' not in r:
        try:
            r.update(parse.parse_routine(r['kind'], name, r['rest']))
        except parse.SqlSyntax as e:
            raise HarnessError(f'{r["file"]}: cannot parse {name}: {e}')
    return r


def triggers_for(table, timing, event):
    out = []
    for name, r in live_routines().items():
        if r['kind'] != 'TRIGGER':
            continue
        rr = routine(name)
        if rr['table'] == table and rr['timing'] == timing and rr['event'] == event:
            out.append(rr)
    return out
