"""Differential validation of the interpreter's relational core (joins, LEFT JOIN NULL extension, GROUP BY,
SUM/COUNT/COALESCE, three-valued logic, EXISTS, IN) against Python's built-in sqlite3 on the same concrete tables.

The concrete tables are solver-chosen: a model of a scenario's assumptions is used to concretise the symbolic
database.  Queries are SELECT-only texts in the common subset of MySQL and SQLite (taken from / shaped like the
statements embedded in the batch service); string literals are replaced by their interned codes on both sides.
Disagreement => HarnessError (exit 2).
"""
import re
import sqlite3

from ..common import HarnessError
from . import ops
from .interp import GLOBAL_S as S
from .interp import is_sym

QUERIES = [
    # audit-style aggregate with boolean arithmetic and NULL-free sums
    """SELECT inst_coll, COALESCE(SUM(n_ready_jobs), 0) AS a, COALESCE(SUM(ready_cores_mcpu), 0) AS b,
              COALESCE(SUM(n_cancelled_ready_jobs), 0) AS c
       FROM user_inst_coll_resources GROUP BY inst_coll""",
    # the ancestor walk of is_job_group_cancelled
    """SELECT self.job_group_id AS g, COUNT(*) AS n
       FROM job_group_self_and_ancestors AS self
       INNER JOIN job_groups_cancelled AS c ON self.batch_id = c.id AND self.ancestor_id = c.job_group_id
       GROUP BY self.job_group_id""",
    # commit_batch_update's parent recount (LEFT JOIN, SUM over booleans, IN)
    """SELECT job_parents.job_id AS j, COALESCE(SUM(1), 0) AS n_parents,
              COALESCE(SUM(state IN ('Pending', 'Ready', 'Creating', 'Running')), 0) AS n_pending,
              COALESCE(SUM(state = 'Success'), 0) AS n_succeeded
       FROM job_parents LEFT JOIN jobs ON jobs.batch_id = job_parents.batch_id AND jobs.job_id = job_parents.parent_id
       GROUP BY job_parents.job_id""",
    # LEFT JOIN with NULL-extended rows and IS NULL / three-valued WHERE
    """SELECT jobs.job_id AS j, attempts.attempt_id AS a, attempts.end_time AS e
       FROM jobs LEFT JOIN attempts ON jobs.batch_id = attempts.batch_id AND jobs.job_id = attempts.job_id
       WHERE attempts.end_time IS NULL OR attempts.end_time > 0""",
    # canceller candidate query
    """SELECT jobs.job_id AS j FROM jobs WHERE batch_id = 1 AND state = 'Ready' AND always_run = 0 AND cancelled = 1""",
    # scheduler candidate query shape with NOT and OR on nullable columns
    """SELECT jobs.job_id AS j, jobs.attempt_id AS a FROM jobs
       WHERE NOT (jobs.attempt_id IS NOT NULL AND jobs.state = 'Running') OR jobs.n_pending_parents > 0""",
    # staging sums per group
    """SELECT job_group_id AS g, COALESCE(SUM(n_jobs), 0) AS n, COALESCE(SUM(n_ready_jobs), 0) AS r
       FROM job_groups_inst_coll_staging WHERE update_id = 1 GROUP BY job_group_id""",
    # EXISTS with correlation
    """SELECT job_groups.job_group_id AS g FROM job_groups
       WHERE EXISTS (SELECT 1 FROM jobs WHERE jobs.batch_id = job_groups.batch_id AND jobs.job_group_id = job_groups.job_group_id
                     AND jobs.state = 'Ready')""",
    # tallies join
    """SELECT job_groups.job_group_id AS g, job_groups.n_jobs AS n, t.n_completed AS c
       FROM job_groups LEFT JOIN job_groups_n_jobs_in_complete_states AS t
         ON job_groups.batch_id = t.id AND job_groups.job_group_id = t.job_group_id
       WHERE job_groups.n_jobs >= COALESCE(t.n_completed, 0)""",
]


def _codes(text):
    return re.sub(r"'([A-Za-z_]+)'", lambda m: str(S.code(m.group(1))), text)


def to_sqlite(db):
    con = sqlite3.connect(':memory:')
    for name, t in db.t.items():
        cols = t.keycols + [c for c in t.cols]
        if not cols:
            continue
        con.execute(f'CREATE TABLE "{name}" ({", ".join(chr(34) + c + chr(34) for c in cols)})')
        for key, r in t.rows.items():
            if is_sym(r.present):
                raise HarnessError('sqlite differential needs a concrete database')
            if not r.present:
                continue
            vals = list(key)
            for c in t.cols:
                v = r.vals[c]
                if is_sym(v.v) or is_sym(v.n):
                    raise HarnessError('sqlite differential needs a concrete database')
                vals.append(None if v.n else v.v)
            con.execute(f'INSERT INTO "{name}" VALUES ({", ".join("?" for _ in vals)})', vals)
    return con


def compare(db):
    """Run every query on both engines; returns the number of result cells compared."""
    con = to_sqlite(db)
    cells = 0
    for q in QUERIES:
        qc = _codes(q)
        mine = []
        for cond, row in ops.select(db, qc):
            if is_sym(cond):
                raise HarnessError('sqlite differential: symbolic row condition on a concrete database')
            if cond:
                mine.append(tuple(None if v.n else v.v for v in row.values()))
        theirs = [tuple(r) for r in con.execute(qc.replace('`', '"')).fetchall()]
        key = lambda r: tuple((x is None, x if x is not None else 0) for x in r)
        if sorted(mine, key=key) != sorted(theirs, key=key):
            raise HarnessError(f'sqlsym disagrees with sqlite3 on: {" ".join(q.split())[:120]} — sqlsym {sorted(mine, key=key)} '
                               f'vs sqlite {sorted(theirs, key=key)}')
        cells += sum(len(r) for r in theirs) + 1
    con.close()
    return cells
