"""Ground-truth recounts over a (symbolic or concrete) batch database, used as oracles.

Every function returns Python/z3 mixed expressions built with the interp helpers, so the same oracle
is used for the solver query and for the concrete replay.
"""
import z3

from . import model
from .interp import GLOBAL_S as S
from .interp import V, b_and, b_not, b_or, i_eq, is_sym, ite, truth

STATE = {s: S.code(s) for s in model.STATES}
TERMINAL = [S.code(s) for s in model.TERMINAL]


def sum_(xs):
    tot = 0
    for x in xs:
        tot = tot + x
    return tot


def cnt(c):
    return ite(c, 1, 0)


def groups(db):
    return [k[1] for k in db.t['job_groups'].rows]


def is_ancestor(db, g, a):
    """row (g, a) of job_group_self_and_ancestors present"""
    r = db.t['job_group_self_and_ancestors'].rows.get((1, g, a))
    return r.present if r is not None else False


def group_cancelled(db, g):
    """is_job_group_cancelled as the property means it: some self-or-ancestor group has a cancellation mark."""
    out = False
    for a in groups(db):
        c = db.t['job_groups_cancelled'].rows[(1, a)].present
        out = b_or(out, b_and(is_ancestor(db, g, a), c))
    return out


def update_committed(db, u):
    r = db.t['batch_updates'].rows[(1, u)]
    return b_and(r.present, truth(r.vals['committed']))


class JobFacts:
    def __init__(self, db, j):
        r = db.t['jobs'].rows[(1, j)]
        self.j = j
        self.present = r.present
        v = r.vals
        self.state = v['state'].v
        self.always_run = truth(v['always_run'])
        self.marked_cancelled = truth(v['cancelled'])
        self.cores = v['cores_mcpu'].v
        self.ic = v['inst_coll'].v
        self.group = v['job_group_id'].v
        self.update = v['update_id'].v
        self.npp = v['n_pending_parents'].v
        self.attempt_id = v['attempt_id']
        self.group_cancelled = b_or(*[b_and(i_eq(self.group, g), group_cancelled(db, g)) for g in groups(db)])
        self.committed = b_or(*[b_and(i_eq(self.update, u[1]), update_committed(db, u[1]))
                                for u in db.t['batch_updates'].rows])
        # the trigger's and the audit query's notion
        self.cancelled = b_and(b_not(self.always_run), b_or(self.marked_cancelled, self.group_cancelled))
        self.cancellable = b_and(b_not(self.always_run), b_not(b_or(self.marked_cancelled, self.group_cancelled)))

    def in_state(self, name):
        return i_eq(self.state, STATE[name])

    def terminal(self):
        return b_or(*[i_eq(self.state, t) for t in TERMINAL])

    def in_subtree(self, db, g):
        return b_or(*[b_and(i_eq(self.group, h), is_ancestor(db, h, g)) for h in groups(db)])


def jobs(db):
    return [JobFacts(db, k[1]) for k in db.t['jobs'].rows]


def user_counter_sums(db, ic):
    t = db.t['user_inst_coll_resources']
    out = {}
    for c in t.cols:
        out[c] = sum_(ite(r.present, r.vals[c].v, 0) for k, r in t.rows.items() if k[1] == ic)
    return out


def user_counter_recount(db, ic, counted):
    """counted(jobfacts) -> condition that the job is visible to the scheduler (e.g. its update is committed)."""
    js = jobs(db)
    out = {k: 0 for k in ('n_ready_jobs', 'n_running_jobs', 'n_creating_jobs', 'ready_cores_mcpu', 'running_cores_mcpu',
                          'n_cancelled_ready_jobs', 'n_cancelled_running_jobs', 'n_cancelled_creating_jobs')}
    for f in js:
        base = b_and(f.present, counted(f), i_eq(f.ic, ic))
        rdy, run, cre = f.in_state('Ready'), f.in_state('Running'), f.in_state('Creating')
        live = b_not(f.cancelled)
        out['n_ready_jobs'] = out['n_ready_jobs'] + cnt(b_and(base, rdy, live))
        out['ready_cores_mcpu'] = out['ready_cores_mcpu'] + ite(b_and(base, rdy, live), f.cores, 0)
        out['n_running_jobs'] = out['n_running_jobs'] + cnt(b_and(base, run, live))
        out['running_cores_mcpu'] = out['running_cores_mcpu'] + ite(b_and(base, run, live), f.cores, 0)
        out['n_creating_jobs'] = out['n_creating_jobs'] + cnt(b_and(base, cre, live))
        out['n_cancelled_ready_jobs'] = out['n_cancelled_ready_jobs'] + cnt(b_and(base, rdy, f.cancelled))
        out['n_cancelled_running_jobs'] = out['n_cancelled_running_jobs'] + cnt(b_and(base, run, f.cancelled))
        out['n_cancelled_creating_jobs'] = out['n_cancelled_creating_jobs'] + cnt(b_and(base, cre, f.cancelled))
    return out


def cancellable_sums(db, u, g, ic):
    t = db.t['job_group_inst_coll_cancellable_resources']
    out = {}
    for c in t.cols:
        out[c] = sum_(ite(r.present, r.vals[c].v, 0) for k, r in t.rows.items() if k[1] == u and k[2] == g and k[3] == ic)
    return out


def cancellable_recount(db, u, g, ic):
    out = {k: 0 for k in ('n_ready_cancellable_jobs', 'ready_cancellable_cores_mcpu', 'n_creating_cancellable_jobs',
                          'n_running_cancellable_jobs', 'running_cancellable_cores_mcpu')}
    for f in jobs(db):
        base = b_and(f.present, i_eq(f.update, u), i_eq(f.ic, ic), f.in_subtree(db, g), f.cancellable)
        rdy, run, cre = f.in_state('Ready'), f.in_state('Running'), f.in_state('Creating')
        out['n_ready_cancellable_jobs'] = out['n_ready_cancellable_jobs'] + cnt(b_and(base, rdy))
        out['ready_cancellable_cores_mcpu'] = out['ready_cancellable_cores_mcpu'] + ite(b_and(base, rdy), f.cores, 0)
        out['n_creating_cancellable_jobs'] = out['n_creating_cancellable_jobs'] + cnt(b_and(base, cre))
        out['n_running_cancellable_jobs'] = out['n_running_cancellable_jobs'] + cnt(b_and(base, run))
        out['running_cancellable_cores_mcpu'] = out['running_cancellable_cores_mcpu'] + ite(b_and(base, run), f.cores, 0)
    return out


def strict_ancestor_cancelled(db, g):
    out = False
    for a in groups(db):
        if a == g:
            continue
        out = b_or(out, b_and(is_ancestor(db, g, a), db.t['job_groups_cancelled'].rows[(1, a)].present))
    return out


def eq(a, b):
    if not is_sym(a) and not is_sym(b):
        return a == b
    return a == b
